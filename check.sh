#!/bin/bash
# ./check.sh <Cxx> [quick|thorough]   — see DESIGN.md §7
cd "$(dirname "$0")" || exit 2
export PATH="/opt/veriftools/lean/bin:$PATH"
export PYTHONDONTWRITEBYTECODE=1 HIT9_BITPROTO_VERIF=1
if [ "$2" = quick ] || [ "$2" = thorough ]; then export VERIF_TIER="$2"; fi
exec /venv/bin/python -m tools.check "$@"
