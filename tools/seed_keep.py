"""usage: python tools/seed_keep.py <seeded-src-dir> [<detected-by note>]
confirms the seeded change in a scratch worktree (tools/seed_confirm.sh) and copies it to
/verif/seeded/<name>/ with the confirmation recorded in meta.json"""
import json, os, shutil, subprocess, sys
src = sys.argv[1].rstrip("/")
name = os.path.basename(src)
out = subprocess.run(["/verif/tools/seed_confirm.sh", src], capture_output=True, text=True).stdout.strip()
print(name, out.replace("\n", " | "))
if "CONFIRMED" not in out.split("\n")[-1] or "NOT-CONFIRMED" in out:
    sys.exit(1)
dst = os.path.join("/verif/seeded", name)
os.makedirs(dst, exist_ok=True)
for f in os.listdir(src):
    shutil.copy(os.path.join(src, f), os.path.join(dst, f))
meta = json.load(open(os.path.join(dst, "meta.json")))
meta["confirmed_by_me"] = out.split("\n")[0]
if len(sys.argv) > 2:
    meta["detected_by"] = sys.argv[2]
json.dump(meta, open(os.path.join(dst, "meta.json"), "w"), indent=1)
