"""C18 — compilation is deterministic.

What is compared with what
--------------------------
For every (workspace, main file, language/option set) the REAL command line compiler of the
working tree is run once in a fresh process (PYTHONHASHSEED=0, absolute input path, cwd = the
source directory, explicit absolute output directory, linter on).  The sha256 of every file it
writes is the *reference* for that (program, options) pair.  Every other observation of the
SAME files with the SAME options must produce the same file names with the same sha256:

 (1) fresh processes: PYTHONHASHSEED in {0,1,2,3,random,...}, cwd in {source dir, a sub directory,
     the scratch root, an unrelated directory, the directory of a twin program that contains files
     of the same names}, input path absolute / relative / "./x" /
     non-normalised, output directory absolute / relative / trailing slash / non-normalised /
     omitted (default = next to the source file), `-q` on/off, plain repetition;
 (2) ONE process (a small driver script run as a subprocess which imports bitproto from the
     working tree) that compiles many (program, options) pairs one after another: through
     `bitproto._main.main`, through `parse()` [+ `lint()`] + `render()`, and through protos that
     are parsed once, kept, and rendered later / repeatedly / in several languages, interleaved
     with other programs, with twins (same file, proto and definition names, different content,
     other directory; reached through the same relative path after chdir), with files that share
     imported files, with failing parses in between, with gc between steps.

Nothing about the content of the generated code is asserted - only equality of bytes across runs
(the property text).  Output names are located independently of the compiler (`<base>_bp.<ext>`
in the directory the documentation promises), so files written to a wrong place count as missing.

Programs: tools.gen.ProgramGen programs (0-4 imports, main forced to >= 3 imports for a part),
hand-structured randomised workspaces (5 imports in one file, diamond imports, imports from and
into a sub directory, `import as` (the twin spells the aliases the other way), the same definition names in
several files and in nested scopes, enums declared in non-ascending value order, constants
computed from imported constants, name prefix / package / module options), text twins, all
decorated with comments (also in front of `import` / `proto`, where parent and child parsers
share the comment stack), trailing comments, names that convert differently per language
(snake_case / camelCase / digits / keyword `type`) and lint-violating names and indentation.

A (program, options) pair whose reference compile fails is outside the precondition (skipped and
counted) unless it compiles under `-q` / another hash seed - that is reported.  The compiler
sources are fingerprinted at the start; if they change on disk while the check runs (a patch
applied or reverted concurrently) the run aborts with an error instead of reporting a deviation.
Replays: `python -m tools.props_c18 replays/C18-<seed>-<n>.json` re-runs a replay file.
"""
from __future__ import annotations

import concurrent.futures
import hashlib
import json
import os
import random
import re
import shutil
import subprocess
import sys
import threading
from typing import Any, Dict, List, Optional, Tuple

from . import common
from . import gen as G
from . import real as R

PY = common.PY
ROOT_MARK = "$ROOT"
EXT = {"c": (".c", ".h"), "go": (".go",), "py": (".py",)}


def _env(seed: str) -> Dict[str, str]:
    e = dict(os.environ)
    e["PYTHONPATH"] = f"{common.REPO}/compiler:{common.REPO}/lib/py"
    e["PYTHONDONTWRITEBYTECODE"] = "1"
    e["PYTHONHASHSEED"] = seed
    return e


def tree_fingerprint() -> str:
    """sha256 over the compiler sources under test (the comparison is void if they change
    while the check runs, e.g. a patch applied / reverted concurrently)"""
    h = hashlib.sha256()
    base = os.path.join(common.REPO, "compiler", "bitproto")
    for rootd, dirs, files in os.walk(base):
        dirs.sort()
        for fn in sorted(files):
            if fn.endswith(".py"):
                p = os.path.join(rootd, fn)
                h.update(p.encode())
                try:
                    with open(p, "rb") as f:
                        h.update(f.read())
                except OSError:
                    h.update(b"<unreadable>")
    return h.hexdigest()


_FP = [""]


def assert_tree_unchanged() -> None:
    if tree_fingerprint() != _FP[0]:
        raise RuntimeError("the compiler sources under test changed on disk during the run; observations are void (not a property violation)")


# =============================================================================== programs
class WS:
    """a directory of .bitproto files; `targets` are the files compiled on their own"""

    def __init__(self, name: str, files: Dict[str, str], targets: List[str], kind: str) -> None:
        self.name = name
        self.files = files
        self.targets = targets
        self.kind = kind
        self.dir = ""
        self.twin_of: Optional[str] = None
        self.twin_dir = ""  # directory of a workspace with the same file names and other content

    def traditional(self) -> bool:
        return not any("'" in t for t in self.files.values())


WORDS = ["alpha", "beta", "the frame", "checksum", "see RFC 1", "units: mV", "0x1F", "TODO later", "a,b;c", "100%", "do not edit", "id"]
FIELD_GOOD = ["seq_no", "payload_len", "is_valid", "x2_pos", "raw_data8", "http_code", "a_b_c", "mode_sel", "flags", "crc16_sum", "t0", "node_id_v2", "value", "k9"]
FIELD_BAD = ["payloadLen", "HTTPCode", "Value", "mixed_Case9", "type", "camelCaseID", "X"]


def decorate(text: str, rng: random.Random, lintbad: bool) -> str:
    """comments before definitions / imports / proto line, trailing comments, indentation noise"""
    out: List[str] = []
    for line in text.split("\n"):
        st = line.strip()
        ind = line[: len(line) - len(line.lstrip())]
        is_def = bool(re.match(r"^(message|enum|type|const|import|option|proto)\b", st))
        is_member = bool(ind) and bool(re.match(r"^\S+ \w+ = \d+;?$|^\w+ = \d+;?$", st))
        if (is_def and rng.random() < 0.3) or (is_member and rng.random() < 0.15):
            for _ in range(rng.choice([1, 1, 2])):
                out.append(f"{ind}// {rng.choice(WORDS)} {rng.randrange(100)}")
            if rng.random() < 0.08:
                out.append("")  # detaches the comment
        if is_member and rng.random() < 0.05:
            line = line + " // trailing " + rng.choice(WORDS)
        if lintbad and is_member and rng.random() < 0.08:
            line = " " * rng.choice([1, 2]) + line
        out.append(line)
    return "\n".join(out)


def _rename_fields(main: G.Schema, rng: random.Random, lintbad: bool) -> None:
    for s in main.all_files():
        for m in s.messages():
            if rng.random() < 0.5:
                continue
            used = set()
            for f in m.fields:
                if rng.random() < 0.6:
                    pool = FIELD_GOOD + (FIELD_BAD if lintbad else [])
                    nm = rng.choice(pool)
                    if nm in used:
                        nm = f"{nm}_{f.num}" if nm != "type" else f"type_{f.num}"
                    if nm in used:
                        continue
                    f.name = nm
                used.add(f.name)
            # names must stay unique
            seen = set()
            for f in m.fields:
                if f.name in seen:
                    f.name = f"{f.name}_n{f.num}"
                seen.add(f.name)


def gen_random_ws(rng: random.Random, idx: int) -> WS:
    ext = rng.random() < 0.5
    lintbad = rng.random() < 0.35
    po = G.ProgOpts(n_imports=(0, 4), gen=G.GenOpts(allow_ext=ext, big_prob=0.0, max_bits=1500))
    main = G.ProgramGen(rng, po).program()
    files_ = [f for f in main.all_files() if f is not main]
    if len(files_) >= 3 and rng.random() < 0.7:
        # make the main file import every other file (>= 3 imports in one file)
        for f in files_:
            if not any(i is f for (i, _) in main.imports):
                main.imports.append((f, rng.choice([None, f"al{len(main.imports)}"])))
        rng.shuffle(main.imports)
    _rename_fields(main, rng, lintbad)
    if rng.random() < 0.6:
        # enums in non-ascending value order
        for s in main.all_files():
            for d in _all_enums(s):
                if len(d.members) >= 2 and rng.random() < 0.7:
                    d.members = sorted(d.members, key=lambda nv: -nv[1])
                    if rng.random() < 0.5:
                        rng.shuffle(d.members)
    files = {fn: decorate(tx, rng, lintbad) for fn, tx in G.program_files(main, rng).items()}
    mainfn = main.base() + ".bitproto"
    targets = [mainfn]
    others = [fn for fn in files if fn != mainfn]
    if others:
        targets.append(rng.choice(others))
    return WS(f"r{idx}", files, targets, "random")


def _all_enums(s: G.Schema) -> List[G.EnumDef]:
    out: List[G.EnumDef] = []

    def walk(d: Any) -> None:
        if isinstance(d, G.EnumDef):
            out.append(d)
        elif isinstance(d, G.MsgDef):
            for n in d.nested:
                walk(n)

    for d in s.defs:
        walk(d)
    return out


# ---- hand-structured workspace
def _scalar(rng: random.Random) -> str:
    k = rng.random()
    if k < 0.1:
        return "bool"
    if k < 0.2:
        return "byte"
    w = rng.choice([1, 3, 7, 8, 9, 12, 16, 17, 24, 31, 32, 33, 48, 64])
    return f"{'uint' if rng.random() < 0.6 else 'int'}{w}"


def _enum(rng: random.Random, name: str, prefix: str, ind: str, lintbad: bool) -> str:
    nb = rng.choice([2, 3, 4, 8, 12])
    k = rng.randint(2, min(5, 2**nb)) if rng.random() < 0.85 else rng.randint(2, min(9, 2**nb))
    vals = rng.sample(range(2**nb), k)
    if rng.random() < 0.7 and 0 not in vals:
        vals[0] = 0
    vals.sort(reverse=True)  # non-ascending declaration order
    if rng.random() < 0.5:
        rng.shuffle(vals)
        if vals == sorted(vals):
            vals.reverse()
    lines = [f"{ind}enum {name} : uint{nb} {{"]
    for i, v in enumerate(vals):
        nm = f"{prefix}_{'ZYXWVUTSR'[i]}{i}"
        if lintbad and rng.random() < 0.2:
            nm = nm.lower()
        lines.append(f"{ind}    {nm} = {v}")
    lines.append(f"{ind}}}")
    return "\n".join(lines)


def _message(rng: random.Random, name: str, typed: List[Tuple[str, str]], ind: str, ext_ok: bool, lintbad: bool, inner: str = "", nextra: Optional[int] = None) -> str:
    """message with the given (type, name) fields plus random scalar / array fields, in random
    declaration order with random distinct numbers"""
    fs = list(typed)
    names = {n for _, n in fs}
    pool = [n for n in FIELD_GOOD + (FIELD_BAD if lintbad else []) if n not in names]
    rng.shuffle(pool)
    if nextra is None:
        nextra = rng.randint(1, 4) if rng.random() < 0.85 else rng.randint(8, 12)
    for _ in range(min(nextra, len(pool))):
        t = _scalar(rng)
        if rng.random() < 0.3:
            t = f"{t}[{rng.choice([1, 2, 3, 5, 8])}]" + ("'" if ext_ok and rng.random() < 0.3 else "")
        fs.append((t, pool.pop()))
    rng.shuffle(fs)
    nums = rng.sample(range(1, 40), len(fs))
    tick = "'" if ext_ok and rng.random() < 0.4 else ""
    lines = [f"{ind}message {name}{tick} {{"]
    if inner:
        lines.append(inner)
    for (t, n), k in zip(fs, nums):
        lines.append(f"{ind}    {t} {n} = {k}")
    lines.append(f"{ind}}}")
    return "\n".join(lines)


def gen_special_ws(rng: random.Random, idx: int, trad: Optional[bool] = None, alias: Optional[Tuple[bool, bool, bool]] = None) -> WS:
    """common <- types, util ; extra ; main_a imports all four (two `as`), main_b imports common
    under another name plus types.  Header / Packet / Color / Mode exist in several files."""
    if trad is None:
        trad = rng.random() < 0.5
    if alias is None:
        alias = (rng.random() < 0.5, rng.random() < 0.5, rng.random() < 0.5)
    x = not trad
    lintbad = rng.random() < 0.4
    pre = lambda: rng.choice(["", "", 'option c.name_prefix = "%s"\n' % rng.choice(["Cm", "lib_", "Zq", "A"])])  # noqa: E731
    maxi = rng.choice([2, 3, 4, 6])
    F: Dict[str, str] = {}
    F["common.bitproto"] = "\n".join([
        "proto common", pre(),
        f"const MAX_ITEMS = {maxi}",
        'const LIB_NAME = "common lib %d"' % rng.randrange(9),
        f"const ENABLED = {rng.choice(['true', 'false', 'yes'])}",
        f"type Id = uint{rng.choice([8, 12, 16, 24])}",
        "type Blob = byte[MAX_ITEMS]" + ("'" if x and rng.random() < 0.3 else ""),
        _enum(rng, "Color", "COLOR", "", lintbad),
        _message(rng, "Header", [("Id", "id"), ("Color", "color"), ("Blob", "blob")], "", x, lintbad),
        _message(rng, "Outer", [("Inner", "inner"), ("Inner[2]", "inners"), ("Kind", "kind")], "", x, lintbad,
                 inner=_enum(rng, "Kind", "KIND", "    ", lintbad) + "\n" + _message(rng, "Inner", [("Kind", "kind")], "    ", x, lintbad)),
        "",
    ])
    cm = "cm" if alias[0] else "common"
    imp = 'import "common.bitproto"' if cm == "common" else 'import cm "common.bitproto"'
    F["types.bitproto"] = "\n".join([
        "proto types", imp, pre(),
        _enum(rng, "Color", "COLOR", "", lintbad),
        f"type Ids = {cm}.Id[{rng.choice([2, 3])}]",
        _message(rng, "Header", [(f"{cm}.Header", "base"), ("Color", "color"), (f"{cm}.Color", "base_color"), (f"{cm}.Outer.Kind", "kind"), ("Ids", "ids")], "", x, lintbad),
        "",
    ])
    F["util.bitproto"] = "\n".join([
        "proto util", 'import cm "common.bitproto"', pre(),
        f"const LIMIT = cm.MAX_ITEMS * {rng.choice([1, 2, 3])} + {rng.choice([0, 1, 5])}",
        _message(rng, "Packet", [("cm.Id", "ident"), ("uint8[LIMIT]", "data"), ("cm.Outer.Inner", "deep")], "", x, lintbad),
        "",
    ])
    F["extra.bitproto"] = "\n".join([
        "proto extra",
        rng.choice(["", 'option go.package_path = "example.com/x/extra"']),
        rng.choice(["", 'option py.module_name = "extra_mod"']),
        rng.choice(["", f"option c.struct_packing_alignment = {rng.choice([1, 2, 4])}"]),
        _enum(rng, "Mode", "MODE", "", lintbad),
        _message(rng, "Thing", [("Mode", "mode")], "", x, lintbad),
        "",
    ])
    F["sub/deep.bitproto"] = "\n".join([
        "proto deep", 'import "../extra.bitproto"', rng.choice(["", 'import cmn "../common.bitproto"']),
        _message(rng, "Deep", [("extra.Mode", "mode"), ("extra.Thing", "thing")], "", x, lintbad),
        "",
    ])
    tn = "ty" if alias[1] else "types"
    timp = 'import "types.bitproto"' if tn == "types" else 'import ty "types.bitproto"'
    dn = "dp" if alias[2] else "deep"
    imports_a = ['import "common.bitproto"', timp, 'import "util.bitproto"', 'import ex "extra.bitproto"',
                 'import "sub/deep.bitproto"' if dn == "deep" else 'import dp "sub/deep.bitproto"']
    rng.shuffle(imports_a)
    mname = "packet_raw" if lintbad and rng.random() < 0.5 else "Packet"
    F["main_a.bitproto"] = "\n".join([
        "proto main_a", *imports_a, pre(),
        "const TOTAL = util.LIMIT + common.MAX_ITEMS",
        "const GREETING = common.LIB_NAME",
        _enum(rng, "Mode", "MODE", "", lintbad),
        _message(rng, "Header", [("Mode", "mode")], "", x, lintbad),
        _message(rng, mname, [("Header", "hdr"), ("common.Header", "common_hdr"), (f"{tn}.Header", "typed_hdr"), ("util.Packet", "inner_pkt"),
                              ("ex.Thing", "thing"), ("Mode", "mode"), (f"{tn}.Color[3]", "colors"), ("ex.Mode", "ex_mode"), ("uint8[TOTAL]", "buf"), (f"{dn}.Deep", "deep_one")], "", x, lintbad),
        "",
    ])
    bn = "base" if alias[2] else "cmn"
    F["main_b.bitproto"] = "\n".join([
        "proto main_b", f'import {bn} "common.bitproto"', 'import "types.bitproto"', 'import "extra.bitproto"', pre(),
        _enum(rng, "Mode", "MODE", "", lintbad),
        _message(rng, "Packet", [(f"{bn}.Header", "hdr"), ("types.Header", "typed_hdr"), ("Mode", "mode"), (f"{bn}.Outer", "outer"), ("extra.Thing[2]", "things")], "", x, lintbad,
                 inner=_message(rng, "Header", [("Mode", "mode")], "    ", x, lintbad)),
        _message(rng, "Header", [("Packet.Header", "nested_hdr")], "", x, lintbad),
        "",
    ])
    files = {fn: decorate(tx, rng, lintbad) for fn, tx in F.items()}
    others = ["common.bitproto", "types.bitproto", "util.bitproto", "extra.bitproto", "sub/deep.bitproto"]
    rng.shuffle(others)
    w = WS(f"s{idx}", files, ["main_a.bitproto", "main_b.bitproto"] + others[:2], "special")
    w.alias = alias  # type: ignore[attr-defined]
    return w


def text_twin(ws: WS, rng: random.Random, name: str) -> WS:
    """same file / proto / definition names, different content: swapped adjacent enum members and
    fields, changed comments, changed literal widths of scalar fields"""
    files: Dict[str, str] = {}
    for fn, tx in ws.files.items():
        lines = tx.split("\n")
        i = 0
        while i + 1 < len(lines):
            a, b = lines[i], lines[i + 1]
            ma = re.match(r"^(\s+)\w+ = \d+;?$", a)
            mb = re.match(r"^(\s+)\w+ = \d+;?$", b)
            fa = re.match(r"^(\s+)\S+ \w+ = \d+;?$", a)
            fb = re.match(r"^(\s+)\S+ \w+ = \d+;?$", b)
            if ((ma and mb) or (fa and fb)) and rng.random() < 0.5:
                lines[i], lines[i + 1] = b, a
                i += 2
                continue
            i += 1
        out = []
        for ln in lines:
            if ln.strip().startswith("//") and rng.random() < 0.5:
                ln = ln + " (twin)"
            m = re.match(r"^(\s+)(u?int)(\d+) (\w+ = \d+;?)$", ln)
            if m and rng.random() < 0.4:
                w = int(m.group(3))
                w2 = w - 1 if w > 1 else w + 1
                ln = f"{m.group(1)}{m.group(2)}{w2} {m.group(4)}"
            out.append(ln)
        files[fn] = "\n".join(out)
    t = WS(name, files, list(ws.targets), ws.kind + "-twin")
    t.twin_of = ws.name
    return t


NOISE = {
    "okdep.bitproto": "proto okdep\nmessage Dep {\n    uint8 a = 1\n}\n",
    "bad1.bitproto": 'proto bad1\n// c\nimport "okdep.bitproto"\nmessage A {\n    enum E : uint2 {\n        E_A = 0\n    }\n    message B {\n        Undefined x = 1\n    }\n}\n',
    "bad2.bitproto": "proto bad2\nmessage A {\n    message B {\n        uint8 = \n    }\n}\n",
    "bad3.bitproto": "proto bad3\n// pending comment\nmessage A {\n    uint8 a = 1 $\n}\n",
    "bad4.bitproto": "proto bad4\nmessage A {\n    enum E : uint2 {\n        E_A = 0\n        E_A = 1\n    }\n}\n",
    "bad5.bitproto": 'proto bad5\nimport "okdep.bitproto"\nmessage A {\n    okdep.Dep d = 1\n}\nimport "missing_file.bitproto"\n',
    "bad6.bitproto": 'proto bad6\n// before import\nimport "bad1.bitproto"\n',
    "bad7.bitproto": "proto bad7\nmessage A {\n    uint8 a = 1\n    uint9 b = 1\n}\n",
    "bad8.bitproto": "proto bad8\nmessage A {\n    // pending 1\n    // pending 2\n    uint8 a = $\n}\n",
    "bad9.bitproto": 'proto bad9\n// pending before import\nimport "bad8.bitproto"\n',
}


# =============================================================================== features of a target
def reachable(ws: WS, fn: str) -> List[str]:
    seen: List[str] = []

    def walk(f: str) -> None:
        if f in seen or f not in ws.files:
            return
        seen.append(f)
        for m in re.finditer(r'^\s*import (?:\w+ )?"([^"]+)"', ws.files[f], re.M):
            walk(os.path.normpath(os.path.join(os.path.dirname(f), m.group(1))))

    walk(fn)
    return seen


def features(ws: WS, fn: str) -> List[str]:
    tx = ws.files[fn]
    fs = reachable(ws, fn)
    tags = set()
    nimp = len(re.findall(r'^\s*import ', tx, re.M))
    tags.add("imports=%s" % (nimp if nimp < 3 else "3+"))
    if re.search(r'^\s*import \w+ "', tx, re.M):
        tags.add("import-as")
    if len(fs) - 1 > nimp:
        tags.add("transitive-imports")
    edges: Dict[str, int] = {}
    for f in fs:
        for m in re.finditer(r'^\s*import (?:\w+ )?"([^"]+)"', ws.files[f], re.M):
            t = os.path.normpath(os.path.join(os.path.dirname(f), m.group(1)))
            edges[t] = edges.get(t, 0) + 1
    if any(v > 1 for v in edges.values()):
        tags.add("diamond-import")
    if any("/" in f for f in fs) or "/" in fn:
        tags.add("subdirectory-import")
    for m in re.finditer(r"enum \w+ : uint\d+ \{(.*?)\}", tx, re.S):
        vals = [int(v) for v in re.findall(r"^\s*\w+ = (\d+)", m.group(1), re.M)]
        if vals != sorted(vals):
            tags.add("enum-non-ascending")
    names = lambda t: set(re.findall(r"^\s*(?:message|enum|type) (\w+)", t, re.M))  # noqa: E731
    mine = names(tx)
    if any(mine & names(ws.files[o]) for o in fs[1:]):
        tags.add("same-name-as-imported")
    if len(re.findall(r"^\s*(?:message|enum) (\w+)", tx, re.M)) != len(set(re.findall(r"^\s*(?:message|enum) (\w+)", tx, re.M))):
        tags.add("same-name-nested")
    fields = re.findall(r"^\s+\S+ (\w+) = \d+", tx, re.M)
    if any("_" in f for f in fields):
        tags.add("snake-fields")
    if any(re.search(r"[A-Z]", f) for f in fields):
        tags.add("lint-bad-names")
    if re.search(r"^\s+\S+ type = \d+", tx, re.M):
        tags.add("keyword-field")
    if "//" in tx:
        tags.add("comments")
    if re.search(r'//[^\n]*\n\s*import ', tx):
        tags.add("comment-before-import")
    if "'" in tx:
        tags.add("extensible")
    if "option " in tx:
        tags.add("options")
    if re.search(r"^\s*const \w+ = .*[A-Za-z_]\w*\.", tx, re.M):
        tags.add("const-from-import")
    if re.search(r"^\s+message ", tx, re.M):
        tags.add("nested-message")
    if ws.twin_of:
        tags.add("twin")
    return sorted(tags)


# =============================================================================== configurations
class Unit:
    """one (workspace, main file, language, options): what must always give the same bytes"""

    def __init__(self, ws: WS, fn: str, lang: str, extra: Tuple[str, ...]) -> None:
        self.ws = ws
        self.fn = fn
        self.lang = lang
        self.extra = extra
        self.base: Optional[Dict[str, str]] = None  # reference {file name: sha256}
        self.base_dir = ""
        self.base_argv: List[str] = []
        self.tags: List[str] = []

    def cfg(self) -> str:
        return self.lang + "".join(a if a.startswith("-") else "=" + a for a in self.extra)

    def key(self) -> str:
        return f"{self.ws.name}/{self.fn}:{self.cfg()}"

    def expected_names(self) -> List[str]:
        b = os.path.splitext(os.path.basename(self.fn))[0]
        return sorted(f"{b}_bp{e}" for e in EXT[self.lang])

    def step_opts(self) -> Dict[str, Any]:
        o: Dict[str, Any] = {"lang": self.lang, "optimize": "-O" in self.extra}
        if "-F" in self.extra:
            o["filter"] = self.extra[self.extra.index("-F") + 1].split(",")
        if "--endian" in self.extra:
            o["endian"] = self.extra[self.extra.index("--endian") + 1]
        return o


def units_for(ws: WS, fn: str, rng: random.Random, nopt: int) -> List[Unit]:
    us = [Unit(ws, fn, "c", ()), Unit(ws, fn, "go", ()), Unit(ws, fn, "py", ())]
    if ws.traditional():
        us.append(Unit(ws, fn, "c", ("-O",)))
        msgs = re.findall(r"^message (\w+)", ws.files[fn], re.M)
        more: List[Tuple[str, Tuple[str, ...]]] = [("go", ("-O",)), ("c", ("-O", "--endian", "little")), ("c", ("-O", "--endian", "big"))]
        if msgs:
            pick = rng.sample(msgs, min(len(msgs), rng.choice([1, 2, 2, 3])))
            more.append(("c", ("-O", "-F", ",".join(pick))))
            more.append(("go", ("-O", "-F", ",".join(pick))))
        rng.shuffle(more)
        for lang, extra in more[:nopt]:
            us.append(Unit(ws, fn, lang, extra))
    return us


# =============================================================================== fresh-process runs
_ws_locks: Dict[str, threading.Lock] = {}
_counter = [0]
_counter_lock = threading.Lock()


def _fresh(root: str, *p: str) -> str:
    with _counter_lock:
        _counter[0] += 1
        n = _counter[0]
    d = os.path.join(root, *p, f"n{n}")
    os.makedirs(d, exist_ok=True)
    return d


def sha_dir(d: str) -> Dict[str, str]:
    out: Dict[str, str] = {}
    for rootd, _, files in os.walk(d):
        for fn in sorted(files):
            p = os.path.join(rootd, fn)
            with open(p, "rb") as f:
                out[os.path.relpath(p, d)] = hashlib.sha256(f.read()).hexdigest()
    return out


def cli_job(root: str, u: Unit, var: Dict[str, str]) -> Dict[str, Any]:
    """run the command line compiler for unit u under the variation `var`; returns what was
    written where it has to be written"""
    src_abs = os.path.join(u.ws.dir, u.fn)
    src_dir = os.path.dirname(src_abs)
    elsewhere = os.path.join(root, "elsewhere", u.ws.name)
    cwd = {"ws": u.ws.dir, "root": root, "sub": os.path.join(u.ws.dir, "cw"), "else": elsewhere, "twin": u.ws.twin_dir or elsewhere}[var["cwd"]]
    os.makedirs(cwd, exist_ok=True)
    rel = os.path.relpath(src_abs, cwd)
    path = {
        "abs": src_abs,
        "rel": rel,
        "dot": rel if rel.startswith("..") else "./" + rel,
        "nonnorm": os.path.join(u.ws.dir, "..", u.ws.name, ".", u.fn),
    }[var["path"]]
    argv = [u.lang, path]
    collect_dir: Optional[str] = None
    if var["out"] != "default":
        collect_dir = _fresh(root, "o", u.ws.name)
        os.makedirs(os.path.join(os.path.dirname(collect_dir), "x"), exist_ok=True)
        argv.append({
            "abs": collect_dir,
            "rel": os.path.relpath(collect_dir, cwd),
            "slash": collect_dir + "/",
            "nonnorm": os.path.join(os.path.dirname(collect_dir), ".", "x", "..", os.path.basename(collect_dir)),
        }[var["out"]])
    argv += list(u.extra)
    if var["q"] == "1":
        argv.append("-q")
    full = [PY, "-m", "bitproto._main"] + argv
    res: Dict[str, Any] = {"argv": argv, "cwd": cwd, "seed": var["seed"]}

    def go() -> subprocess.CompletedProcess:
        return subprocess.run(full, env=_env(var["seed"]), capture_output=True, text=True, cwd=cwd, timeout=120)

    if collect_dir is not None:
        p = go()
        res["files"] = sha_dir(collect_dir)
        res["dir"] = collect_dir
    else:
        # default output directory = the directory of the source file; one at a time per workspace
        with _counter_lock:
            lock = _ws_locks.setdefault(u.ws.name, threading.Lock())
        with lock:
            for fn in os.listdir(src_dir):
                if "_bp." in fn:
                    os.unlink(os.path.join(src_dir, fn))
            p = go()
            keep = _fresh(root, "o", u.ws.name)
            for fn in os.listdir(src_dir):
                if "_bp." in fn:
                    shutil.move(os.path.join(src_dir, fn), os.path.join(keep, fn))
            res["files"] = sha_dir(keep)
            res["dir"] = keep
            # (information for the replay) a private cwd must stay free of generated files
            if var["cwd"] in ("sub", "else") and cwd != src_dir:
                stray = [f for f in os.listdir(cwd) if "_bp." in f]
                if stray:
                    res["stray_in_cwd"] = stray
                    for f in stray:
                        os.unlink(os.path.join(cwd, f))
    res["rc"] = p.returncode
    res["stderr"] = p.stderr[-600:]
    return res


BASE_VAR = {"seed": "0", "cwd": "ws", "path": "abs", "out": "abs", "q": "0"}
DIMS = {
    "seed": ["0", "1", "2", "3", "random", "4242"],
    "cwd": ["ws", "root", "sub", "else", "twin"],
    "path": ["abs", "rel", "dot", "nonnorm"],
    "out": ["abs", "rel", "slash", "nonnorm", "default"],
    "q": ["0", "1"],
}


def first_difference(da: str, a: Dict[str, str], db: str, b: Dict[str, str]) -> Dict[str, Any]:
    """human readable first difference between two output sets"""
    if sorted(a) != sorted(b):
        return {"file_names_reference": sorted(a), "file_names_observed": sorted(b)}
    for fn in sorted(a):
        if a[fn] != b[fn]:
            try:
                la = open(os.path.join(da, fn), errors="replace").read().split("\n")
                lb = open(os.path.join(db, fn), errors="replace").read().split("\n")
            except OSError as e:  # pragma: no cover
                return {"file": fn, "error": str(e)}
            for i in range(max(len(la), len(lb))):
                x = la[i] if i < len(la) else "<eof>"
                y = lb[i] if i < len(lb) else "<eof>"
                if x != y:
                    return {"file": fn, "line": i + 1, "reference": x[:200], "observed": y[:200], "reference_lines": len(la), "observed_lines": len(lb)}
            return {"file": fn, "note": "differs only in line terminators / encoding"}
    return {}


# =============================================================================== one-process driver
DRIVER = r'''
import gc, hashlib, json, os, sys

def sha_dir(d):
    out = {}
    for root, _, files in os.walk(d):
        for fn in sorted(files):
            p = os.path.join(root, fn)
            with open(p, "rb") as f:
                out[os.path.relpath(p, d)] = hashlib.sha256(f.read()).hexdigest()
    return out

def main():
    sched = json.load(open(sys.argv[1]))
    res = open(sys.argv[2], "w")
    def emit(o):
        res.write(json.dumps(o) + "\n")
        res.flush()
    from bitproto import _main
    from bitproto.parser import parse
    from bitproto.linter import lint
    from bitproto.renderer import render
    kept = {}
    for i, st in enumerate(sched["steps"]):
        emit({"i": i, "begin": 1})
        rec = {"i": i}
        try:
            if st.get("cwd"):
                os.chdir(st["cwd"])
            op = st["op"]
            kw = dict(optimization_mode=bool(st.get("optimize")),
                      optimization_mode_filter_messages=st.get("filter"),
                      optimization_mode_endian=st.get("endian", "both"))
            if op in ("main", "api", "render"):
                os.makedirs(st["outdir_abs"], exist_ok=True)
            if op == "main":      # what the command line calls after argument parsing
                _main.main(st["file"], lang=st["lang"], outdir=st["outdir"], disable_linter=not st.get("lint"),
                           check=False, enable_optimize=bool(st.get("optimize")),
                           filter_messages=st.get("filter"), endian=st.get("endian", "both"))
                rec["files"] = sha_dir(st["outdir_abs"])
            elif op == "api":     # the same pieces called directly
                proto = parse(st["file"], traditional_mode=bool(st.get("optimize")))
                if st.get("lint"):
                    lint(proto)
                render(proto, st["lang"], outdir=st["outdir"], **kw)
                rec["files"] = sha_dir(st["outdir_abs"])
                del proto
            elif op == "parse":   # parse and keep the tree
                kept[st["key"]] = parse(st["file"], traditional_mode=bool(st.get("trad")))
            elif op == "lint":
                lint(kept[st["key"]])
            elif op == "render":  # render a kept tree
                render(kept[st["key"]], st["lang"], outdir=st["outdir"], **kw)
                rec["files"] = sha_dir(st["outdir_abs"])
            elif op == "drop":
                kept.pop(st["key"], None)
            elif op == "bad":     # a compilation that fails
                try:
                    parse(st["file"], traditional_mode=bool(st.get("trad")))
                    rec["bad"] = "no error"
                except Exception as e:
                    rec["bad"] = type(e).__name__
            if st.get("gc"):
                gc.collect()
        except BaseException as e:
            rec["error"] = type(e).__name__ + ": " + str(e)[:300]
        emit(rec)

main()
'''


def run_schedule(root: str, sched: Dict[str, Any]) -> Dict[str, Any]:
    d = _fresh(root, "sched")
    sp = os.path.join(d, "schedule.json")
    rp = os.path.join(d, "results.jsonl")
    with open(sp, "w") as f:
        json.dump(sched, f)
    p = subprocess.run([PY, os.path.join(root, "driver.py"), sp, rp], env=_env(sched["seed"]), capture_output=True, text=True, cwd=root, timeout=600)
    recs: Dict[int, Dict[str, Any]] = {}
    begun = -1
    if os.path.exists(rp):
        for line in open(rp):
            line = line.strip()
            if not line:
                continue
            o = json.loads(line)
            if o.get("begin"):
                begun = o["i"]
            else:
                recs[o["i"]] = o
    return {"rc": p.returncode, "stderr": p.stderr[-600:], "recs": recs, "begun": begun}


class SchedBuilder:
    def __init__(self, root: str, rng: random.Random, units: List[Unit], noise_dir: str) -> None:
        self.root = root
        self.rng = rng
        self.units = units
        self.noise_dir = noise_dir
        self.by_ws: Dict[str, List[Unit]] = {}
        for u in units:
            self.by_ws.setdefault(u.ws.name, []).append(u)
        self.nkey = 0

    def _paths(self, u: Unit, st: Dict[str, Any]) -> None:
        """input path / cwd / output directory style of one step"""
        r = self.rng
        src = os.path.join(u.ws.dir, u.fn)
        out_abs = _fresh(self.root, "io", u.ws.name)
        st["outdir_abs"] = out_abs
        style = r.choice(["abs", "abs", "rel-ws", "rel-ws", "rel-root"])
        if style == "abs":
            st["file"] = src
            st["outdir"] = out_abs
            if r.random() < 0.3:
                st["cwd"] = r.choice([u.ws.dir, self.root, u.ws.twin_dir or self.root])
        elif style == "rel-ws":
            st["cwd"] = u.ws.dir
            st["file"] = u.fn  # twins are reached through the very same string
            st["outdir"] = r.choice([out_abs, os.path.relpath(out_abs, u.ws.dir)])
        else:
            st["cwd"] = self.root
            st["file"] = os.path.relpath(src, self.root)
            st["outdir"] = r.choice([out_abs, os.path.relpath(out_abs, self.root)])
        st["path_style"] = style

    def compile_step(self, u: Unit, op: Optional[str] = None) -> Dict[str, Any]:
        r = self.rng
        st: Dict[str, Any] = {"op": op or r.choice(["main", "api"]), "unit": u.key(), "lint": r.random() < 0.5, "gc": r.random() < 0.25}
        st.update(u.step_opts())
        self._paths(u, st)
        return st

    def noise_step(self) -> Dict[str, Any]:
        r = self.rng
        fn = r.choice(sorted(k for k in NOISE if k.startswith("bad")))
        return {"op": "bad", "file": os.path.join(self.noise_dir, fn), "trad": r.random() < 0.3, "gc": r.random() < 0.2}

    def related(self, u: Unit) -> List[Unit]:
        """units of the same workspace and of its twin(s)"""
        out = list(self.by_ws.get(u.ws.name, []))
        for w, us in self.by_ws.items():
            if us and (us[0].ws.twin_of == u.ws.name or u.ws.twin_of == w):
                out += us
        return out

    def pick_group(self) -> List[Unit]:
        r = self.rng
        a = r.choice(self.units)
        grp = self.related(a)
        if r.random() < 0.6:
            grp = grp + self.by_ws[r.choice(sorted(self.by_ws))]
        return grp

    def build(self, kind: str, length: int) -> Dict[str, Any]:
        r = self.rng
        steps: List[Dict[str, Any]] = []
        grp = self.pick_group()
        if kind == "interleave":
            for _ in range(length):
                if r.random() < 0.12:
                    steps.append(self.noise_step())
                else:
                    steps.append(self.compile_step(r.choice(grp)))
        elif kind == "lang-cycle":
            # all configurations of target A, then of B (same names elsewhere), then A again
            a = r.choice(grp)
            ua = [u for u in grp if u.ws is a.ws and u.fn == a.fn]
            tw = [u for u in grp if u.ws is not a.ws and u.fn == a.fn] or [u for u in grp if not (u.ws is a.ws and u.fn == a.fn)]
            b = r.choice(tw) if tw else a
            ub = [u for u in grp if u.ws is b.ws and u.fn == b.fn]
            op = r.choice(["main", "api", None])
            for us in (ua, ub, ua, ub):
                for u in us:
                    steps.append(self.compile_step(u, op))
                    if len(steps) >= length:
                        break
        elif kind == "repeat":
            u = r.choice(grp)
            v = r.choice(grp)
            for k in range(min(length, 8)):
                steps.append(self.compile_step(u if k % 3 != 2 else v))
        elif kind == "kept":
            # parse several trees, keep them, render them later in several languages, twice,
            # around lint calls, other parses and failing parses
            keys: List[Tuple[str, Unit, bool]] = []
            targets = []
            for u in grp:
                if (u.ws.name, u.fn) not in targets:
                    targets.append((u.ws.name, u.fn))
            r.shuffle(targets)
            for (wn, fn) in targets[: r.randint(2, 4)]:
                us = [u for u in grp if u.ws.name == wn and u.fn == fn]
                for trad in (False, True):
                    if any(("-O" in u.extra) == trad for u in us):
                        self.nkey += 1
                        key = f"k{self.nkey}"
                        st: Dict[str, Any] = {"op": "parse", "key": key, "trad": trad, "unit_ws": wn}
                        src = os.path.join(us[0].ws.dir, fn)
                        if r.random() < 0.5:
                            st["file"] = src
                        else:
                            st["cwd"] = us[0].ws.dir
                            st["file"] = fn
                        steps.append(st)
                        keys.append((key, us[0], trad))
            renders: List[Dict[str, Any]] = []
            for (key, u0, trad) in keys:
                us = [u for u in grp if u.ws is u0.ws and u.fn == u0.fn and ("-O" in u.extra) == trad]
                for u in us:
                    for _ in range(r.choice([1, 2])):
                        st = {"op": "render", "key": key, "unit": u.key(), "gc": r.random() < 0.2}
                        st.update(u.step_opts())
                        out_abs = _fresh(self.root, "io", u.ws.name)
                        st["outdir_abs"] = out_abs
                        st["outdir"] = out_abs
                        renders.append(st)
                if r.random() < 0.5:
                    renders.append({"op": "lint", "key": key})
            r.shuffle(renders)
            renders = renders[: max(4, length - len(steps))]
            for st in renders:
                steps.append(st)
                if r.random() < 0.1:
                    steps.append(self.noise_step())
                if r.random() < 0.15:
                    steps.append(self.compile_step(r.choice(grp)))
        else:
            raise ValueError(kind)
        return {"kind": kind, "seed": r.choice(DIMS["seed"]), "steps": steps}


# =============================================================================== the check
def _mark(root: str, o: Any) -> Any:
    """replace the scratch root in a JSON-like value"""
    if isinstance(o, str):
        return o.replace(root, ROOT_MARK)
    if isinstance(o, list):
        return [_mark(root, x) for x in o]
    if isinstance(o, tuple):
        return [_mark(root, x) for x in o]
    if isinstance(o, dict):
        return {k: _mark(root, v) for k, v in o.items()}
    return o


def _ws_files(wss: List[WS]) -> Dict[str, str]:
    out: Dict[str, str] = {}
    for w in wss:
        for fn, tx in w.files.items():
            out[f"{w.name}/{fn}"] = tx
    return out


SIZES = {
    # random ws, special ws (each gets a twin), random twins, optional -O configs per target, variants per unit, schedules, schedule length
    "quick": dict(n_random=8, n_special=3, n_rtwin=3, nopt=2, nvar=2, n_sched=44, sched_len=20),
    "thorough": dict(n_random=56, n_special=18, n_rtwin=14, nopt=2, nvar=3, n_sched=560, sched_len=30),
}


def check(run: common.Run, drv: Any, rng: random.Random, tier: str) -> None:
    sz = SIZES["thorough" if tier == "thorough" else "quick"]
    run.coverage["rule"] = (
        "reference = sha256 of every file written by a fresh-process compile (hash seed 0, absolute paths); "
        "every other run of the same files with the same options (other hash seeds, cwd, path spelling, output dir, -q, "
        "and many compiles inside one process, interleaved / kept / repeated) must write the same names and bytes"
    )
    _FP[0] = tree_fingerprint()
    with R.Scratch(prefix="bpv-c18-") as sc:
        root = os.path.realpath(sc.dir)
        _check(run, rng, sz, root)
    assert_tree_unchanged()


def _check(run: common.Run, rng: random.Random, sz: Dict[str, int], root: str) -> None:
    # ------------------------------------------------------------------ programs
    wss: List[WS] = []
    for i in range(sz["n_special"]):
        w = gen_special_ws(rng, i, trad=(i % 2 == 0))
        wss.append(w)
        # twin: the same generator (same names everywhere), other random content, and the other
        # `import ... as` spelling for the same imported files
        t = gen_special_ws(rng, i, trad=(i % 2 == 0), alias=tuple(not b for b in w.alias))  # type: ignore
        t.name = f"s{i}t"
        t.kind = "special-twin"
        t.twin_of = w.name
        t.targets = list(w.targets)
        wss.append(t)
    rws: List[WS] = []
    for i in range(sz["n_random"]):
        rws.append(gen_random_ws(rng, i))
    wss += rws
    for i in range(sz["n_rtwin"]):
        wss.append(text_twin(rws[i % len(rws)], rng, f"r{i % len(rws)}t"))
    for w in wss:
        w.dir = os.path.join(root, "w", w.name)
        os.makedirs(w.dir)
        for fn, tx in w.files.items():
            os.makedirs(os.path.dirname(os.path.join(w.dir, fn)), exist_ok=True)
            with open(os.path.join(w.dir, fn), "w") as f:
                f.write(tx)
        run.count(f"workspace:{w.kind}")
    for w in wss:
        if w.twin_of:
            o = [x for x in wss if x.name == w.twin_of][0]
            w.twin_dir, o.twin_dir = o.dir, w.dir
    noise_dir = os.path.join(root, "noise")
    os.makedirs(noise_dir)
    for fn, tx in NOISE.items():
        with open(os.path.join(noise_dir, fn), "w") as f:
            f.write(tx)
    with open(os.path.join(root, "driver.py"), "w") as f:
        f.write(DRIVER)

    units: List[Unit] = []
    for w in wss:
        for fn in w.targets:
            us = units_for(w, fn, rng, sz["nopt"])
            tags = features(w, fn)
            for u in us:
                u.tags = tags
            units += us

    pool = concurrent.futures.ThreadPoolExecutor(16)
    try:
        _phases(run, rng, sz, root, wss, units, noise_dir, pool)
    finally:
        pool.shutdown(wait=True, cancel_futures=True)


def _phases(run: common.Run, rng: random.Random, sz: Dict[str, int], root: str, wss: List[WS], units: List[Unit], noise_dir: str, pool: Any) -> None:
    # ------------------------------------------------------------------ phase 1: references
    import time as _t
    t0 = _t.time()
    phase = run.notes.setdefault("phase_seconds", {})
    futs = [(u, pool.submit(cli_job, root, u, BASE_VAR)) for u in units]
    valid: List[Unit] = []
    for u, f in futs:
        r = f.result()
        if r["rc"] != 0 or sorted(r["files"]) != u.expected_names():
            # does it fail under every configuration?  (a compile that succeeds only without the
            # linter / with another hash seed is a deviation, not an invalid schema)
            alt = {"seed": "1", "cwd": "root", "path": "rel", "out": "abs", "q": "1"}
            r2 = cli_job(root, u, alt)
            if r2["rc"] == 0 and sorted(r2["files"]) == u.expected_names():
                u.base, u.base_dir, u.base_argv = r2["files"], r2["dir"], r2["argv"]
                assert_tree_unchanged()
                run.evaluated()
                run.violation(_mark(root, {
                    "kind": "impl-vs-spec",
                    "input": {"files": _ws_files([u.ws]),
                              "reference_run": {"argv": r2["argv"], "cwd": r2["cwd"], "env": {"PYTHONHASHSEED": "1"}},
                              "argv": r["argv"], "cwd": r["cwd"], "env": {"PYTHONHASHSEED": "0"}, "variation": BASE_VAR},
                    "expected_by_spec": {"same files and sha256 as the reference run (which used -q)": r2["files"]},
                    "observed_impl": {"rc": r["rc"], "files": r["files"], "stderr": r["stderr"][-300:]},
                }), suffix=f"unit={u.key()} compiles with -q / other seed but not without")
                continue
            # not a valid schema for this language / option set (outside the precondition)
            run.count("skipped:reference-compile-failed")
            run.notes.setdefault("skipped_units", []).append({"unit": u.key(), "rc": r["rc"], "stderr": r["stderr"][-200:], "files": sorted(r["files"])})
            continue
        u.base = r["files"]
        u.base_dir = r["dir"]
        u.base_argv = r["argv"]
        valid.append(u)
        run.count(f"config:{u.cfg().split('=')[0]}")
    if len(run.notes.get("skipped_units", [])) > 12:
        run.notes["skipped_units"] = run.notes["skipped_units"][:12] + ["..."]
    seen_targets = set()
    for u in valid:
        if (u.ws.name, u.fn) not in seen_targets:
            seen_targets.add((u.ws.name, u.fn))
            for t in u.tags:
                run.count(f"feature:{t}")
    run.count("targets", len(seen_targets))
    by_key = {u.key(): u for u in valid}

    def report_cli(u: Unit, var: Dict[str, str], r: Dict[str, Any]) -> None:
        assert_tree_unchanged()
        wsl = [u.ws]
        diff = first_difference(u.base_dir, u.base or {}, r["dir"], r["files"])
        if r.get("stray_in_cwd"):
            diff["written_into_cwd_instead"] = r["stray_in_cwd"]
        run.violation(_mark(root, {
            "kind": "impl-vs-spec",
            "input": {
                "files": _ws_files(wsl),
                "layout": "materialise files under $ROOT/w/, create the output directories, run `python -m bitproto._main <argv>` with PYTHONPATH=<repo>/compiler",
                "reference_run": {"argv": u.base_argv, "cwd": u.ws.dir, "env": {"PYTHONHASHSEED": "0"}},
                "argv": r["argv"], "cwd": r["cwd"], "env": {"PYTHONHASHSEED": r["seed"]},
                "variation": var,
            },
            "expected_by_spec": {"same files and sha256 as the reference run": u.base},
            "observed_impl": {"rc": r["rc"], "files": r["files"], "first_difference": diff, "stderr": r["stderr"][-300:]},
        }), suffix=f"unit={u.key()} variation={json.dumps(var, sort_keys=True)}")

    phase["references"] = round(_t.time() - t0, 1)
    if not valid:
        run.notes["warning"] = "no (program, options) pair compiled in the reference configuration - nothing was compared"
    # ------------------------------------------------------------------ phase 2: fresh-process variations
    t0 = _t.time()
    jobs: List[Tuple[Unit, Dict[str, str]]] = []
    rot = 0
    for u in valid:
        for k in range(sz["nvar"]):
            var = {d: rng.choice(vs) for d, vs in DIMS.items()}
            # rotate one dimension deterministically so that every value is hit often
            d = list(DIMS)[rot % len(DIMS)]
            var[d] = DIMS[d][(rot // len(DIMS)) % len(DIMS[d])]
            rot += 1
            if var == BASE_VAR:
                var["repeat"] = "1"
            jobs.append((u, var))
    rng.shuffle(jobs)  # spread the workspaces: default-outdir runs of one workspace are serialised
    futs2 = [(u, var, pool.submit(cli_job, root, u, {k: v for k, v in var.items() if k != "repeat"})) for (u, var) in jobs]
    for u, var, f in futs2:
        r = f.result()
        run.evaluated()
        for d in DIMS:
            run.count(f"fresh:{d}={var[d]}")
        run.nontrivial(("fresh", u.cfg(), u.tags, sorted(var.items())))
        if r["rc"] != 0 or r["files"] != u.base or r.get("stray_in_cwd"):
            report_cli(u, var, r)
        else:
            shutil.rmtree(r["dir"], ignore_errors=True)
    run.sample({"fresh_process_example": _mark(root, {"unit": jobs[0][0].key(), "variation": jobs[0][1]})} if jobs else {})

    phase["fresh_process_variations"] = round(_t.time() - t0, 1)
    # ------------------------------------------------------------------ phase 3: many compiles in one process
    t0 = _t.time()
    sb = SchedBuilder(root, rng, valid, noise_dir)
    kinds = ["interleave", "interleave", "lang-cycle", "kept", "kept", "repeat"]
    scheds = [sb.build(kinds[i % len(kinds)], sz["sched_len"]) for i in range(sz["n_sched"])] if valid else []
    futs3 = [(s, pool.submit(run_schedule, root, s)) for s in scheds]
    for s, f in futs3:
        res = f.result()
        run.count(f"schedule:{s['kind']}")
        run.count(f"schedule-seed:{s['seed']}")
        bad_idx = check_schedule(run, s, res, by_key)
        if bad_idx is not None:
            report_schedule(run, root, s, res, bad_idx, by_key, wss)
        else:
            for st in s["steps"]:
                if "outdir_abs" in st:
                    shutil.rmtree(st["outdir_abs"], ignore_errors=True)
    phase["one_process_schedules"] = round(_t.time() - t0, 1)
    if scheds:
        s0 = scheds[0]
        run.sample({"one_process_example": _mark(root, {"kind": s0["kind"], "seed": s0["seed"], "steps": [{k: v for k, v in st.items() if k in ("op", "unit", "key", "lint", "gc", "path_style", "file")} for st in s0["steps"][:8]]})})


def step_fails(st: Dict[str, Any], rec: Optional[Dict[str, Any]], by_key: Dict[str, Unit]) -> Optional[str]:
    """None if the step's observation agrees with the reference"""
    if st["op"] in ("main", "api", "render"):
        u = by_key[st["unit"]]
        if rec is None:
            return "process ended during this step"
        if "error" in rec:
            return "exception: " + rec["error"]
        if rec.get("files") != u.base:
            return "output differs"
        return None
    if st["op"] in ("parse", "lint"):
        if rec is None:
            return "process ended during this step"
        if "error" in rec:
            return "exception: " + rec["error"]
    return None


def check_schedule(run: common.Run, s: Dict[str, Any], res: Dict[str, Any], by_key: Dict[str, Unit], count: bool = True) -> Optional[int]:
    seen_units: Dict[str, int] = {}
    for i, st in enumerate(s["steps"]):
        rec = res["recs"].get(i)
        if count:
            run.count(f"step:{st['op']}")
            if st["op"] == "bad" and rec is not None:
                run.count(f"failing-compile-between:{rec.get('bad', rec.get('error', '?'))[:40]}")
        if st["op"] in ("main", "api", "render"):
            u = by_key[st["unit"]]
            nth = seen_units.get(st["unit"], 0)
            seen_units[st["unit"]] = nth + 1
            if count:
                run.evaluated()
                run.count("step-position:first-in-process" if i == 0 else ("step-position:unit-seen-before" if nth else "step-position:after-other-programs"))
                run.nontrivial(("one-process", s["kind"], st["op"], u.cfg(), u.tags, min(nth, 2), bool(st.get("lint")), st.get("path_style"), i == 0))
        why = step_fails(st, rec, by_key)
        if why is not None:
            return i
        if rec is None:
            return i
    return None


def report_schedule(run: common.Run, root: str, s: Dict[str, Any], res: Dict[str, Any], bad: int, by_key: Dict[str, Unit], wss: List[WS]) -> None:
    assert_tree_unchanged()
    st = s["steps"][bad]
    why = step_fails(st, res["recs"].get(bad), by_key) or "process ended during this step"
    # shrink: (1) in parallel, try [steps the failing one needs] + one earlier step + failing step;
    # (2) otherwise drop earlier steps one at a time while the same step still fails the same way
    steps = s["steps"][: bad + 1]
    last_res = res
    need = [x for x in steps[:-1] if x["op"] == "parse" and x.get("key") == st.get("key") and st.get("key")]

    def attempt(cand: List[Dict[str, Any]]) -> Optional[Tuple[List[Dict[str, Any]], Dict[str, Any]]]:
        cs = {"kind": s["kind"], "seed": s["seed"], "steps": [_refresh(root, x) for x in cand]}
        r2 = run_schedule(root, cs)
        k = len(cand) - 1
        w2 = step_fails(cs["steps"][k], r2["recs"].get(k), by_key)
        earlier_ok = all(step_fails(cs["steps"][q], r2["recs"].get(q), by_key) is None for q in range(k))
        if w2 is not None and w2.split(":")[0] == why.split(":")[0] and earlier_ok:
            return cs["steps"], r2
        return None

    cands = [need + [st]] + [need + [x, st] for x in steps[:-1] if x not in need][-30:]
    found = None
    with concurrent.futures.ThreadPoolExecutor(16) as ex:
        for got in ex.map(attempt, cands):
            if got is not None and (found is None or len(got[0]) < len(found[0])):
                found = got
    if found is not None:
        steps, last_res = found
    else:
        budget = 16
        j = len(steps) - 2
        while j >= 0 and budget > 0:
            got = attempt(steps[:j] + steps[j + 1:])
            budget -= 1
            if got is not None:
                steps, last_res = got
            j -= 1
    final = {"kind": s["kind"], "seed": s["seed"], "steps": steps}
    k = len(steps) - 1
    rec = last_res["recs"].get(k) or {}
    u = by_key.get(steps[k].get("unit", ""))
    names = {x.get("unit", "").split("/")[0] for x in steps} | {x.get("unit_ws", "") for x in steps}
    involved = [w for w in wss if w.name in names]
    files = _ws_files(involved)
    if any(x["op"] == "bad" for x in steps):
        for fn, tx in NOISE.items():
            files[f"../noise/{fn}"] = tx
    diff: Dict[str, Any] = {}
    if u is not None and rec.get("files") is not None:
        diff = first_difference(u.base_dir, u.base or {}, steps[k]["outdir_abs"], rec["files"])
    run.violation(_mark(root, {
        "kind": "impl-vs-spec",
        "input": {
            "files": files,
            "layout": "materialise files under $ROOT/w/ (noise files under $ROOT/noise/), save `driver` as driver.py, run `python driver.py schedule.json results.jsonl` with PYTHONPATH=<repo>/compiler and PYTHONHASHSEED=<seed>; the last step is the one that deviates",
            "driver": DRIVER,
            "schedule": final,
            "argv": ["driver.py", "schedule.json", "results.jsonl"],
            "reference_run": None if u is None else {"argv": u.base_argv, "cwd": u.ws.dir, "env": {"PYTHONHASHSEED": "0"}},
            "original_schedule_length": len(s["steps"]), "failing_step_in_original": bad,
        },
        "expected_by_spec": {"same files and sha256 as the fresh-process reference run": None if u is None else u.base},
        "observed_impl": {"why": why, "step_result": rec, "first_difference": diff, "driver_rc": last_res["rc"], "driver_stderr": last_res["stderr"][-300:]},
    }), suffix=f"one-process kind={s['kind']} step={bad} unit={st.get('unit', st.get('key'))} ({why.split(':')[0]}) minimal_steps={len(steps)}")


def _refresh(root: str, st: Dict[str, Any]) -> Dict[str, Any]:
    """same step with a fresh output directory"""
    st = dict(st)
    if "outdir_abs" in st:
        old = st["outdir_abs"]
        new = _fresh(root, "io", "shrink")
        st["outdir_abs"] = new
        if st.get("outdir") == old:
            st["outdir"] = new
        elif st.get("cwd"):
            st["outdir"] = os.path.relpath(new, st["cwd"])
        else:
            st["outdir"] = new
    return st


# =============================================================================== replay helper
def replay(path: str) -> int:
    """re-run a replay file written by this module: python -m tools.props_c18 replays/C18-<seed>-<n>.json"""
    rp = json.load(open(path))
    inp = rp["input"]
    with R.Scratch(prefix="bpv-c18r-") as sc:
        root = os.path.realpath(sc.dir)
        un = lambda o: json.loads(json.dumps(o).replace(ROOT_MARK, root))  # noqa: E731
        for fn, tx in inp["files"].items():
            p = os.path.normpath(os.path.join(root, "w", fn))
            os.makedirs(os.path.dirname(p), exist_ok=True)
            with open(p, "w") as f:
                f.write(tx)

        def cli(spec: Dict[str, Any]) -> Dict[str, str]:
            spec = un(spec)
            os.makedirs(spec["cwd"], exist_ok=True)
            argv = spec["argv"]
            src = os.path.normpath(os.path.join(spec["cwd"], argv[1]))
            out = os.path.dirname(src)
            if len(argv) > 2 and not argv[2].startswith("-"):
                out = os.path.normpath(os.path.join(spec["cwd"], argv[2]))
                shutil.rmtree(out, ignore_errors=True)
                os.makedirs(out, exist_ok=True)
            p = subprocess.run([PY, "-m", "bitproto._main"] + argv, env=_env(spec["env"]["PYTHONHASHSEED"]), cwd=spec["cwd"], capture_output=True, text=True)
            got = {k: v for k, v in sha_dir(out).items() if "_bp." in k and "/" not in k}
            for k in got:
                os.unlink(os.path.join(out, k))
            print("rc", p.returncode, argv, got)
            return got

        if "schedule" in inp:
            with open(os.path.join(root, "driver.py"), "w") as f:
                f.write(inp["driver"])
            s = un(inp["schedule"])
            res = run_schedule(root, s)
            k = len(s["steps"]) - 1
            got = (res["recs"].get(k) or {})
            print("last step:", got)
            ref = cli(inp["reference_run"]) if inp.get("reference_run") else None
            same = ref is not None and got.get("files") == ref
        else:
            ref = cli(inp["reference_run"])
            got2 = cli({"argv": inp["argv"], "cwd": inp["cwd"], "env": inp["env"]})
            same = ref == got2
        print("REPRODUCED" if not same else "not reproduced (outputs identical)")
        return 0 if not same else 1


if __name__ == "__main__":
    sys.exit(replay(sys.argv[1]))
