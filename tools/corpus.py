"""Hand-picked boundary schemas that every wire-level check runs first (DESIGN.md §3.4 corpus)."""
from __future__ import annotations

from typing import List

from . import gen as G


def corpus_schemas() -> List[G.Schema]:
    out: List[G.Schema] = []
    # 2-D arrays through aliases whose wire size is a standard width but whose memory is wider
    row = G.AliasDef("Row", G.TArray(G.TBool(), 8, False))
    nib = G.AliasDef("Nibbles", G.TArray(G.TUint(4), 4, False))
    wide = G.AliasDef("Wide", G.TArray(G.TInt(2), 32, False))
    b3 = G.AliasDef("Triple", G.TArray(G.TByte(), 3, False))
    m = G.MsgDef("Grid", False)
    m.fields = [G.Field("pad", 1, G.TUint(3)), G.Field("rows", 2, G.TArray(G.TRef(row), 3, False)),
                G.Field("nibs", 3, G.TArray(G.TRef(nib), 2, True)), G.Field("wide", 4, G.TArray(G.TRef(wide), 2, False)),
                G.Field("tri", 5, G.TArray(G.TRef(b3), 2, False)), G.Field("tail", 6, G.TInt(24))]
    out.append(G.Schema("gridcase", [row, nib, wide, b3, m]))
    # aliases of standard-width integers inside arrays (batch path through to_flag), signed included
    a16 = G.AliasDef("Half", G.TInt(16))
    a8 = G.AliasDef("Octet", G.TByte())
    a64 = G.AliasDef("Big", G.TUint(64))
    e8 = G.EnumDef("Level", 8, [("LEVEL_ZERO", 0), ("LEVEL_MAX", 255), ("LEVEL_MID", 128)])
    e24 = G.EnumDef("Tri", 24, [("TRI_ZERO", 0), ("TRI_MAX", 16777215), ("TRI_ONE", 1)])
    m2 = G.MsgDef("Batch", True)
    m2.fields = [G.Field("b", 9, G.TBool()), G.Field("h", 2, G.TArray(G.TRef(a16), 5, False)),
                 G.Field("o", 3, G.TArray(G.TRef(a8), 7, True)), G.Field("g", 1, G.TArray(G.TRef(a64), 2, False)),
                 G.Field("l", 4, G.TArray(G.TRef(e8), 4, False)), G.Field("t", 5, G.TArray(G.TRef(e24), 3, False)),
                 G.Field("itw", 6, G.TArray(G.TInt(24), 3, False)), G.Field("ufo", 7, G.TArray(G.TUint(40), 2, True)),
                 G.Field("ifs", 8, G.TArray(G.TInt(56), 2, False))]
    out.append(G.Schema("batchcase", [a16, a8, a64, e8, e24, m2]))
    # nested extensible messages inside extensible arrays, out-of-order field numbers
    inner = G.MsgDef("Inner", True)
    inner.fields = [G.Field("z", 7, G.TInt(5)), G.Field("a", 2, G.TUint(11))]
    outer = G.MsgDef("Outer", True)
    outer.fields = [G.Field("tail", 200, G.TUint(9)), G.Field("items", 3, G.TArray(G.TRef(inner), 3, True)),
                    G.Field("head", 1, G.TBool()), G.Field("one", 100, G.TRef(inner))]
    top = G.MsgDef("Top", False)
    top.fields = [G.Field("o", 2, G.TRef(outer)), G.Field("after", 5, G.TInt(64)), G.Field("before", 1, G.TUint(1))]
    out.append(G.Schema("nestcase", [inner, outer, top]))
    # rows of messages, extensible rows, three dimensions (accessor depth through alias chains)
    cell = G.MsgDef("Cell", False)
    cell.fields = [G.Field("v", 1, G.TInt(5)), G.Field("w", 2, G.TBool())]
    cellx = G.MsgDef("CellX", True)
    cellx.fields = [G.Field("u", 1, G.TUint(9))]
    rowm = G.AliasDef("RowM", G.TArray(G.TRef(cell), 2, False))
    rowmx = G.AliasDef("RowMX", G.TArray(G.TRef(cellx), 2, True))
    rowx = G.AliasDef("RowX", G.TArray(G.TUint(3), 2, True))
    plane = G.AliasDef("Plane", G.TArray(G.TRef(rowm), 2, False))
    planes = G.AliasDef("PlaneS", G.TArray(G.TRef(rowx), 3, False))
    cube = G.MsgDef("Cube", False)
    cube.fields = [G.Field("pad", 1, G.TUint(1)), G.Field("grid", 2, G.TArray(G.TRef(rowm), 3, False)),
                   G.Field("gridx", 3, G.TArray(G.TRef(rowmx), 2, True)), G.Field("gx", 4, G.TArray(G.TRef(rowx), 3, False)),
                   G.Field("cube", 5, G.TArray(G.TRef(plane), 2, False)), G.Field("cubes", 6, G.TArray(G.TRef(planes), 2, True)),
                   G.Field("one_row", 7, G.TRef(rowm)), G.Field("tail", 8, G.TUint(7))]
    out.append(G.Schema("cubecase", [cell, cellx, rowm, rowmx, rowx, plane, planes, cube]))
    # empty messages: plain and extensible, as field, as array element, nested
    void = G.MsgDef("Void", False)
    voidx = G.MsgDef("VoidX", True)
    holder = G.MsgDef("Holder", True)
    holder.fields = [G.Field("a", 1, G.TRef(void)), G.Field("b", 2, G.TRef(voidx)), G.Field("c", 3, G.TArray(G.TRef(voidx), 2, False)),
                     G.Field("d", 4, G.TArray(G.TRef(void), 3, True)), G.Field("after", 5, G.TUint(5))]
    out.append(G.Schema("voidcase", [void, voidx, holder]))
    return out


def evolution_schemas(deep: bool = False) -> List[G.Schema]:
    """NEWEST versions for C05; `force_devolve` makes every permitted evolution step happen on the way back"""
    out: List[G.Schema] = []

    def mark(s: G.Schema) -> G.Schema:
        s.force_devolve = True
        return s

    # both steps at once on one array: capacity grows AND the element message grows; a field follows
    elem = G.MsgDef("Elem", True)
    elem.fields = [G.Field("a", 1, G.TUint(5)), G.Field("b", 2, G.TInt(9)), G.Field("c", 3, G.TUint(11))]
    rowx = G.AliasDef("RowX", G.TArray(G.TUint(3), 3, True))
    hold = G.MsgDef("Holder", False)
    hold.fields = [G.Field("h", 1, G.TBool()), G.Field("items", 2, G.TArray(G.TRef(elem), 3, True)), G.Field("after", 3, G.TUint(8)),
                   G.Field("rows", 4, G.TArray(G.TRef(rowx), 3, True)), G.Field("after2", 5, G.TInt(7)),
                   G.Field("std", 6, G.TArray(G.TInt(32), 3, True)), G.Field("after3", 7, G.TUint(16)),
                   G.Field("bytes", 8, G.TArray(G.TByte(), 6, True)), G.Field("after4", 9, G.TUint(3))]
    out.append(mark(G.Schema("bothsteps", [elem, rowx, hold])))
    # an extensible message that is EMPTY in the older version (all it has now was appended), as field and as element
    solo = G.MsgDef("Solo", True)
    solo.fields = [G.Field("only", 1, G.TUint(5))]
    keeper = G.MsgDef("Keeper", False)
    keeper.fields = [G.Field("pad", 1, G.TUint(3)), G.Field("s", 2, G.TRef(solo)), G.Field("after", 3, G.TUint(8)),
                     G.Field("many", 4, G.TArray(G.TRef(solo), 3, True)), G.Field("after2", 5, G.TInt(9)),
                     G.Field("fixed", 6, G.TArray(G.TRef(solo), 2, False)), G.Field("after3", 7, G.TUint(4))]
    out.append(mark(G.Schema("emptyolder", [solo, keeper])))
    # sibling arrays of one message that differ ONLY in the extensible mark (whatever capacity the older version had, a
    # non-extensible sibling of the same element type and capacity precedes it): each keeps its own layout
    route = G.MsgDef("Route", False)
    route.fields = [G.Field("sa", 1, G.TArray(G.TByte(), 1, False)), G.Field("sb", 2, G.TArray(G.TByte(), 2, False)),
                    G.Field("sc", 3, G.TArray(G.TByte(), 3, False)), G.Field("via", 4, G.TArray(G.TByte(), 4, True)), G.Field("port", 5, G.TUint(8)),
                    G.Field("wa", 6, G.TArray(G.TUint(13), 1, False)), G.Field("wb", 7, G.TArray(G.TUint(13), 2, False)),
                    G.Field("wx", 8, G.TArray(G.TUint(13), 3, True)), G.Field("seq", 9, G.TUint(16))]
    out.append(mark(G.Schema("siblings", [route])))
    # a size / capacity prefix at every odd bit offset r whose value needs more than 16 - r bits
    for r in range(1 if deep else 5, 8):  # small r = long messages: thorough tier only
        n = (1 << (16 - r)) // 8  # bytes: the message then has 2^(16-r) + 8 payload bits
        inner = G.MsgDef("Inner", True)
        inner.fields = [G.Field("data", 1, G.TArray(G.TByte(), n, False)), G.Field("extra", 2, G.TUint(8))]
        outer = G.MsgDef("Outer", False)
        outer.fields = [G.Field("pad", 1, G.TUint(r)), G.Field("inner", 2, G.TRef(inner)), G.Field("tail", 3, G.TUint(8))]
        out.append(mark(G.Schema(f"prefixmsg{'abcdefgh'[r]}", [inner, outer])))
        if r >= 3:  # capacities beyond 8192 elements make the message exceed 65535 bits
            arr = G.MsgDef("Arr", False)
            arr.fields = [G.Field("pad", 1, G.TUint(r)), G.Field("items", 2, G.TArray(G.TBool() if r < 5 else G.TUint(3), (1 << (16 - r)) + 1, True)),
                          G.Field("tail", 3, G.TUint(8))]
            out.append(mark(G.Schema(f"prefixarr{'abcdefgh'[r]}", [arr])))
    return out
