"""Hand-picked boundary schemas that every wire-level check runs first (DESIGN.md §3.4 corpus)."""
from __future__ import annotations

from typing import List

from . import gen as G


def corpus_schemas() -> List[G.Schema]:
    out: List[G.Schema] = []
    # 2-D arrays through aliases whose wire size is a standard width but whose memory is wider
    row = G.AliasDef("Row", G.TArray(G.TBool(), 8, False))
    nib = G.AliasDef("Nibbles", G.TArray(G.TUint(4), 4, False))
    wide = G.AliasDef("Wide", G.TArray(G.TInt(2), 32, False))
    b3 = G.AliasDef("Triple", G.TArray(G.TByte(), 3, False))
    m = G.MsgDef("Grid", False)
    m.fields = [G.Field("pad", 1, G.TUint(3)), G.Field("rows", 2, G.TArray(G.TRef(row), 3, False)),
                G.Field("nibs", 3, G.TArray(G.TRef(nib), 2, True)), G.Field("wide", 4, G.TArray(G.TRef(wide), 2, False)),
                G.Field("tri", 5, G.TArray(G.TRef(b3), 2, False)), G.Field("tail", 6, G.TInt(24))]
    out.append(G.Schema("gridcase", [row, nib, wide, b3, m]))
    # aliases of standard-width integers inside arrays (batch path through to_flag), signed included
    a16 = G.AliasDef("Half", G.TInt(16))
    a8 = G.AliasDef("Octet", G.TByte())
    a64 = G.AliasDef("Big", G.TUint(64))
    e8 = G.EnumDef("Level", 8, [("LEVEL_ZERO", 0), ("LEVEL_MAX", 255), ("LEVEL_MID", 128)])
    e24 = G.EnumDef("Tri", 24, [("TRI_ZERO", 0), ("TRI_MAX", 16777215), ("TRI_ONE", 1)])
    m2 = G.MsgDef("Batch", True)
    m2.fields = [G.Field("b", 9, G.TBool()), G.Field("h", 2, G.TArray(G.TRef(a16), 5, False)),
                 G.Field("o", 3, G.TArray(G.TRef(a8), 7, True)), G.Field("g", 1, G.TArray(G.TRef(a64), 2, False)),
                 G.Field("l", 4, G.TArray(G.TRef(e8), 4, False)), G.Field("t", 5, G.TArray(G.TRef(e24), 3, False)),
                 G.Field("i24", 6, G.TArray(G.TInt(24), 3, False)), G.Field("u40", 7, G.TArray(G.TUint(40), 2, True)),
                 G.Field("i56", 8, G.TArray(G.TInt(56), 2, False))]
    out.append(G.Schema("batchcase", [a16, a8, a64, e8, e24, m2]))
    # nested extensible messages inside extensible arrays, out-of-order field numbers
    inner = G.MsgDef("Inner", True)
    inner.fields = [G.Field("z", 7, G.TInt(5)), G.Field("a", 2, G.TUint(11))]
    outer = G.MsgDef("Outer", True)
    outer.fields = [G.Field("tail", 200, G.TUint(9)), G.Field("items", 3, G.TArray(G.TRef(inner), 3, True)),
                    G.Field("head", 1, G.TBool()), G.Field("one", 100, G.TRef(inner))]
    top = G.MsgDef("Top", False)
    top.fields = [G.Field("o", 2, G.TRef(outer)), G.Field("after", 5, G.TInt(64)), G.Field("before", 1, G.TUint(1))]
    out.append(G.Schema("nestcase", [inner, outer, top]))
    return out
