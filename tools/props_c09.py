"""C09 — compilation is total: any input text yields a schema or a parser error (or an OS error for an
unreadable import); rendering an accepted schema never fails with an internal exception; nothing hangs.

Five input streams, all derived from one PRNG state:
  1. character-level mutations of valid programs (delete / insert / replace / duplicate / swap, over
     an alphabet with quotes, backslashes, braces, control characters, NUL and non-ASCII letters);
  2. token-level mutations (delete / duplicate / swap / replace by a token of the language's vocabulary);
  3. random token sequences over the vocabulary;
  4. truncations;
  5. every ACCEPTED input of streams 0-4 (0 = the unmutated bases) x {c, c -O, go, go -O, py}.
Bases: multi-file programs of tools/gen.py and tools/front.py (shadowing, options, constants,
imports) and /repo's own .bitproto files (tests, examples), each kept together with its sibling files
so imports resolve.  Stress inputs (deep nesting, long expression chains, very long tokens) are added
to every run.  Each input is parsed (and rendered) by the REAL compiler in a pool of worker
processes under an interval timer (hang detector); a sample also goes through the real CLI in a
subprocess (exit status in {0, 1}, no traceback on stderr).

Outcome classes: ok | parser-error (bitproto.errors.ParserError) | os-error (OSError) |
renderer-error (bitproto.errors.RendererError) | INTERNAL (anything else) | HANG.

Model ties (native driver): the string-literal rule of the lexer (`lex.string`) on random literal
texts; the constant-expression evaluator (`front.eval`) on random token soup.
"""
from __future__ import annotations

import multiprocessing as mp
import os
import random
import re
import shutil
import signal
import subprocess
import tempfile
import time
from typing import Any, Dict, List, Optional, Tuple

from . import common
from . import front as F
from . import gen as G
from . import real as R

TIMEOUT_S = 20.0
ALPHABET = list("abcxyzABCXYZ_0123456789 \t\n\n{}[]()=;:,.'\"\\/+-*<>#@$%&!?|^~`") + ["\r", "\x00", "\x7f", "é", "漢", " "]
VOCAB = ["proto", "import", "option", "type", "const", "enum", "message", "bool", "byte", "uint8", "uint1", "uint64", "uint65", "uint0", "int8",
         "int24", "int0", "int65", "true", "false", "yes", "no", "{", "}", "[", "]", "(", ")", "=", ";", ":", ",", ".", "'", "+", "-", "*", "/",
         "0", "1", "7", "255", "256", "65536", "0x10", "0x", "0xG", "08", "1e5", "1.5", "-1", '"s"', '"a b"', '"\\n"', '"\\q"', '"unterminated',
         "A", "B", "Msg", "En", "x", "y", "a.b", "A.B.C", "_", "__x", "max_bytes", "c.name_prefix", "py.module_name", "// c", "//", "/*", "\n", "\n",
         "uint8[3]", "byte[0]", "uint3[65536]", "Msg[2]'", "message'", "\\", "$", "é"]


WORK_ROOT: List[Optional[str]] = [None]  # set by check() before the pool forks


class Hang(Exception):
    pass


def _alarm(signum, frame):  # pragma: no cover - only on a hang
    raise Hang()


# ------------------------------------------------------------------------------- worker (real code)
def classify_exc(e: BaseException) -> Tuple[str, str, str]:
    from bitproto.errors import ParserError, RendererError

    if isinstance(e, Hang):
        return ("HANG", "timeout", "")
    if isinstance(e, ParserError):
        return ("parser-error", type(e).__name__, "")
    if isinstance(e, RendererError):
        return ("renderer-error", type(e).__name__, "")
    if isinstance(e, OSError):
        return ("os-error", type(e).__name__, "")
    import traceback

    tb = traceback.extract_tb(e.__traceback__)
    where = f"{os.path.basename(tb[-1].filename)}:{tb[-1].name}" if tb else ""
    return ("INTERNAL", type(e).__name__, f"{where}: {str(e)[:160]}")


def has_empty_enum(proto) -> bool:
    from bitproto import _ast as A

    todo = [proto]
    while todo:  # iterative: the nesting depth of an input is not bounded by the recursion limit
        scope = todo.pop()
        for _, m in scope.members.items():
            if isinstance(m, A.Enum) and not list(m.fields()):
                return True
            if isinstance(m, (A.Message, A.Proto)):
                todo.append(m)
    return False


def nesting_depth(proto) -> int:
    from bitproto import _ast as A

    best, todo = 0, [(proto, 0)]
    while todo:
        scope, d = todo.pop()
        best = max(best, d)
        for _, m in scope.members.items():
            if isinstance(m, A.Message):
                todo.append((m, d + 1))
    return best


def work(job: Tuple[int, Dict[str, bytes], str, bool]) -> Dict[str, Any]:
    """parse (and render) one input in a scratch directory; never raises"""
    jid, files, main, render = job
    from bitproto.renderer.impls import renderer_registry

    d = tempfile.mkdtemp(prefix="bpv-c09w-", dir=WORK_ROOT[0])  # inside the run's scratch directory: removed with it even if this worker is killed
    out: Dict[str, Any] = {"id": jid, "render": {}}
    t0 = time.time()
    signal.signal(signal.SIGALRM, _alarm)
    try:
        for name, data in files.items():
            p = os.path.join(d, name)
            os.makedirs(os.path.dirname(p), exist_ok=True)
            with open(p, "wb") as f:
                f.write(data)
        signal.setitimer(signal.ITIMER_REAL, TIMEOUT_S)
        try:
            proto = R.parse_file(os.path.join(d, main))
            out["parse"] = ("ok", "", "")
        except BaseException as e:  # noqa: BLE001 - the point is to see everything that escapes
            out["parse"] = classify_exc(e)
            proto = None
        finally:
            signal.setitimer(signal.ITIMER_REAL, 0)
        out["t_parse"] = time.time() - t0
        if proto is not None and render:
            # the linter is part of every compilation unless -q is given: it must not fail either
            signal.setitimer(signal.ITIMER_REAL, TIMEOUT_S)
            try:
                import contextlib
                import io

                from bitproto.linter import lint

                with contextlib.redirect_stderr(io.StringIO()):
                    lint(proto)
                out["render"]["lint"] = ("ok", "", "")
            except BaseException as e:  # noqa: BLE001
                out["render"]["lint"] = classify_exc(e)
            finally:
                signal.setitimer(signal.ITIMER_REAL, 0)
            out["empty_enum"] = has_empty_enum(proto)
            out["depth"] = nesting_depth(proto)
            for lang, opt in (("c", False), ("go", False), ("py", False), ("c", True), ("go", True)):
                signal.setitimer(signal.ITIMER_REAL, TIMEOUT_S)
                try:
                    p2 = proto
                    if opt:
                        try:
                            p2 = R.parse_file(os.path.join(d, main), traditional=True)
                        except BaseException as e:  # extensible grammar: refusal is the documented answer
                            c = classify_exc(e)
                            out["render"][f"{lang}-O"] = c if c[0] in ("INTERNAL", "HANG") else ("refused", c[1], "")
                            continue
                    for cls in renderer_registry[lang]:
                        cls(p2, outdir=d, optimization_mode=opt).render()  # the real thing: render_string() and the write to the output file
                    out["render"][f"{lang}{'-O' if opt else ''}"] = ("ok", "", "")
                except BaseException as e:  # noqa: BLE001
                    out["render"][f"{lang}{'-O' if opt else ''}"] = classify_exc(e)
                finally:
                    signal.setitimer(signal.ITIMER_REAL, 0)
    except BaseException as e:  # noqa: BLE001
        out.setdefault("parse", classify_exc(e))
        out["harness_error"] = f"{type(e).__name__}: {e}"[:200]
    finally:
        signal.setitimer(signal.ITIMER_REAL, 0)
        shutil.rmtree(d, ignore_errors=True)
    out["t"] = time.time() - t0
    return out


# ------------------------------------------------------------------------------- inputs
def repo_bases() -> List[Tuple[Dict[str, bytes], str]]:
    """/repo's own .bitproto files, each with the other files of its directory"""
    out = []
    for root, _, names in os.walk(common.REPO):
        if "/.git" in root or "node_modules" in root:
            continue
        bp = sorted(n for n in names if n.endswith(".bitproto"))
        if not bp:
            continue
        files = {n: open(os.path.join(root, n), "rb").read() for n in bp}
        for n in bp:
            out.append((files, n))
    return out


def generated_bases(rng: random.Random, n: int) -> List[Tuple[Dict[str, bytes], str]]:
    out = []
    for k in range(n):
        if k % 2 == 0:
            main = G.ProgramGen(rng, G.ProgOpts(gen=G.GenOpts(max_depth=2, max_fields=4, max_bits=800, big_prob=0.0))).program()
            texts = G.program_files(main, rng)
            out.append(({fn: t.encode() for fn, t in texts.items()}, f"{main.base()}.bitproto"))
        else:
            files, main = F.FrontGen(rng).program()
            out.append(({f["name"]: F.print_file(f, rng).encode() for f in files}, main))
    return out


TOKEN_RE = re.compile(r'"(?:[^"\\\n]|\\.)*"|//[^\n]*|0x[0-9a-fA-F]+|[A-Za-z_][A-Za-z0-9_]*|[0-9]+|\n|[ \t]+|.', re.S)


def mutate_chars(rng: random.Random, text: str) -> str:
    s = list(text)
    for _ in range(rng.choice([1, 1, 1, 2, 3, 6])):
        if not s:
            s = [rng.choice(ALPHABET)]
            continue
        i = rng.randrange(len(s))
        op = rng.random()
        if op < 0.25:
            del s[i:i + rng.choice([1, 1, 2, 5, 20])]
        elif op < 0.55:
            s[i:i] = [rng.choice(ALPHABET) for _ in range(rng.choice([1, 1, 2, 4]))]
        elif op < 0.8:
            s[i] = rng.choice(ALPHABET)
        elif op < 0.9:
            j = min(len(s), i + rng.randint(1, 30))
            s[i:i] = s[i:j]
        else:
            j = rng.randrange(len(s))
            s[i], s[j] = s[j], s[i]
    return "".join(s)


def mutate_tokens(rng: random.Random, text: str) -> str:
    toks = TOKEN_RE.findall(text)
    for _ in range(rng.choice([1, 1, 2, 3])):
        if not toks:
            toks = [rng.choice(VOCAB)]
            continue
        i = rng.randrange(len(toks))
        op = rng.random()
        if op < 0.25:
            del toks[i]
        elif op < 0.45:
            toks[i:i] = [toks[i], " "]
        elif op < 0.6:
            j = rng.randrange(len(toks))
            toks[i], toks[j] = toks[j], toks[i]
        elif op < 0.85:
            toks[i] = rng.choice(VOCAB)
        else:
            toks[i:i] = [rng.choice(VOCAB), " "]
    return "".join(toks)


def random_tokens(rng: random.Random) -> str:
    head = "proto p\n" if rng.random() < 0.6 else ""
    return head + " ".join(rng.choice(VOCAB) for _ in range(rng.randint(1, 60)))


def stress_inputs() -> List[Tuple[str, Dict[str, bytes], str]]:
    out = []

    def add(tag: str, text: str) -> None:
        out.append((tag, {"s.bitproto": text.encode("utf-8", "surrogatepass")}, "s.bitproto"))

    for depth in (50, 400, 1200):
        add(f"nested-messages-{depth}", "proto s\n" + "".join(f"message M{i} {{\n" for i in range(depth)) + "uint3 x = 1\n" + "}\n" * depth)
    for depth in (100, 3000):
        add(f"parentheses-{depth}", "proto s\nconst A = " + "(" * depth + "1" + ")" * depth + "\n")
    add("expression-chain-20000", "proto s\nconst A = " + " + ".join(["1"] * 20000) + "\n")
    add("identifier-100000", "proto s\nmessage " + "A" * 100000 + " { }\n")
    add("string-1MB", 'proto s\nconst S = "' + "a" * 1000000 + '"\n')
    add("backslashes-100000", 'proto s\nconst S = "' + "\\\\" * 100000 + '"\n')
    add("odd-backslashes", 'proto s\nconst S = "' + "\\" * 99999 + '"\n')
    add("comment-1MB", "proto s\n//" + "x" * 1000000 + "\nmessage M { }\n")
    add("decimal-5000-digits", "proto s\nconst A = " + "1" * 5000 + "\n")
    add("uint-suffix-5000-digits", "proto s\nmessage M { uint" + "1" * 5000 + " x = 1 }\n")
    add("array-cap-5000-digits", "proto s\nmessage M { uint8[" + "9" * 5000 + "] x = 1 }\n")
    add("field-number-5000-digits", "proto s\nmessage M { uint8 x = " + "9" * 5000 + " }\n")
    add("many-fields", "proto s\nmessage M {\n" + "".join(f"bool f{i} = {i % 255 + 1}\n" for i in range(3000)) + "}\n")
    add("many-definitions", "proto s\n" + "".join(f"message M{i} {{ }}\n" for i in range(3000)))
    add("alias-chain-600", "proto s\ntype T0 = uint3\n" + "".join(f"type T{i + 1} = T{i}\n" for i in range(600)) + "message M { T600 x = 1 }\n")
    add("empty-file", "")
    add("only-nul", "\x00" * 10)
    add("bom", "﻿proto s\n")
    add("lone-surrogate", "proto s\nconst S = \"\udc80\"\n")
    add("crlf", "proto s\r\nmessage M {\r\n  uint3 x = 1\r\n}\r\n")
    add("self-import", 'proto s\nimport "s.bitproto"\n')
    add("import-directory", 'proto s\nimport "."\n')
    add("import-missing", 'proto s\nimport "nope.bitproto"\n')
    add("import-dev-null", 'proto s\nimport "/dev/null"\n')
    # arithmetic on huge constants (a quotient beyond the range of a float must not go through one)
    add("huge-quotient-decimal", "proto s\nconst A = " + "9" * 400 + " / 3\n")
    add("huge-quotient-hex", "proto s\nconst A = 0x" + "f" * 300 + " / 2\n")
    add("huge-product-quotient", "proto s\nconst B = " + "7" * 200 + "\nconst A = B * B / 5\n")
    add("huge-minus", "proto s\nconst A = 1 - " + "9" * 400 + "\n")
    # a message that refers to itself / to a message that is still open
    add("self-reference", "proto s\nmessage Node {\n    uint8 value = 1\n    Node next = 2\n}\n")
    add("self-reference-array", "proto s\nmessage Tree {\n    Tree[2] children = 1\n}\n")
    add("reference-to-open-outer", "proto s\nmessage A {\n    message B {\n        A back = 1\n    }\n    B b = 1\n}\n")
    add("dotted-reference-into-open", "proto s\nmessage A {\n    message B {\n        A.B again = 1\n    }\n}\n")
    add("enum-self-reference", "proto s\nmessage M {\n    enum E : uint3 {\n        E_A = 0\n    }\n    E e = 1\n    M.E f = 2\n}\n")
    # characters Python calls white space but the lexer does not ignore, as the LAST thing in the file
    for name, ch in (("form-feed", "\x0c"), ("vertical-tab", "\x0b"), ("file-separator", "\x1c"), ("unit-separator", "\x1f"),
                     ("nbsp", "\u00a0"), ("line-separator", "\u2028"), ("nel", "\x85")):
        add(f"trailing-{name}", "proto s\nmessage M { }\n" + ch)
        add(f"trailing-{name}-then-blanks", "proto s\nmessage M { }\n" + ch + "  \n\n")
    add("import-nul-path", 'proto s\nimport "l\x00b.bitproto"\n')
    add("import-very-long-path", 'proto s\nimport "' + "a" * 5000 + '.bitproto"\n')
    out.append(("latin1-bytes", {"s.bitproto": b"proto s\nconst S = \"\xe9\xff\"\n"}, "s.bitproto"))
    out.append(("mutual-import", {"s.bitproto": b'proto s\nimport "t.bitproto"\n', "t.bitproto": b'proto t\nimport "s.bitproto"\n'}, "s.bitproto"))
    return out


# ------------------------------------------------------------------------------- known findings
KF_EMPTY_ENUM = "an enum without members is accepted, but the Python renderer raises IndexError when it is used as a field " \
                "(formatter.format_default_value_enum indexes fields()[0]) [KF-empty-enum]"
KF_INT_RENDER = "an integer constant of more than 4300 decimal digits (hex literal or product) is accepted, but every renderer " \
                "raises ValueError when it formats the value (CPython int->str limit) [KF-int-digits-render]"


KF_DEEP = "messages nested deeper than about 490 levels are accepted, but every renderer raises RecursionError (recursive size / name " \
          "computations against CPython's default recursion limit) [KF-deep-nesting]"


def witnesses(run: common.Run) -> Dict[str, bool]:
    conf = {}
    deep = "proto w\n" + "".join(f"message M{i} {{\n" for i in range(600)) + "uint3 x = 1\n" + "}\n" * 600
    r = work((0, {"w.bitproto": deep.encode()}, "w.bitproto", True))
    conf["KF-deep-nesting"] = r["parse"][0] == "ok" and r["render"].get("c", ("",))[:2] == ("INTERNAL", "RecursionError")
    if conf["KF-deep-nesting"]:
        run.known_finding(KF_DEEP)
    r = work((0, {"w.bitproto": b"proto w\nenum E : uint3 {}\nmessage M { E e = 1 }\n"}, "w.bitproto", True))
    conf["KF-empty-enum"] = r["parse"][0] == "ok" and r["render"].get("py", ("",))[:2] == ("INTERNAL", "IndexError")
    if conf["KF-empty-enum"]:
        run.known_finding(KF_EMPTY_ENUM)
    r = work((0, {"w.bitproto": ("proto w\nconst A = 0x" + "f" * 6000 + "\n").encode()}, "w.bitproto", True))
    conf["KF-int-digits-render"] = r["parse"][0] == "ok" and r["render"].get("py", ("",))[:2] == ("INTERNAL", "ValueError")
    if conf["KF-int-digits-render"]:
        run.known_finding(KF_INT_RENDER)
    run.notes["known_finding_witnesses"] = conf
    return conf


def is_known(res: Dict[str, Any], lang: str, c: Tuple[str, str, str], conf: Dict[str, bool]) -> Optional[str]:
    if conf.get("KF-empty-enum") and c[1] == "IndexError" and lang == "py" and res.get("empty_enum") and "format_default_value_enum" in c[2]:
        return "KF-empty-enum"
    if conf.get("KF-int-digits-render") and c[1] == "ValueError" and "Exceeds the limit" in c[2]:
        return "KF-int-digits-render"
    if conf.get("KF-deep-nesting") and c[1] == "RecursionError" and res.get("depth", 0) >= 200:
        return "KF-deep-nesting"
    return None


# ------------------------------------------------------------------------------- model ties
def tie_lex_string(run: common.Run, drv: common.Driver, rng: random.Random, n: int) -> None:
    from bitproto.errors import InvalidEscapingChar, LexerError
    from bitproto.lexer import Lexer

    alpha = list('ab "\\\\ntrq\'\n\t') + ["\\\"", "\\n", "\\\\", "é", "x"]
    texts = ['"', 'a"', '\\""', '\\"', "\\", 'a\\', 'a\\"', 'a\\\\"', "\n\"", 'a\\\nb"', "", 'a\\qb"', "a\\'b\" tail", 'ab" "cd"']
    for _ in range(n):
        texts.append("".join(rng.choice(alpha) for _ in range(rng.randint(0, 12))) + rng.choice(['"', '" x', "", '"']))
    reqs, reals = [], []
    for t in texts:
        lx = Lexer()
        lx.input('"' + t)
        try:
            tok = lx.token()
            if tok is not None and tok.type == "STRING_LITERAL":
                real = {"ok": tok.value, "rest": ('"' + t)[lx.lexer.lexpos:]}
            else:
                real = {"unexpected": str(tok)}
        except InvalidEscapingChar:
            real = {"exc": "InvalidEscapingChar"}
        except LexerError:
            real = {"none": True}
        except BaseException as e:  # noqa: BLE001
            real = {"exc": type(e).__name__}
            run.violation({"kind": "impl-vs-spec", "input": {"text": '"' + t}, "observed_impl": f"{type(e).__name__} escapes the lexer",
                           "expected_by_spec": "a string token or a lexer error"})
        reqs.append({"op": "lex.string", "text": t})
        reals.append(real)
    for q, real, ans in zip(reqs, reals, drv.batch(reqs)):
        run.count("tie_lex_string")
        run.nontrivial(("lexstr", q["text"]))
        if ans != real:
            run.notes.setdefault("model_disagreements", []).append({"what": "Lexer.lexString vs t_STRING_LITERAL", "text": q["text"],
                                                                    "observed_impl": real, "model_answer": ans})


EXPR_VOCAB = ["0", "1", "2", "7", "10", "0x10", "0xff", "08", "0x", "+", "-", "*", "/", "(", ")", " ", " ", "K", "Q", "K.Z", "$", "1.5", "%"]


def tie_expr(run: common.Run, drv: common.Driver, rng: random.Random, n: int) -> None:
    """token soup as a constant expression: value / syntax error / division by zero / unbound name"""
    from bitproto.errors import CalculationExpressionError, GrammarError, LexerError, ParserError, ReferencedConstantNotDefined

    texts = []
    for _ in range(n):
        texts.append("".join(rng.choice(EXPR_VOCAB) for _ in range(rng.randint(1, 9))))
    reqs, reals = [], []
    with R.Scratch() as sc:
        for k, t in enumerate(texts):
            if not t.strip() or "\n" in t:
                continue
            path = sc.write(f"e{k}.bitproto", f"proto e{k}\nconst K = 6\nconst A = {t}\n")
            try:
                proto = R.parse_file(path)
                v = proto.members["A"].value
                real = ("ok", v) if isinstance(v, int) and not isinstance(v, bool) else ("other", repr(v))
            except CalculationExpressionError:
                real = ("div0", None)
            except ReferencedConstantNotDefined:
                real = ("unbound", None)
            except (LexerError, GrammarError):
                real = ("syntax", None)
            except ParserError as e:
                real = ("parser-error:" + type(e).__name__, None)
            except BaseException as e:  # noqa: BLE001
                real = ("INTERNAL:" + type(e).__name__, None)
                run.violation({"kind": "impl-vs-spec", "input": {"text": f"const A = {t}"}, "observed_impl": f"{type(e).__name__}: {e}",
                               "expected_by_spec": "a value or a parser error"})
            # at the text level `//` starts a comment that runs to the end of the line; the expression model is of
            # the expression sub-language, so it is asked about what precedes the comment
            reqs.append({"op": "front.eval", "text": t.split("//")[0], "env": [["K", 6]]})
            reals.append(real)
    for q, real, ans in zip(reqs, reals, drv.batch(reqs)):
        run.count("tie_expr:" + real[0])
        if "ok" in ans:
            model = ("ok", ans["ok"])
        else:
            e = ans.get("exc", "")
            model = ("syntax", None) if e in ("lex", "parse") else ("div0", None) if e == "div0" else ("unbound", None) if e.startswith("unbound") else (e, None)
        # the real parser runs its actions while it reduces, so an unbound name or a zero divisor seen BEFORE a later
        # syntax error wins there, while the model reports the syntax error: both reject.  Values must agree exactly,
        # and a value on one side with a rejection on the other is a disagreement.
        both_reject = model[0] != "ok" and real[0] in ("syntax", "div0", "unbound")
        if model != real and not both_reject:
            run.notes.setdefault("model_disagreements", []).append({"what": "Expr.evalText vs parser on token soup", "text": q["text"],
                                                                    "observed_impl": real, "model_answer": ans})


# ------------------------------------------------------------------------------- main
def check(run: common.Run, drv: common.Driver, rng: random.Random, tier: str) -> None:
    n_mut = {"quick": 2200, "thorough": 60000}[tier]
    n_gen = {"quick": 24, "thorough": 300}[tier]
    cli_budget = {"quick": 25, "thorough": 300}[tier]
    tie_lex_string(run, drv, rng, 400 if tier == "quick" else 20000)
    tie_expr(run, drv, rng, 150 if tier == "quick" else 4000)
    conf = witnesses(run)

    bases = repo_bases() + generated_bases(rng, n_gen)
    run.notes["bases"] = len(bases)
    jobs: List[Tuple[int, Dict[str, bytes], str, bool]] = []
    meta: Dict[int, Tuple[str, str]] = {}

    def add(stream: str, tag: str, files: Dict[str, bytes], main: str) -> None:
        jid = len(jobs)
        jobs.append((jid, files, main, True))
        meta[jid] = (stream, tag)

    for (files, main) in bases:
        add("0-base", main, files, main)
    for (tag, files, main) in stress_inputs():
        add("stress", tag, files, main)
    for k in range(n_mut):
        files, main = bases[rng.randrange(len(bases))]
        text = files[main].decode("utf-8", "replace")
        c = rng.random()
        if c < 0.4:
            stream, new = "1-chars", mutate_chars(rng, text)
        elif c < 0.7:
            stream, new = "2-tokens", mutate_tokens(rng, text)
        elif c < 0.85:
            stream, new = "3-random-tokens", random_tokens(rng)
        else:
            stream, new = "4-truncation", text[: rng.randrange(len(text) + 1)]
        target = main
        if files and len(files) > 1 and rng.random() < 0.15 and stream != "3-random-tokens":
            # damage an IMPORTED file instead of the main one
            others = [n for n in files if n != main]
            target = rng.choice(others)
            t2 = files[target].decode("utf-8", "replace")
            new = mutate_chars(rng, t2) if stream == "1-chars" else mutate_tokens(rng, t2) if stream == "2-tokens" else t2[: rng.randrange(len(t2) + 1)]
        add(stream, main, {**files, target: new.encode("utf-8", "surrogatepass")}, main)

    ctx = mp.get_context("fork")
    slow: List[Tuple[float, str]] = []
    work_scratch = R.Scratch(prefix="bpv-c09-")
    WORK_ROOT[0] = work_scratch.dir
    try:
        _explore(run, rng, jobs, meta, conf, ctx, slow)
    finally:
        work_scratch.close()
    run.notes["slowest_inputs"] = sorted(slow, reverse=True)[:10]
    _cli_sample(run, rng, jobs, conf, cli_budget)


def _explore(run, rng, jobs, meta, conf, ctx, slow) -> None:
    with ctx.Pool(min(14, os.cpu_count() or 4)) as pool:
        for res in pool.imap_unordered(work, jobs, chunksize=8):
            jid = res["id"]
            stream, tag = meta[jid]
            run.evaluated()
            p = res["parse"]
            if "harness_error" in res and p[0] == "ok":
                raise RuntimeError(f"harness error on input {jid} ({stream}:{tag}): {res['harness_error']}")
            run.count(f"{stream}:{p[0]}")
            if p[0] == "parser-error":
                run.count("error-kind:" + p[1])
            run.nontrivial((stream, p[0], p[1], tuple(sorted((k, v[0]) for k, v in res["render"].items()))))
            if res["t"] > 3.0:
                slow.append((round(res["t"], 2), f"{stream}:{tag}"))
            rep = {"input": {"files": {n: d.decode("utf-8", "backslashreplace") for n, d in jobs[jid][1].items()}, "main": jobs[jid][2]}, "stream": stream}
            if p[0] in ("INTERNAL", "HANG"):
                run.violation(dict(rep, kind="impl-vs-spec", observed_impl={"stage": "parse", "class": p[0], "exception": p[1], "detail": p[2]},
                                   expected_by_spec="a schema, a bitproto parser error, or an OS error for an unreadable import"))
                continue
            for lang, c in res["render"].items():
                run.count(f"render:{lang}:{c[0]}")
                if c[0] in ("INTERNAL", "HANG"):
                    kf = is_known(res, lang, c, conf)
                    if kf:
                        run.count("suppressed:" + kf)
                        continue
                    run.violation(dict(rep, kind="impl-vs-spec", observed_impl={"stage": f"render {lang}", "class": c[0], "exception": c[1], "detail": c[2]},
                                       expected_by_spec="generated code or a renderer error; never an internal exception"))


def _cli_sample(run, rng, jobs, conf, cli_budget) -> None:
    # the real CLI in a subprocess: exit status 0 / 1, a diagnostic and no traceback
    with R.Scratch() as sc:
        order = list(range(len(jobs)))
        rng.shuffle(order)
        for jid in order[:cli_budget]:
            files, main = jobs[jid][1], jobs[jid][2]
            if sum(len(v) for v in files.values()) > 200000:
                continue
            d = sc.path(f"cli{jid}")
            for n, data in files.items():
                p = os.path.join(d, n)
                os.makedirs(os.path.dirname(p), exist_ok=True)
                open(p, "wb").write(data)
            os.makedirs(os.path.join(d, "out"), exist_ok=True)
            lang = rng.choice(["c", "go", "py"])
            try:
                pr = subprocess.run([common.PY, "-m", "bitproto._main", lang, main, "out"], cwd=d, capture_output=True, text=True, errors="replace", timeout=120,
                                    env={**os.environ, "PYTHONPATH": f"{common.REPO}/compiler:{common.REPO}/lib/py", "PYTHONDONTWRITEBYTECODE": "1"})
                rc, err = pr.returncode, pr.stderr
            except subprocess.TimeoutExpired:
                rc, err = "HANG", ""
            run.count(f"cli:exit={rc}")
            if rc not in (0, 1) or "Traceback" in err:
                depth = cur = 0
                for ch in files.get(main, b"").decode("utf-8", "replace"):
                    cur += ch == "{"
                    cur -= ch == "}"
                    depth = max(depth, cur)
                kf = "KF-int-digits-render" if "Exceeds the limit" in err and conf.get("KF-int-digits-render") else \
                     "KF-empty-enum" if "format_default_value_enum" in err and conf.get("KF-empty-enum") else \
                     "KF-deep-nesting" if "RecursionError" in err and conf.get("KF-deep-nesting") and depth >= 200 else None
                if kf:
                    run.count("suppressed:" + kf)
                    continue
                run.violation({"kind": "impl-vs-spec", "input": {"files": {n: v.decode("utf-8", "backslashreplace") for n, v in files.items()}, "main": main,
                                                                   "argv": [lang, main, "out"]},
                               "observed_impl": {"exit": rc, "stderr": err[-600:]}, "expected_by_spec": "exit status 0 or 1 with a diagnostic; no traceback"})
