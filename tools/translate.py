"""Translator tie (T): regenerate `lean/BpModel/Gen/*.lean` from /repo's working tree.

Small pure integer functions of the Python sources are walked with `ast` and re-emitted as Lean
definitions over `Int` using `Bp.PyOp.*` (Python's operator semantics, Model/PyOp.lean).  The
bridge lemmas in `Proofs/Bridge*.lean` are then re-checked against what the code says *now*.
A file is rewritten only when its content changes, so an unchanged tree is a Lake no-op.
A function that has left the translatable subset is emitted as a marker definition that makes
the bridge fail to build (so the obligation is reported as no longer discharged).
"""
from __future__ import annotations

import ast
import os
import re
from typing import Any, Dict, List, Optional, Tuple

from . import common

GEN_DIR = os.path.join(common.LEAN_DIR, "BpModel", "Gen")

BIN = {
    ast.Add: "PyOp.add", ast.Sub: "PyOp.sub", ast.Mult: "PyOp.mul", ast.FloorDiv: "PyOp.fdiv",
    ast.Mod: "PyOp.mod", ast.LShift: "PyOp.shl", ast.RShift: "PyOp.shr", ast.BitAnd: "PyOp.and",
    ast.BitOr: "PyOp.or",
}
CMP = {ast.Lt: "<", ast.LtE: "≤", ast.Gt: ">", ast.GtE: "≥", ast.Eq: "=", ast.NotEq: "≠"}


class Untranslatable(Exception):
    pass


class PyToLean:
    def __init__(self, consts: Optional[Dict[str, int]] = None) -> None:
        self.consts = consts or {}

    def expr(self, e: ast.AST) -> str:
        if isinstance(e, ast.Constant) and isinstance(e.value, int) and not isinstance(e.value, bool):
            return f"({e.value} : Int)"
        if isinstance(e, ast.Name):
            return e.id
        if isinstance(e, ast.BinOp) and type(e.op) in BIN:
            return f"({BIN[type(e.op)]} {self.expr(e.left)} {self.expr(e.right)})"
        if isinstance(e, ast.UnaryOp) and isinstance(e.op, ast.USub):
            return f"(PyOp.sub (0 : Int) {self.expr(e.operand)})"
        if isinstance(e, ast.UnaryOp) and isinstance(e.op, ast.Invert):
            return f"(PyOp.inv {self.expr(e.operand)})"
        if isinstance(e, ast.Compare) and len(e.ops) == 1 and type(e.ops[0]) in CMP:
            return f"({self.expr(e.left)} {CMP[type(e.ops[0])]} {self.expr(e.comparators[0])})"
        if isinstance(e, ast.BoolOp):
            op = " ∧ " if isinstance(e.op, ast.And) else " ∨ "
            return "(" + op.join(self.expr(v) for v in e.values) + ")"
        if isinstance(e, ast.Call) and isinstance(e.func, ast.Name) and e.func.id == "min" and len(e.args) >= 2:
            args = [self.expr(a) for a in e.args]
            out = args[0]
            for a in args[1:]:
                out = f"(min {out} {a})"
            return out
        if isinstance(e, ast.Call) and isinstance(e.func, ast.Name) and e.func.id == "int" and len(e.args) == 1:
            a = e.args[0]
            # int(x / k): the float-division idiom; exact for 0 <= x < 2^53, translated as floor division
            if isinstance(a, ast.BinOp) and isinstance(a.op, ast.Div):
                return f"(PyOp.fdiv {self.expr(a.left)} {self.expr(a.right)})"
            return self.expr(a)
        if isinstance(e, ast.IfExp):
            return f"(if {self.expr(e.test)} then {self.expr(e.body)} else {self.expr(e.orelse)})"
        raise Untranslatable(ast.dump(e)[:120])

    def body(self, stmts: List[ast.stmt]) -> str:
        stmts = [s for s in stmts if not (isinstance(s, ast.Expr) and isinstance(s.value, ast.Constant))]
        if not stmts:
            raise Untranslatable("empty body")
        s = stmts[0]
        if isinstance(s, ast.Return) and s.value is not None:
            return self.expr(s.value)
        if isinstance(s, ast.If):
            rest = stmts[1:]
            return f"if {self.expr(s.test)} then {self.body(s.body + rest)} else {self.body(s.orelse + rest)}"
        if isinstance(s, (ast.Assign, ast.AnnAssign)):
            tgt = s.targets[0] if isinstance(s, ast.Assign) else s.target
            if isinstance(tgt, ast.Name) and s.value is not None:
                return f"let {tgt.id} := {self.expr(s.value)}\n  {self.body(stmts[1:])}"
        raise Untranslatable(ast.dump(s)[:120])

    def function(self, node: ast.FunctionDef, origin: str, name: Optional[str] = None) -> str:
        params = " ".join(f"({a.arg} : Int)" for a in node.args.args if a.arg != "self")
        nm = name or node.name
        try:
            b = self.body(node.body)
            return f"-- from {origin}:{node.lineno}\ndef {nm} {params} : Int :=\n  {b}\n"
        except Untranslatable as ex:
            return (f"-- from {origin}:{node.lineno}\n-- UNTRANSLATABLE: {ex}\n"
                    f"def {nm}_UNTRANSLATABLE : Int := 0\n")


def find_functions(tree: ast.AST) -> Dict[str, ast.FunctionDef]:
    out: Dict[str, ast.FunctionDef] = {}
    for node in ast.walk(tree):
        if isinstance(node, ast.FunctionDef):
            out.setdefault(node.name, node)
    return out


def module_int_constants(tree: ast.Module) -> Dict[str, int]:
    out: Dict[str, int] = {}
    for node in tree.body:
        tgt = None
        val = None
        if isinstance(node, ast.AnnAssign) and isinstance(node.target, ast.Name):
            tgt, val = node.target.id, node.value
        elif isinstance(node, ast.Assign) and len(node.targets) == 1 and isinstance(node.targets[0], ast.Name):
            tgt, val = node.targets[0].id, node.value
        if tgt and isinstance(val, ast.Constant) and isinstance(val.value, int) and not isinstance(val.value, bool):
            out[tgt] = val.value
    return out


def write_if_changed(path: str, text: str) -> bool:
    os.makedirs(os.path.dirname(path), exist_ok=True)
    if os.path.exists(path) and open(path).read() == text:
        return False
    with open(path, "w") as f:
        f.write(text)
    return True


HEADER = "-- GENERATED by tools/translate.py from /repo's working tree on every run. DO NOT EDIT.\n"


def gen_py_helpers() -> Tuple[str, Dict[str, Any]]:
    rel = "lib/py/bitprotolib/bp.py"
    src = open(os.path.join(common.REPO, rel)).read()
    tree = ast.parse(src)
    fns = find_functions(tree)
    consts = module_int_constants(tree)
    tr = PyToLean()
    want = ["int8", "int16", "int32", "int64", "smart_shift", "get_mask", "get_nbits_to_copy"]
    out = [HEADER, "import BpModel.Model.PyOp\nnamespace Bp.Gen.PyHelpers\nopen Bp\n"]
    info: Dict[str, Any] = {"functions": {}, "missing": []}
    for name in want:
        if name not in fns:
            out.append(f"-- MISSING in {rel}: {name}\ndef {name}_MISSING : Int := 0\n")
            info["missing"].append(name)
            continue
        text = tr.function(fns[name], rel)
        info["functions"][name] = "UNTRANSLATABLE" not in text
        out.append(text)
    for cname in ["FLAG_BOOL", "FLAG_INT", "FLAG_UINT", "FLAG_BYTE", "FLAG_ENUM", "FLAG_ALIAS", "FLAG_ARRAY",
                  "FLAG_MESSAGE", "FLAG_MESSAGE_FIELD"]:
        if cname in consts:
            out.append(f"def {cname} : Int := {consts[cname]}")
    out.append("\nend Bp.Gen.PyHelpers\n")
    return "\n".join(out), info


def regenerate() -> Dict[str, Any]:
    info: Dict[str, Any] = {}
    text, i = gen_py_helpers()
    info["PyHelpers"] = i
    info["PyHelpers"]["changed"] = write_if_changed(os.path.join(GEN_DIR, "PyHelpers.lean"), text)
    try:
        from . import translate_more

        info.update(translate_more.regenerate())
    except ImportError:
        pass
    return info


if __name__ == "__main__":
    import json

    print(json.dumps(regenerate(), indent=1))
