"""An interpreter for the statement subset the Go optimization-mode generator emits.

There is no Go toolchain in this sandbox, so generated Go can never be run.  The `-O` encoders and
decoders, however, are straight-line code over a tiny expression language (byte-slice elements,
field paths, integer conversions `T(x)`, `<< >> & |`, compound assignments, `bool2byte` /
`byte2bool`).  This module evaluates exactly that subset with Go's semantics — typed fixed-width
integers that wrap, arithmetic `>>` on signed operands, shifts typed by their LEFT operand, Go's
operator precedence (`<< >> &` bind tighter than `| + -`) — so that a failing input can be exhibited
for the Go output as well.  Anything outside the subset raises `Unsupported` (counted, never a
verdict).  The interpreter is part of the trusted harness, not of the proof.
"""
from __future__ import annotations

import re
from typing import Any, Dict, List, Optional, Tuple

from . import gen as G


class Unsupported(Exception):
    pass


Ty = Optional[Tuple[int, bool]]  # (bits, signed); None = untyped constant


def wrap(v: int, ty: Ty) -> int:
    if ty is None:
        return v
    bits, signed = ty
    v &= (1 << bits) - 1
    if signed and v >> (bits - 1):
        v -= 1 << bits
    return v


BASIC = {"byte": (8, False), "uint8": (8, False), "uint16": (16, False), "uint32": (32, False), "uint64": (64, False),
         "int8": (8, True), "int16": (16, True), "int32": (32, True), "int64": (64, True), "uint": (64, False), "int": (64, True)}


def storage(n: int) -> int:
    return 8 if n <= 8 else 16 if n <= 16 else 32 if n <= 32 else 64


def leaf_ty(t: Any) -> Tuple[str, Ty]:
    """(kind, go type) of a leaf of the type tree"""
    if isinstance(t, G.TBool):
        return "bool", None
    if isinstance(t, G.TByte):
        return "int", (8, False)
    if isinstance(t, G.TUint):
        return "int", (storage(t.n), False)
    if isinstance(t, G.TInt):
        return "int", (storage(t.n), True)
    if isinstance(t, G.TRef) and isinstance(t.d, G.EnumDef):
        return "int", (storage(t.d.nbits), False)
    raise Unsupported(f"leaf {t}")


def go_def_name(d: Any) -> str:
    names = G.scope_names(d)
    if isinstance(d, G.EnumDef):
        return "_".join(names)
    return "".join(names)


def type_table(s: G.Schema) -> Dict[str, Tuple[int, bool]]:
    """conversion names the generated code may use: basic types, enums, aliases of scalars"""
    tt = dict(BASIC)

    def walk(d: Any) -> None:
        if isinstance(d, G.EnumDef):
            tt[go_def_name(d)] = (storage(d.nbits), False)
        elif isinstance(d, G.AliasDef):
            t = d.type
            while isinstance(t, G.TArray):
                t = t.elem
            while isinstance(t, G.TRef) and isinstance(t.d, G.AliasDef):
                t = t.d.type
                while isinstance(t, G.TArray):
                    t = t.elem
            try:
                k, ty = leaf_ty(t)
                tt[go_def_name(d)] = ty if ty is not None else "bool"  # type: ignore[assignment]
            except Unsupported:
                pass
        elif isinstance(d, G.MsgDef):
            for n in d.nested:
                walk(n)

    for d in s.defs:
        walk(d)
    return tt


TOK = re.compile(r"\s*(<<=|>>=|\|=|<<|>>|[-+&|()=\[\].]|\d+|[A-Za-z_]\w*)")
PREC = {"<<": 5, ">>": 5, "&": 5, "|": 4, "+": 4, "-": 4}


def tokenize(s: str) -> List[str]:
    out, i = [], 0
    s = s.strip()
    while i < len(s):
        m = TOK.match(s, i)
        if not m:
            raise Unsupported(f"token at {s[i:i + 12]!r}")
        out.append(m.group(1))
        i = m.end()
    return out


class Machine:
    def __init__(self, types: Dict[str, Tuple[int, bool]], leaves: Dict[str, Tuple[str, Ty]], s: List[int]) -> None:
        self.types, self.leaves, self.s = types, leaves, s
        self.vals: Dict[str, Any] = {p: (False if k == "bool" else 0) for p, (k, _) in leaves.items()}

    # ------------------------------------------------------------ expressions
    def parse_path(self, toks: List[str], i: int) -> Tuple[str, int]:
        path = toks[i]
        i += 1
        while i < len(toks) and toks[i] in (".", "["):
            if toks[i] == ".":
                path += "." + toks[i + 1]
                i += 2
            else:
                if i + 2 >= len(toks) or toks[i + 2] != "]":
                    raise Unsupported("index")
                path += f"[{toks[i + 1]}]"
                i += 3
        return path, i

    def atom(self, toks: List[str], i: int) -> Tuple[Any, Ty, int]:
        if i >= len(toks):
            raise Unsupported("end of expression")
        t = toks[i]
        if t == "(":
            v, ty, i = self.expr(toks, i + 1, 1)
            if i >= len(toks) or toks[i] != ")":
                raise Unsupported("missing )")
            return v, ty, i + 1
        if t.isdigit():
            return int(t), None, i + 1
        if re.match(r"[A-Za-z_]\w*$", t):
            if i + 1 < len(toks) and toks[i + 1] == "(":
                v, ty, j = self.expr(toks, i + 2, 1)
                if j >= len(toks) or toks[j] != ")":
                    raise Unsupported("missing ) after call")
                if t == "bool2byte":
                    return (1 if v else 0), (8, False), j + 1
                if t == "byte2bool":
                    return (v != 0), "bool", j + 1  # type: ignore[return-value]
                if t == "bool" or self.types.get(t) == "bool":  # bool and aliases of bool
                    if not isinstance(v, bool):
                        raise Unsupported("conversion of an integer to bool (does not compile in Go)")
                    return v, "bool", j + 1  # type: ignore[return-value]
                if t in self.types:
                    if isinstance(v, bool):
                        raise Unsupported("conversion of a bool")
                    return wrap(v, self.types[t]), self.types[t], j + 1
                raise Unsupported(f"call of {t}")
            path, j = self.parse_path(toks, i)
            if path.startswith("s["):
                k = int(path[2:-1])
                if not 0 <= k < len(self.s):
                    raise IndexError(f"s[{k}] out of range (len {len(self.s)})")
                return self.s[k], (8, False), j
            if path in self.leaves:
                kind, ty = self.leaves[path]
                return self.vals[path], ("bool" if kind == "bool" else ty), j  # type: ignore[return-value]
            raise Unsupported(f"operand {path}")
        raise Unsupported(f"atom {t}")

    def expr(self, toks: List[str], i: int, p: int) -> Tuple[Any, Ty, int]:
        l, lt, i = self.atom(toks, i)
        while i < len(toks) and toks[i] in PREC and PREC[toks[i]] >= p:
            op = toks[i]
            r, rt, i = self.expr(toks, i + 1, PREC[op] + 1)
            if isinstance(l, bool) or isinstance(r, bool):
                raise Unsupported("arithmetic on a bool")
            if op in ("<<", ">>"):
                if not 0 <= r < 4096:
                    raise Unsupported("shift count")
                ty = lt
                l = wrap(l << r if op == "<<" else l >> r, ty)
            else:
                if lt is not None and rt is not None and lt != rt:
                    raise Unsupported(f"mismatched operand types {lt} {op} {rt} (does not compile in Go)")
                ty = lt if lt is not None else rt
                l = wrap(l & r if op == "&" else l | r if op == "|" else l + r if op == "+" else l - r, ty)
            lt = ty
        return l, lt, i

    # ------------------------------------------------------------ statements
    def run(self, line: str) -> None:
        toks = tokenize(line)
        lhs, i = self.parse_path(toks, 0)
        if i >= len(toks) or toks[i] not in ("=", "|=", "<<=", ">>="):
            raise Unsupported(f"statement {line!r}")
        op = toks[i]
        v, vt, j = self.expr(toks, i + 1, 1)
        if j != len(toks):
            raise Unsupported(f"trailing tokens in {line!r}")
        if lhs.startswith("s["):
            k = int(lhs[2:-1])
            if not 0 <= k < len(self.s):
                raise IndexError(f"s[{k}] out of range (len {len(self.s)})")
            cur, ty = self.s[k], (8, False)
        elif lhs in self.leaves:
            kind, ty0 = self.leaves[lhs]
            cur, ty = self.vals[lhs], ("bool" if kind == "bool" else ty0)  # type: ignore[assignment]
        else:
            raise Unsupported(f"assignment to {lhs}")
        if ty == "bool":
            if op != "=" or not isinstance(v, bool):
                raise Unsupported("bool assignment")
            new: Any = v
        else:
            if isinstance(v, bool):
                raise Unsupported("bool assigned to an integer")
            if op in ("=", "|=") and vt is not None and vt != ty:
                raise Unsupported(f"mismatched types in {line!r}: {vt} into {ty} (does not compile in Go)")
            if op in ("<<=", ">>=") and not 0 <= v < 4096:
                raise Unsupported("shift count")
            res = v if op == "=" else cur | v if op == "|=" else cur << v if op == "<<=" else cur >> v
            new = wrap(res, ty)  # type: ignore[arg-type]
        if lhs.startswith("s["):
            self.s[int(lhs[2:-1])] = new
        else:
            self.vals[lhs] = new


def flat_paths(t: Any, path: str, out: List[Tuple[str, Any]]) -> None:
    from .props_op import go_leaves

    go_leaves(t, path, out)


def set_values(t: Any, v: Any, path: str, out: Dict[str, Any]) -> None:
    from .props_op import go_pascal

    if isinstance(t, G.TArray):
        for k, x in enumerate(v):
            set_values(t.elem, x, f"{path}[{k}]", out)
        return
    if isinstance(t, G.TRef):
        d = t.d
        if isinstance(d, G.AliasDef):
            return set_values(d.type, v, path, out)
        if isinstance(d, G.MsgDef):
            for f in d.fields:
                set_values(f.type, v[f.num], f"{path}.{go_pascal(f.name)}", out)
            return
    out[path] = bool(v) if isinstance(t, G.TBool) else int(v)


def get_values(t: Any, path: str, vals: Dict[str, Any]) -> Any:
    from .props_op import go_pascal

    if isinstance(t, G.TArray):
        return [get_values(t.elem, f"{path}[{k}]", vals) for k in range(t.cap)]
    if isinstance(t, G.TRef):
        d = t.d
        if isinstance(d, G.AliasDef):
            return get_values(d.type, path, vals)
        if isinstance(d, G.MsgDef):
            return {f.num: get_values(f.type, f"{path}.{go_pascal(f.name)}", vals) for f in d.fields}
    x = vals[path]
    return int(x)


def machine_for(s: G.Schema, m: G.MsgDef, nbytes: int) -> Machine:
    lv: List[Tuple[str, Any]] = []
    flat_paths(G.TRef(m), "m", lv)
    return Machine(type_table(s), {p: leaf_ty(t) for p, t in lv}, [0] * nbytes)


def go_encode(s: G.Schema, m: G.MsgDef, lines: List[str], v: Dict[int, Any]) -> bytes:
    mach = machine_for(s, m, (G.msg_nbits(m) + 7) // 8)
    vals: Dict[str, Any] = {}
    set_values(G.TRef(m), v, "m", vals)
    for p, x in vals.items():
        kind, ty = mach.leaves[p]
        mach.vals[p] = x if kind == "bool" else wrap(x, ty)
    for line in lines:
        mach.run(line)
    return bytes(mach.s)


def go_decode(s: G.Schema, m: G.MsgDef, lines: List[str], data: bytes) -> Dict[int, Any]:
    mach = machine_for(s, m, len(data))
    mach.s = list(data)
    for line in lines:
        mach.run(line)
    return get_values(G.TRef(m), "m", mach.vals)
