"""C17 -- `-O` and `-F` restrict what is generated without altering it.

Everything is observed through the real command line (`python -m bitproto._main ...` in a
subprocess of the WORKING TREE): exit status, stderr, and the set/content of the files that
appeared in a fresh directory.  Nothing of the compiler is imported.

What is compared with what
--------------------------
(a) refusal of extensible markers under -O.  A multi-file program WITHOUT any marker is generated
    (tools.gen.ProgramGen, optionally wrapped by one more importing file so that the other files
    are only reachable transitively); exactly ONE marker is then planted on a random site (top-level
    message / nested message / array in a field / array in an alias; in the main file, in a directly
    imported file, or in a file reachable only through another import).  Expected from the abstract
    program alone: `-O` on the marked program exits non-zero with a diagnostic and writes nothing.
    Controls (so that the refusal is attributable to the marker): the same program without the
    marker is accepted by the same argv, and the marked program is accepted without -O.  A second
    family uses ordinary generated programs with many markers.
(b) `py ... -O` is refused (control: same argv without -O succeeds).
(c) `-F names` without -O is refused for c, go and py (control: same argv without -F succeeds),
    on marker-free and on extensible programs.
    Refusal = exit status != 0, at least one stderr line that the control run did not print (lint
    warnings are therefore not mistaken for the diagnostic), no traceback, and no new file anywhere
    below the invocation directory (explicit outdir and default outdir variants).
(d) `-O -F names` versus `-O`.  For c (.h and .c) and go the generated text is split into
    function definitions and the rest by a small scanner written here.  Expected, from the abstract
    schema only: the Encode/Decode functions present are exactly those of the main-file messages
    whose bitproto (simple) name is in `names`, named `Encode<prefix><Outer..Inner>` for C and
    `(m *<Outer..Inner>) Encode` for Go (identifiers compared modulo case and underscores, because the
    generator re-cases them; programs keep their names distinct modulo the same).  Compared between invocations: each kept function's text is
    identical to the one generated without -F at the same --endian; everything outside the
    Encode/Decode functions (structs, typedefs, enums, #defines, consts, Size/String methods, includes)
    is line-for-line the same as without -F (comments / blank lines ignored); the declaration items of
    the header / go file are also the same as in STANDARD mode (no -O), and their counts match the
    abstract schema; header prototypes and .c definitions agree one to one.
    Name subsets: random subsets incl. nested messages, names that are prefixes / suffixes of other
    message names (Frame / FrameHeader, Msg, Baa / MsgBaa ...), names that get re-cased in the output
    (Msg_Baa, MSGBAA), the same simple name in two scopes, near misses (re-cased / language-formatted /
    truncated names), names of enums / aliases / imported messages / unknown names (all of which
    select nothing), duplicates, blanks around commas, an empty item; with and without
    `c.name_prefix`; every --endian value (and its absence) for c, some for go.
"""
from __future__ import annotations

import os
import random
import re
import shutil
import subprocess
from concurrent.futures import ThreadPoolExecutor
from typing import Any, Dict, List, Optional, Tuple

from . import common
from . import gen as G
from . import real as R

ANSI = re.compile(r"\x1b\[[0-9;]*m")
ENDIANS = ["both", "little", "big"]


def _env() -> Dict[str, str]:
    return {**os.environ, "PYTHONPATH": f"{common.REPO}/compiler:{common.REPO}/lib/py", "PYTHONDONTWRITEBYTECODE": "1"}


# ------------------------------------------------------------------------------ invocations
class Inv:
    """one CLI invocation in a fresh directory"""

    def __init__(self, files: Dict[str, str], mainfile: str, lang: str, opts: List[str], layout: str, outdir: bool) -> None:
        self.files = files
        self.mainfile = mainfile
        self.lang = lang
        self.opts = opts
        self.layout = layout  # flat | abs | sub
        self.outdir = outdir
        self.argv: List[str] = []
        self.rc: Optional[int] = None
        self.out = ""
        self.err = ""
        self.new: Dict[str, str] = {}

    def clone(self) -> "Inv":
        return Inv(self.files, self.mainfile, self.lang, self.opts, self.layout, self.outdir)

    def describe(self) -> Dict[str, Any]:
        return {"argv": ["python", "-m", "bitproto._main"] + self.argv, "cwd": "<dir>",
                "source_files_in": "<dir>/src" if self.layout == "sub" else "<dir>",
                "outdir_created_beforehand": "<dir>/out" if self.outdir else None}

    def observed(self) -> Dict[str, Any]:
        return {"exit": self.rc, "stderr": ANSI.sub("", self.err)[-600:], "new_files": sorted(self.new)}

    def by_ext(self, ext: str) -> Optional[str]:
        for k, v in self.new.items():
            if k.endswith(ext):
                return v
        return None


class Pool:
    def __init__(self, sc: R.Scratch, run: common.Run) -> None:
        self.sc = sc
        self.run = run
        self.n = 0
        self.ex = ThreadPoolExecutor(16)

    def _one(self, job: Tuple[int, Inv]) -> None:
        k, inv = job
        d = self.sc.path(f"i{k}")
        src = os.path.join(d, "src") if inv.layout == "sub" else d
        os.makedirs(src, exist_ok=True)
        written = set()
        for name, text in inv.files.items():
            p = os.path.join(src, name)
            with open(p, "w") as f:
                f.write(text)
            written.add(os.path.relpath(p, d))
        if inv.layout == "abs":
            farg = os.path.join(src, inv.mainfile)
        elif inv.layout == "sub":
            farg = os.path.join("src", inv.mainfile)
        else:
            farg = inv.mainfile
        argv = [inv.lang, farg]
        if inv.outdir:
            os.makedirs(os.path.join(d, "out"), exist_ok=True)
            argv.append("out")
        argv += inv.opts
        inv.argv = [a.replace(d, "<dir>") for a in argv]
        try:
            p = subprocess.run([common.PY, "-m", "bitproto._main"] + argv, env=_env(), capture_output=True, text=True, cwd=d, timeout=300)
            inv.rc, inv.out, inv.err = p.returncode, p.stdout, p.stderr
        except subprocess.TimeoutExpired:
            inv.rc, inv.err = -999, "timeout"
        for root, _, fs in os.walk(d):
            for fn in fs:
                rel = os.path.relpath(os.path.join(root, fn), d)
                if rel not in written:
                    try:
                        with open(os.path.join(root, fn), errors="replace") as f:
                            inv.new[rel] = f.read()
                    except OSError:
                        inv.new[rel] = "<unreadable>"
        shutil.rmtree(d, ignore_errors=True)

    def execute(self, invs: List[Inv]) -> None:
        jobs = []
        for inv in invs:
            self.n += 1
            jobs.append((self.n, inv))
        list(self.ex.map(self._one, jobs))
        self.run.count("cli_invocations", len(invs))

    def close(self) -> None:
        self.ex.shutdown()


def mk_opts(rng: random.Random, O: bool, names: Optional[str], endian: Optional[str], quiet: bool) -> List[str]:
    groups: List[List[str]] = []
    if O:
        groups.append([rng.choice(["-O", "-O", "--optimize"])])
    if names is not None:
        groups.append(rng.choice([["-F", names], ["-F", names], ["--filter-messages", names], ["--filter-messages=" + names]]))
    if endian:
        groups.append(rng.choice([["--endian", endian], ["--endian=" + endian]]))
    if quiet:
        groups.append([rng.choice(["-q", "--disable-lint"])])
    rng.shuffle(groups)
    return [a for g in groups for a in g]


def rand_layout(rng: random.Random) -> Tuple[str, bool]:
    return rng.choice(["flat", "flat", "flat", "abs", "sub"]), rng.random() < 0.6


# ------------------------------------------------------------------------------ abstract program helpers
def all_defs(s: G.Schema) -> List[Any]:
    out: List[Any] = []

    def walk(d: Any) -> None:
        out.append(d)
        if isinstance(d, G.MsgDef):
            for n in d.nested:
                walk(n)

    for d in s.defs:
        walk(d)
    return out


def arrays_of(s: G.Schema) -> List[Tuple[str, Any]]:
    """(site kind, TArray) for every array type written in file s"""
    out: List[Tuple[str, Any]] = []
    for d in all_defs(s):
        if isinstance(d, G.AliasDef) and isinstance(d.type, G.TArray):
            out.append(("arr-alias", d.type))
        if isinstance(d, G.MsgDef):
            for f in d.fields:
                if isinstance(f.type, G.TArray):
                    out.append(("arr-field-nested" if d.parent is not None else "arr-field", f.type))
    return out


def count_markers(top: G.Schema) -> int:
    n = 0
    for f in top.all_files():
        n += sum(1 for d in all_defs(f) if isinstance(d, G.MsgDef) and d.ext)
        n += sum(1 for _, a in arrays_of(f) if a.ext)
    return n


def file_depths(top: G.Schema) -> Dict[int, int]:
    """id(file) -> length of the shortest import chain from the top file"""
    depth = {id(top): 0}
    frontier = [top]
    while frontier:
        nxt = []
        for f in frontier:
            for (i, _) in f.imports:
                if id(i) not in depth:
                    depth[id(i)] = depth[id(f)] + 1
                    nxt.append(i)
        frontier = nxt
    return depth


def print_files(top: G.Schema, seed: int) -> Dict[str, str]:
    return G.program_files(top, random.Random(seed))


def wrap(rng: random.Random, main: G.Schema) -> G.Schema:
    """one more file on top that imports `main` (with or without `as`) and uses one of its types,
    so that main's imports are reachable only transitively"""
    usable = [d for d in main.defs if isinstance(d, (G.MsgDef, G.EnumDef, G.AliasDef))]
    m = G.MsgDef("TopWrap", False)
    m.fields.append(G.Field("fa_1", 1, G.TUint(rng.choice([1, 3, 8, 13]))))
    if usable:
        d = rng.choice(usable)
        m.fields.append(G.Field("fb_2", 2, G.TRef(d)))
    if rng.random() < 0.4:
        m.fields.append(G.Field("fc_3", 3, G.TArray(G.TBool(), rng.choice([1, 3, 9]), False)))
    top = G.Schema("ptopw", [m], imports=[(main, rng.choice([None, None, "inner"]))])
    G.set_home(top)
    return top


def base_program(rng: random.Random, ext: bool, n_imports: Tuple[int, int], max_bits: int, options: bool = True) -> G.Schema:
    o = G.ProgOpts(n_imports=n_imports, options=options, gen=G.GenOpts(allow_ext=ext, max_bits=max_bits, big_prob=0.0))
    return G.ProgramGen(rng, o).program()


def nk(name: str) -> str:
    """generated C / Go identifiers are the bitproto names re-cased (lib_MsgA -> LibMsgA, MSGA -> Msga): names are
    compared modulo case and underscores, and generated programs keep their names distinct modulo the same"""
    return name.replace("_", "").lower()


# ------------------------------------------------------------------------------ refusal oracle
def stderr_lines(inv: Inv) -> List[str]:
    return [l.strip() for l in ANSI.sub("", inv.err).split("\n") if l.strip()]


def refusal_defects(inv: Inv, control: Optional[Inv]) -> List[str]:
    """what is missing for `inv` to be a refusal in the sense of the property"""
    bad = []
    if inv.rc == 0:
        bad.append("exit status 0")
    if inv.rc == -999:
        bad.append("timeout")
    known = set(stderr_lines(control)) if control is not None else set()
    diag = [l for l in stderr_lines(inv) if l not in known]
    if not diag:
        bad.append("no diagnostic on stderr (beyond what the accepted control run prints)")
    if "Traceback (most recent call last)" in inv.err:
        bad.append("uncaught exception (traceback) instead of a diagnostic")
    if inv.new:
        bad.append(f"files written: {sorted(inv.new)}")
    return bad


def expected_outputs(base: str, lang: str) -> List[str]:
    return {"c": [base + "_bp.h", base + "_bp.c"], "go": [base + "_bp.go"], "py": [base + "_bp.py"]}[lang]


def accepted(inv: Inv, base: str) -> bool:
    if inv.rc != 0:
        return False
    names = {os.path.basename(k) for k in inv.new}
    return all(x in names for x in expected_outputs(base, inv.lang))


# ------------------------------------------------------------------------------ text scanners
C_FUNC = re.compile(r"^([A-Za-z_][\w \t\*]*?[ \t\*])([A-Za-z_]\w*)[ \t]*\(([^;{}]*)\)[ \t]*\{[ \t]*$")
C_PROTO = re.compile(r"^([A-Za-z_][\w \t\*]*?[ \t\*])([A-Za-z_]\w*)[ \t]*\(([^;{}]*)\)[ \t]*;[ \t]*$")
GO_FUNC = re.compile(r"^func[ \t]+(?:\([ \t]*\w+[ \t]+\*?[ \t]*(\w+)[ \t]*\)[ \t]*)?(\w+)[ \t]*\(")


def norm_lines(lines: List[str]) -> List[str]:
    """non-blank, non-comment lines with whitespace runs collapsed"""
    out = []
    for l in lines:
        s = " ".join(l.split())
        if not s or s.startswith("//"):
            continue
        out.append(s)
    return out


def split_c_source(text: str) -> Tuple[List[Tuple[str, str, str]], List[str]]:
    """([(function name, full text, signature)], lines outside function definitions)"""
    lines = text.split("\n")
    funcs: List[Tuple[str, str, str]] = []
    rest: List[str] = []
    i, n = 0, len(lines)
    while i < n:
        m = C_FUNC.match(lines[i])
        if m:
            j = i
            while j < n and lines[j].rstrip() != "}":
                j += 1
            if j < n:
                sig = " ".join(lines[i].rstrip()[:-1].split())
                funcs.append((m.group(2), "\n".join(lines[i:j + 1]), sig))
                i = j + 1
                continue
        rest.append(lines[i])
        i += 1
    return funcs, rest


def split_c_header(text: str) -> Tuple[List[Tuple[str, str]], List[str]]:
    """([(prototype name, signature)], other lines)"""
    protos: List[Tuple[str, str]] = []
    rest: List[str] = []
    for l in text.split("\n"):
        m = C_PROTO.match(l)
        if m and not l.startswith("typedef"):
            protos.append((m.group(2), " ".join(l.rstrip()[:-1].split())))
        else:
            rest.append(l)
    return protos, rest


def split_go(text: str) -> Tuple[List[Tuple[Tuple[str, str], str]], List[str]]:
    """([((receiver type, name), text)] of Encode/Decode methods, all other lines)"""
    lines = text.split("\n")
    funcs: List[Tuple[Tuple[str, str], str]] = []
    rest: List[str] = []
    i, n = 0, len(lines)
    while i < n:
        m = GO_FUNC.match(lines[i])
        if m and m.group(1) and m.group(2) in ("Encode", "Decode"):
            l = lines[i].rstrip()
            if l.endswith("}") and l.count("{") == l.count("}"):
                j = i
            else:
                j = i
                while j < n and lines[j].rstrip() != "}":
                    j += 1
            if j < n:
                funcs.append(((m.group(1), m.group(2)), "\n".join(lines[i:j + 1])))
                i = j + 1
                continue
        rest.append(lines[i])
        i += 1
    return funcs, rest


def c_decl_items(htext: str) -> Dict[str, List[str]]:
    """declaration items of a generated header: struct definitions, typedefs, #defines"""
    items: Dict[str, List[str]] = {"struct": [], "typedef": [], "define": []}
    lines = htext.split("\n")
    i, n = 0, len(lines)
    while i < n:
        l = lines[i]
        if re.match(r"^struct \w+ \{", l):
            j = i
            while j < n and not lines[j].startswith("}"):
                j += 1
            items["struct"].append(" | ".join(norm_lines(lines[i:j + 1])))
            i = j + 1
            continue
        if l.startswith("typedef "):
            items["typedef"].append(" ".join(l.split()))
        m = re.match(r"^#define[ \t]+(\w+)", l)
        if m and not m.group(1).startswith("__BITPROTO__") and m.group(1) not in ("BITPROTO_OPTIMIZATION_MODE", "BP_BIG_ENDIAN"):
            items["define"].append(" ".join(l.split()))
        i += 1
    return {k: sorted(v) for k, v in items.items()}


def go_decl_items(text: str) -> Dict[str, List[str]]:
    """declaration items of a generated go file: struct types, other types, const entries"""
    items: Dict[str, List[str]] = {"struct": [], "type": [], "const": []}
    lines = text.split("\n")
    i, n = 0, len(lines)
    while i < n:
        l = lines[i]
        if re.match(r"^type \w+ struct \{", l):
            j = i
            while j < n and not lines[j].startswith("}"):
                j += 1
            items["struct"].append(" | ".join(norm_lines(lines[i:j + 1])))
            i = j + 1
            continue
        if l.startswith("type "):
            items["type"].append(" ".join(l.split()))
        elif re.match(r"^const[ \t]*\(", l):
            j = i + 1
            while j < n and not lines[j].startswith(")"):
                j += 1
            items["const"].extend(norm_lines(lines[i + 1:j]))
            i = j + 1
            continue
        elif l.startswith("const "):
            items["const"].append(" ".join(l.split()))
        i += 1
    return {k: sorted(v) for k, v in items.items()}


def first_diff(a: List[str], b: List[str]) -> Dict[str, Any]:
    sa, sb = list(a), list(b)
    only_a = [x for x in sa if x not in set(sb)][:4]
    only_b = [x for x in sb if x not in set(sa)][:4]
    if not only_a and not only_b:
        for k, (x, y) in enumerate(zip(sa, sb)):
            if x != y:
                return {"first_differing_line": k, "reference": x, "with_F": y}
        return {"length_reference": len(sa), "length_with_F": len(sb)}
    return {"only_in_reference": only_a, "only_with_F": only_b}


# ------------------------------------------------------------------------------ (d) program generator
class FilterProgram:
    def __init__(self) -> None:
        self.main: G.Schema = None  # type: ignore
        self.files: Dict[str, str] = {}
        self.prefix = ""
        self.relations: List[str] = []
        self.focus: List[str] = []  # names involved in a name relation


def _c_names_unique(main: G.Schema, prefix: str) -> bool:
    seen = set()
    for d in all_defs(main):
        if isinstance(d, G.ConstDef):
            continue
        cn = nk(prefix + G.c_name(d))
        if cn in seen:
            return False
        seen.add(cn)
    # simple names unique per scope (case-insensitively: the generated macro names are upper-cased)
    scopes: Dict[int, set] = {}
    for d in all_defs(main):
        key = id(d.parent) if getattr(d, "parent", None) is not None else 0
        s = scopes.setdefault(key, set())
        if nk(d.name) in s:
            return False
        s.add(nk(d.name))
    for (imp, as_name) in main.imports:
        if nk(as_name or imp.proto) in scopes.get(0, set()):
            return False
    return True


def _refs_inside(m: G.MsgDef) -> List[Any]:
    out: List[Any] = []

    def wt(t: Any) -> None:
        if isinstance(t, G.TArray):
            wt(t.elem)
        elif isinstance(t, G.TRef):
            out.append(t.d)

    def wd(d: Any) -> None:
        if isinstance(d, G.MsgDef):
            for n in d.nested:
                wd(n)
            for f in d.fields:
                wt(f.type)

    wd(m)
    return out


def _ancestors(d: Any) -> List[Any]:
    out = []
    p = d.parent
    while p is not None:
        out.append(p)
        p = p.parent
    return out


def gen_filter_program(rng: random.Random, k: int) -> FilterProgram:
    fp = FilterProgram()
    main = base_program(rng, False, (0, 2), rng.choice([96, 200, 400]))
    # at least three messages in the main file
    g = G.SchemaGen(rng, G.GenOpts(allow_ext=False, max_bits=200, big_prob=0.0))
    g.counter = 7000 + rng.randrange(300)
    g.all_named = [d for d in all_defs(main) if isinstance(d, (G.MsgDef, G.EnumDef, G.AliasDef))]
    while len(main.messages()) < 3:
        m = g.message(0, None)
        main.defs.append(m)
        g.all_named.append(m)
        g.all_named.extend(m.nested)
    G.set_home(main)
    main.options = [o for o in main.options if o[0] != "c.name_prefix"]
    if rng.random() < 0.55:
        fp.prefix = rng.choice(["Xy", "lib_", "Zq", "Msg", "X", "Encode"])
        main.options.append(("c.name_prefix", fp.prefix))
    msgs = main.messages()
    fresh = lambda m: re.fullmatch(r"Msg[A-Z][a-z][a-z]", m.name) is not None  # noqa: E731

    def try_rename(m: G.MsgDef, new: str, label: str, other: Optional[G.MsgDef]) -> bool:
        if not re.fullmatch(r"[A-Za-z][A-Za-z0-9_]*", new) or new == m.name:
            return False
        old = m.name
        m.name = new
        if not _c_names_unique(main, fp.prefix):
            m.name = old
            return False
        fp.relations.append(label)
        fp.focus.append(new)
        if other is not None:
            fp.focus.append(other.name)
        return True

    ops = ["prefix", "suffixof", "short", "samename", "prefix", "underscore"]
    rng.shuffle(ops)
    for op in ops[: rng.choice([1, 2, 2, 3])]:
        cands = [m for m in msgs if fresh(m)]
        if len(cands) < 2:
            break
        a, b = rng.sample(cands, 2)
        if op == "prefix":  # Frame / FrameHeader
            try_rename(b, a.name + rng.choice(["Header", "X", "2", "Msg", "V2", "s"]), "prefix", a)
        elif op == "underscore":  # Msg_Baa is re-cased in generated identifiers; the filter still goes by the bitproto name
            try_rename(b, rng.choice([a.name + "_v2", b.name[:3] + "_" + b.name[3:], b.name.upper()]), "recased", None)
        elif op == "suffixof":  # Baa is a suffix of MsgBaa
            try_rename(b, a.name[3:], "suffix", a)
        elif op == "short":  # Msg is a prefix of every other message name
            try_rename(b, rng.choice(["Msg", "M", "Ms"]), "short-prefix", None)
        elif op == "samename":
            # a nested message b gets the simple name of a message a that lives in another scope (-F selects both)
            nest = [m for m in cands if m.parent is not None]
            rng.shuffle(nest)
            done = False
            for b in nest:
                top_b = _ancestors(b)[-1]
                inside = _refs_inside(top_b)
                for a in rng.sample(cands, len(cands)):
                    if a is b or a.parent is b.parent or a in _ancestors(b) or b in _ancestors(a) or a.parent in _ancestors(b):
                        continue
                    if any(x is a for x in inside):
                        continue  # a bare reference to `a` from inside b's tree would be captured by the new name
                    if try_rename(b, a.name, "same-simple-name", a):
                        done = True
                        break
                if done:
                    break
    fp.main = main
    fp.files = print_files(main, 1000 + k)
    return fp


def pick_subsets(rng: random.Random, fp: FilterProgram, n: int) -> List[Tuple[str, List[str], str]]:
    """[(kind, names, argv text)]"""
    main = fp.main
    msgs = main.messages()
    simple = sorted({m.name for m in msgs})
    nested = sorted({m.name for m in msgs if m.parent is not None})
    junk: List[str] = ["Nope", "message", simple[0] + "Zz", simple[-1][:-1]]
    for d in all_defs(main):
        if isinstance(d, (G.EnumDef, G.AliasDef)):
            junk.append(d.name)
    for m in msgs:
        junk.append(fp.prefix + G.c_name(m))  # C-formatted name
        junk.append(G.c_name(m))  # Go-formatted name
        junk.append("_".join(G.scope_names(m)))
        junk.append(m.name.lower())
        junk.append(m.name.upper())
        junk.append(m.name + "_")
    for f in main.all_files():
        if f is not main:
            junk.extend(m.name for m in f.messages())
    junk = sorted({j for j in junk if j not in simple and re.fullmatch(r"[A-Za-z_][A-Za-z0-9_]*", j)})
    out: List[Tuple[str, List[str]]] = []
    kinds = ["random", "focus", "single", "junkmix", "nested", "all", "junkonly", "random", "complement-focus"]
    rng.shuffle(kinds)
    # relations first: they are what substring / case bugs need
    if fp.focus:
        kinds.remove("focus")
        kinds.insert(0, "focus")
    kinds.insert(rng.randint(0, 1), "nearmiss")
    for kind in kinds:
        if len(out) >= n:
            break
        if kind == "random":
            names = rng.sample(simple, rng.randint(1, len(simple)))
        elif kind == "focus":
            if not fp.focus:
                continue
            names = [rng.choice(fp.focus)]
        elif kind == "complement-focus":
            if not fp.focus:
                continue
            x = rng.choice(fp.focus)
            names = [s for s in simple if s != x]
            if not names:
                continue
        elif kind == "single":
            names = [rng.choice(simple)]
        elif kind == "nearmiss":
            # a name that is NOT the bitproto name of any message but is close to one: re-cased, formatted for the target language, truncated
            m = rng.choice(msgs)
            var = [m.name.lower(), m.name.upper(), m.name[0].lower() + m.name[1:], m.name.swapcase(), fp.prefix + G.c_name(m), G.c_name(m),
                   "_".join(G.scope_names(m)), m.name + "_", m.name[:-1], m.name + m.name[-1], "Encode" + m.name]
            var = [v for v in var if v not in simple and re.fullmatch(r"[A-Za-z_][A-Za-z0-9_]*", v)]
            if not var:
                continue
            others = [x for x in simple if x != m.name]
            names = [rng.choice(var)] + rng.sample(others, min(len(others), rng.choice([0, 0, 1, 2])))
        elif kind == "nested":
            if not nested:
                continue
            names = rng.sample(nested, rng.randint(1, len(nested)))
        elif kind == "all":
            names = list(simple)
        elif kind == "junkmix":
            names = rng.sample(simple, rng.randint(1, len(simple))) + rng.sample(junk, min(len(junk), rng.randint(1, 3)))
        else:  # junkonly
            names = rng.sample(junk, min(len(junk), rng.randint(1, 2)))
        rng.shuffle(names)
        if rng.random() < 0.15:
            names = names + [names[0]]
        out.append((kind, names))
    res = []
    for kind, names in out:
        sep = rng.choice([",", ",", ",", ", ", " ,", " , "])
        text = sep.join(names)
        if sep != "," and rng.random() < 0.5:
            text = " " + text + " "
        elif rng.random() < 0.08:
            text = text + ","  # an empty item names no message
        res.append((kind, names, text))
    return res


def schema_counts(main: G.Schema) -> Dict[str, int]:
    ds = all_defs(main)
    return {
        "messages": sum(isinstance(d, G.MsgDef) for d in ds),
        "enums": sum(isinstance(d, G.EnumDef) for d in ds),
        "aliases": sum(isinstance(d, G.AliasDef) for d in ds),
        "consts": sum(isinstance(d, G.ConstDef) for d in ds),
        "enum_members": sum(len(d.members) for d in ds if isinstance(d, G.EnumDef)),
    }


# ------------------------------------------------------------------------------ (d) evaluation
def parse_c(inv: Inv) -> Optional[Dict[str, Any]]:
    h, c = inv.by_ext("_bp.h"), inv.by_ext("_bp.c")
    if h is None or c is None:
        return None
    funcs, crest = split_c_source(c)
    protos, hrest = split_c_header(h)
    return {"funcs": funcs, "crest": norm_lines(crest), "protos": protos, "hrest": norm_lines(hrest), "decls": c_decl_items(h)}


def parse_go(inv: Inv) -> Optional[Dict[str, Any]]:
    t = inv.by_ext("_bp.go")
    if t is None:
        return None
    funcs, rest = split_go(t)
    return {"funcs": funcs, "rest": norm_lines(rest), "decls": go_decl_items(t)}


def expected_keys(fp: FilterProgram, lang: str, names: Optional[List[str]]) -> List[Any]:
    sel = [m for m in fp.main.messages() if names is None or m.name in set(names)]
    if lang == "c":
        return sorted(nk(k + fp.prefix + G.c_name(m)) for m in sel for k in ("Encode", "Decode"))
    return sorted((nk(G.c_name(m)), k) for m in sel for k in ("Encode", "Decode"))


def fkey(lang: str, key: Any) -> Any:
    return nk(key) if lang == "c" else (nk(key[0]), key[1])


def decl_count_problems(lang: str, decls: Dict[str, List[str]], cnt: Dict[str, int]) -> List[str]:
    bad = []
    if len(decls["struct"]) != cnt["messages"]:
        bad.append(f"{len(decls['struct'])} struct definitions for {cnt['messages']} messages")
    if lang == "c":
        if len(decls["typedef"]) != cnt["enums"] + cnt["aliases"]:
            bad.append(f"{len(decls['typedef'])} typedefs for {cnt['enums']} enums + {cnt['aliases']} aliases")
        want = cnt["consts"] + cnt["enum_members"] + cnt["messages"]
        if len(decls["define"]) != want:
            bad.append(f"{len(decls['define'])} #defines for {cnt['consts']} constants + {cnt['enum_members']} enum members + {cnt['messages']} size macros")
    else:
        if len(decls["type"]) != cnt["enums"] + cnt["aliases"]:
            bad.append(f"{len(decls['type'])} type declarations for {cnt['enums']} enums + {cnt['aliases']} aliases")
        want = cnt["consts"] + cnt["enum_members"] + cnt["messages"]
        if len(decls["const"]) != want:
            bad.append(f"{len(decls['const'])} const entries for {cnt['consts']} constants + {cnt['enum_members']} enum members + {cnt['messages']} size constants")
    return bad


def compare_filtered(fp: FilterProgram, lang: str, ref: Dict[str, Any], std: Optional[Dict[str, Any]], got: Dict[str, Any],
                     names: List[str], cnt: Dict[str, int], model_ok: bool) -> List[Dict[str, Any]]:
    """list of discrepancies between `-O -F names` (got) and what the property predicts from `-O` (ref)"""
    bad: List[Dict[str, Any]] = []
    want = expected_keys(fp, lang, names)
    have = sorted(fkey(lang, f[0]) for f in got["funcs"])
    if model_ok and have != want:
        bad.append({"what": "set of Encode/Decode functions", "expected": [str(x) for x in want],
                    "observed": sorted(str(f[0]) for f in got["funcs"]), "compared": "identifiers modulo case and underscores"})
    refmap: Dict[Any, List[str]] = {}
    for f in ref["funcs"]:
        refmap.setdefault(f[0], []).append(f[1])
    for f in got["funcs"]:
        r = refmap.get(f[0])
        if r is None:
            bad.append({"what": "function not generated without -F", "function": str(f[0])})
        elif f[1] not in r:
            bad.append({"what": "function text differs from the one generated without -F", "function": str(f[0]),
                        **first_diff(r[0].split("\n"), f[1].split("\n"))})
    if lang == "c":
        if got["crest"] != ref["crest"]:
            bad.append({"what": ".c text outside function definitions differs from -O without -F", **first_diff(ref["crest"], got["crest"])})
        if got["hrest"] != ref["hrest"]:
            bad.append({"what": ".h declarations (non-prototype part) differ from -O without -F", **first_diff(ref["hrest"], got["hrest"])})
        hp = sorted(nk(p[0]) for p in got["protos"])
        if model_ok and hp != want:
            bad.append({"what": "set of Encode/Decode prototypes in the header", "expected": [str(x) for x in want],
                        "observed": sorted(p[0] for p in got["protos"]), "compared": "identifiers modulo case and underscores"})
        pnames = sorted(p[0] for p in got["protos"])
        dnames = sorted(f[0] for f in got["funcs"])
        if pnames != dnames:
            bad.append({"what": "header prototypes and .c definitions disagree", "prototypes": pnames, "definitions": dnames})
        defsig = {f[0]: f[2] for f in got["funcs"]}
        refproto = {p[0]: p[1] for p in ref["protos"]}
        for (pn, sig) in got["protos"]:
            if pn in defsig and defsig[pn] != sig:
                bad.append({"what": "prototype and definition signatures differ", "prototype": sig, "definition": defsig[pn]})
            if pn in refproto and refproto[pn] != sig:
                bad.append({"what": "prototype differs from the one generated without -F", "reference": refproto[pn], "with_F": sig})
    else:
        if got["rest"] != ref["rest"]:
            bad.append({"what": "go text outside Encode/Decode differs from -O without -F", **first_diff(ref["rest"], got["rest"])})
    if std is not None:
        for kind in got["decls"]:
            if got["decls"][kind] != std["decls"][kind]:
                bad.append({"what": f"{kind} declarations differ from standard mode (no -O)", **first_diff(std["decls"][kind], got["decls"][kind])})
    for p in decl_count_problems(lang, got["decls"], cnt):
        bad.append({"what": "declaration count does not match the schema", "detail": p})
    return bad


def check_filter(run: common.Run, rng: random.Random, pool: Pool, nprog: int, nsub: int, all_endians: bool, chunk: int = 10) -> None:
    k = 0
    while k < nprog:
        batch = []
        for _ in range(min(chunk, nprog - k)):
            k += 1
            fp = gen_filter_program(rng, k)
            base = fp.main.base()
            mainfile = base + ".bitproto"
            cfgs: List[Tuple[str, Optional[str]]] = []
            ce = [None] + ENDIANS if all_endians else rng.sample([None] + ENDIANS, 2)
            cfgs += [("c", e) for e in ce]
            cfgs.append(("go", rng.choice([None, None, "little", "big", "both"])))
            subsets = pick_subsets(rng, fp, nsub)
            entry: Dict[str, Any] = {"fp": fp, "cfgs": [], "subsets": subsets, "std": {}, "base": base, "refusals": []}
            for lang in ("c", "go"):
                lay, od = rand_layout(rng)
                entry["std"][lang] = Inv(fp.files, mainfile, lang, mk_opts(rng, False, None, None, rng.random() < 0.5), lay, od)
            for (lang, e) in cfgs:
                lay, od = rand_layout(rng)
                ref = Inv(fp.files, mainfile, lang, mk_opts(rng, True, None, e, rng.random() < 0.5), lay, od)
                withf = []
                for (kind, names, text) in subsets:
                    lay, od = rand_layout(rng)
                    withf.append(Inv(fp.files, mainfile, lang, mk_opts(rng, True, text, e, rng.random() < 0.5), lay, od))
                entry["cfgs"].append((lang, e, ref, withf))
            # (b) and (c) on the same marker-free program
            (kind, names, text) = rng.choice(subsets)
            lay, od = rand_layout(rng)
            e = rng.choice([None, None] + ENDIANS)
            qt = rng.random() < 0.5
            pyctl = Inv(fp.files, mainfile, "py", mk_opts(rng, False, None, e, qt), lay, od)
            pyO = Inv(fp.files, mainfile, "py", mk_opts(rng, True, text if rng.random() < 0.4 else None, e, qt), lay, od)
            entry["refusals"].append(("b:py-O", pyO, pyctl))
            lang = rng.choice(["c", "go", "py"])
            e = rng.choice([None, None] + ENDIANS)
            lay, od = rand_layout(rng)
            qt = rng.random() < 0.5
            ctl = Inv(fp.files, mainfile, lang, mk_opts(rng, False, None, e, qt), lay, od)
            fonly = Inv(fp.files, mainfile, lang, mk_opts(rng, False, text, e, qt), lay, od)
            entry["refusals"].append(("c:F-without-O", fonly, ctl))
            batch.append(entry)
        invs: List[Inv] = []
        for en in batch:
            invs += list(en["std"].values())
            for (_, _, ref, withf) in en["cfgs"]:
                invs.append(ref)
                invs += withf
            for (_, a, b) in en["refusals"]:
                invs += [a, b]
        pool.execute(invs)
        for en in batch:
            eval_filter_entry(run, en, pool)


def filtered_defects(fp: FilterProgram, lang: str, base: str, ref: Inv, std: Optional[Inv], inv: Inv, names: List[str],
                     cnt: Dict[str, int]) -> Optional[List[Dict[str, Any]]]:
    """discrepancies of one `-O -F names` invocation against its reference invocations; None when a control failed"""
    if not accepted(ref, base):
        return None
    refp = parse_c(ref) if lang == "c" else parse_go(ref)
    stdp = None
    if std is not None and accepted(std, base):
        stdp = parse_c(std) if lang == "c" else parse_go(std)
    if refp is None:
        return None
    model_ok = sorted(fkey(lang, f[0]) for f in refp["funcs"]) == expected_keys(fp, lang, None)
    if not accepted(inv, base):
        return [{"what": "-O -F invocation did not generate the files that -O generates", **inv.observed()}]
    got = parse_c(inv) if lang == "c" else parse_go(inv)
    assert got is not None
    bad = compare_filtered(fp, lang, refp, stdp, got, names, cnt, model_ok)
    extra = sorted(set(os.path.basename(x) for x in inv.new) - set(expected_outputs(base, lang)))
    if extra:
        bad.append({"what": "unexpected extra files", "files": extra})
    return bad


def eval_filter_entry(run: common.Run, en: Dict[str, Any], pool: Pool) -> None:
    fp: FilterProgram = en["fp"]
    base = en["base"]
    cnt = schema_counts(fp.main)
    msgs = fp.main.messages()
    for r in fp.relations:
        run.count("d.relation." + r)
    run.count("d.prefix." + (fp.prefix or "none"))
    run.count("d.imports.%d" % len(fp.main.all_files()[:-1]))
    std_parsed: Dict[str, Optional[Dict[str, Any]]] = {}
    for lang, inv in en["std"].items():
        std_parsed[lang] = (parse_c(inv) if lang == "c" else parse_go(inv)) if accepted(inv, base) else None
        if std_parsed[lang] is None:
            run.count("d.control_failed.std")
            run.notes.setdefault("controls_failed", []).append({"argv": inv.argv, **inv.observed()})
    for (lang, e, ref, withf) in en["cfgs"]:
        if not accepted(ref, base):
            run.count("d.control_failed.O")
            run.notes.setdefault("controls_failed", []).append({"argv": ref.argv, **ref.observed()})
            continue
        refp = parse_c(ref) if lang == "c" else parse_go(ref)
        assert refp is not None
        model_ok = sorted(fkey(lang, f[0]) for f in refp["funcs"]) == expected_keys(fp, lang, None)
        if not model_ok:
            run.count("d.naming_model_mismatch")
            run.notes.setdefault("naming_model_mismatch", []).append(
                {"argv": ref.argv, "expected": [str(x) for x in expected_keys(fp, lang, None)], "observed": [str(f[0]) for f in refp["funcs"]]})
        for (kind, names, text), inv in zip(en["subsets"], withf):
            run.evaluated()
            sel = [m for m in msgs if m.name in set(names)]
            run.count(f"d.lang.{lang}")
            run.count(f"d.endian.{lang}.{e or 'absent'}")
            run.count("d.subset." + kind)
            run.count("d.selected." + ("none" if not sel else "all" if len(sel) == len(msgs) else "some"))
            if any(m.parent is not None for m in sel):
                run.count("d.selected.has_nested")
            if text != ",".join(names):
                run.count("d.names_with_blanks_or_empty_item")
            run.nontrivial(("d", lang, e, kind, bool(fp.prefix), tuple(sorted(fp.relations)), len(sel), len(msgs),
                            any(m.parent is not None for m in sel), text != ",".join(names)))
            run.sample({"part": "d", "argv": inv.argv, "reference_argv": ref.argv, "messages": [".".join(G.scope_names(m)) for m in msgs]}, limit=4)
            bad = filtered_defects(fp, lang, base, ref, en["std"][lang], inv, names, cnt)
            if bad:
                # confirm on a fresh, serial re-execution of the three invocations: an alarm must be reproducible
                # (a busy machine / a cleaned temp dir must not produce one)
                r2, s2, i2 = ref.clone(), en["std"][lang].clone(), inv.clone()
                pool.execute([r2, s2, i2])
                bad2 = filtered_defects(fp, lang, base, r2, s2, i2, names, cnt)
                if not bad2:
                    run.count("unconfirmed_on_rerun")
                    run.notes.setdefault("unconfirmed_on_rerun", []).append({"argv": inv.argv, "first": bad[:2]})
                    bad = []
                else:
                    bad, inv = bad2, i2
            if bad:
                run.violation({
                    "kind": "impl-vs-spec", "part": "d: -O -F names vs -O",
                    "input": {"files": fp.files, **inv.describe(), "reference_argv": ref.describe()["argv"],
                              "standard_mode_argv": en["std"][lang].describe()["argv"]},
                    "names": names,
                    "main_file_messages": [".".join(G.scope_names(m)) for m in msgs],
                    "expected_by_spec": "Encode/Decode exactly for main-file messages whose name is listed, each textually identical to the -O "
                                        "output without -F; every other line of the output unchanged",
                    "observed_impl": bad[:4],
                }, suffix=f"part=d lang={lang} endian={e} what={bad[0]['what']!r}")
    for (part, inv, ctl) in en["refusals"]:
        eval_refusal(run, pool, part, inv, ctl, base, fp.files, {"program": "marker-free"})


def eval_refusal(run: common.Run, pool: Pool, part: str, inv: Inv, ctl: Optional[Inv], base: str, files: Dict[str, str], extra: Dict[str, Any],
                 ctl_files: Optional[Dict[str, str]] = None) -> bool:
    """True when the case was evaluated (control accepted)"""
    if ctl is not None and not accepted(ctl, base):
        run.count(f"{part}.control_failed")
        run.notes.setdefault("controls_failed", []).append({"part": part, "argv": ctl.argv, **ctl.observed()})
        return False
    run.evaluated()
    run.count(part)
    run.count(f"{part}.lang.{inv.lang}")
    run.count(f"{part}.outdir.{'explicit' if inv.outdir else 'default'}")
    has_f = any(a.startswith("-F") or a.startswith("--filter") for a in inv.opts)
    en = [a for a in inv.opts if a in ENDIANS] + [a.split("=")[1] for a in inv.opts if a.startswith("--endian=")]
    run.nontrivial((part, inv.lang, inv.layout, inv.outdir, has_f, tuple(en), tuple(sorted(extra.items()))))
    run.sample({"part": part, "argv": inv.argv, **extra}, limit=8)
    bad = refusal_defects(inv, ctl)
    if bad:
        # confirm on a fresh re-execution (see eval_filter_entry)
        i2, c2 = inv.clone(), (ctl.clone() if ctl is not None else None)
        pool.execute([i2] + ([c2] if c2 is not None else []))
        if c2 is not None and not accepted(c2, base):
            bad = []
        else:
            bad = refusal_defects(i2, c2)
        if not bad:
            run.count("unconfirmed_on_rerun")
            run.notes.setdefault("unconfirmed_on_rerun", []).append({"argv": inv.argv, "part": part})
        else:
            inv, ctl = i2, c2
    if bad:
        run.violation({
            "kind": "impl-vs-spec", "part": part,
            "input": {"files": files, **inv.describe()},
            "control": None if ctl is None else {"argv": ctl.describe()["argv"], "files_differ": ctl_files is not None, **ctl.observed()},
            "case": extra,
            "expected_by_spec": "refusal: non-zero exit status, a diagnostic on stderr, no file written",
            "observed_impl": {"missing": bad, **inv.observed()},
        }, suffix=f"part={part} lang={inv.lang} missing={bad[0]!r}")
    return True


# ------------------------------------------------------------------------------ (a) markers
def plant_sites(top: G.Schema) -> List[Tuple[str, int, Any]]:
    """(site kind, depth class of the file, object whose .ext is to be set)"""
    depth = file_depths(top)
    sites: List[Tuple[str, int, Any]] = []
    for f in top.all_files():
        dc = min(depth.get(id(f), 9), 2)
        for d in all_defs(f):
            if isinstance(d, G.MsgDef):
                sites.append(("msg-nested" if d.parent is not None else "msg-top", dc, d))
        for kind, a in arrays_of(f):
            sites.append((kind, dc, a))
    return sites


def check_markers(run: common.Run, rng: random.Random, pool: Pool, ncase: int, chunk: int = 40) -> None:
    k = 0
    while k < ncase:
        batch = []
        for _ in range(min(chunk, ncase - k)):
            k += 1
            family = "single" if rng.random() < 0.8 else "many"
            if family == "single":
                top = base_program(rng, False, rng.choice([(0, 1), (1, 3), (2, 3), (2, 3)]), rng.choice([64, 200]), options=rng.random() < 0.3)
                for f in top.all_files():  # a planted marker adds 16 bits: no max_bytes constraints here
                    for m in f.messages():
                        m.options = []
                wrapped = rng.random() < 0.45
                if wrapped:
                    top = wrap(rng, top)
                sites = plant_sites(top)
                # choose depth class, then kind, then site: imported files and rare kinds are not starved
                dcs = sorted({s[1] for s in sites})
                dc = rng.choices(dcs, weights=[(1.0, 1.5, 2.5)[d] for d in dcs])[0]
                kinds = sorted({s[0] for s in sites if s[1] == dc})
                kind = rng.choice(kinds)
                site = rng.choice([s for s in sites if s[1] == dc and s[0] == kind])
                clean = print_files(top, 500 + k)
                site[2].ext = True
                marked = print_files(top, 500 + k)
                site[2].ext = False
                info = {"family": family, "site": kind, "file_depth": dc, "wrapped": wrapped, "files": len(clean)}
            else:
                top = base_program(rng, True, rng.choice([(0, 1), (0, 2)]), 200, options=False)
                nm = count_markers(top)
                if nm == 0:
                    k -= 1
                    continue
                marked = print_files(top, 500 + k)
                clean = None
                info = {"family": family, "markers": min(nm, 5), "files": len(marked)}
            base = top.base()
            mainfile = base + ".bitproto"
            lang = rng.choice(["c", "c", "go", "go", "py"])
            msgnames = [m.name for m in top.messages()] or ["Nope"]
            ftext = ",".join(rng.sample(msgnames, rng.randint(1, len(msgnames)))) if rng.random() < 0.3 else None
            e = rng.choice([None, None] + ENDIANS)
            qt = rng.random() < 0.5
            lay, od = rand_layout(rng)
            opts = mk_opts(rng, True, ftext, e, qt)
            refused = Inv(marked, mainfile, lang, opts, lay, od)
            noO = Inv(marked, mainfile, lang, mk_opts(rng, False, None, e, qt), lay, od)
            unmarked = Inv(clean, mainfile, lang, opts, lay, od) if (clean is not None and lang != "py") else None
            fonly = None
            if rng.random() < 0.25:
                l2 = rng.choice(["c", "go", "py"])
                fonly = (Inv(marked, mainfile, l2, mk_opts(rng, False, ",".join(rng.sample(msgnames, 1)), e, qt), lay, od),
                         Inv(marked, mainfile, l2, mk_opts(rng, False, None, e, qt), lay, od))
            batch.append({"info": info, "base": base, "refused": refused, "noO": noO, "unmarked": unmarked, "fonly": fonly,
                          "marked": marked, "clean": clean})
        invs: List[Inv] = []
        for en in batch:
            invs += [en["refused"], en["noO"]]
            if en["unmarked"] is not None:
                invs.append(en["unmarked"])
            if en["fonly"] is not None:
                invs += list(en["fonly"])
        pool.execute(invs)
        for en in batch:
            info = en["info"]
            if en["unmarked"] is not None and not accepted(en["unmarked"], en["base"]):
                run.count("a.control_failed.unmarked")
                run.notes.setdefault("controls_failed", []).append({"part": "a", "argv": en["unmarked"].argv, **en["unmarked"].observed()})
                continue
            if eval_refusal(run, pool, "a:ext-marker-under-O", en["refused"], en["noO"], en["base"], en["marked"], info):
                if info["family"] == "single":
                    run.count(f"a.site.{info['site']}.depth{info['file_depth']}")
                else:
                    run.count("a.many-markers")
            if en["fonly"] is not None:
                eval_refusal(run, pool, "c:F-without-O", en["fonly"][0], en["fonly"][1], en["base"], en["marked"], {"program": "extensible"})


# ------------------------------------------------------------------------------ entry
SIZES = {
    # (filter programs, subsets per program, all endians, marker cases)
    "quick": (18, 4, False, 80),
    "thorough": (180, 6, True, 900),
}


def check(run: common.Run, drv: Any, rng: random.Random, tier: str) -> None:
    nprog, nsub, all_e, nmark = SIZES[tier]
    run.coverage["rule"] = ("CLI subprocess pairs: (a) one planted extensible marker (site kind x import depth) under -O refused, controls accepted; "
                            "(b) py -O refused; (c) -F without -O refused; (d) -O -F names vs -O vs standard mode: function set from the abstract "
                            "schema, function text identical, all other lines identical")
    with R.Scratch("bpv-c17-") as sc:
        pool = Pool(sc, run)
        try:
            check_markers(run, rng, pool, nmark)
            check_filter(run, rng, pool, nprog, nsub, all_e)
        finally:
            pool.close()
