"""More translator targets: compiler/bitproto/_ast.py Type.nbytes, renderer/formatter.py
get_nbits_of_integer / op_mode_get_mask (Gen/FmtHelpers.lean); lib/go/bitproto.go helpers
(Gen/GoHelpers.lean)."""
from __future__ import annotations

import ast
import os
import re
from typing import Any, Dict, List, Tuple

from . import common
from .translate import GEN_DIR, HEADER, PyToLean, Untranslatable, find_functions, write_if_changed


class PyToLean2(PyToLean):
    """adds: `x in (a, b)`; `self.nbits()` / `t.nbytes()` as the parameter named like the method"""

    def expr(self, e: ast.AST) -> str:
        if isinstance(e, ast.Compare) and len(e.ops) == 1 and isinstance(e.ops[0], ast.In) and isinstance(e.comparators[0], ast.Tuple):
            l = self.expr(e.left)
            return "(" + " ∨ ".join(f"{l} = {self.expr(x)}" for x in e.comparators[0].elts) + ")"
        if isinstance(e, ast.Call) and isinstance(e.func, ast.Attribute) and not e.args and e.func.attr in ("nbits", "nbytes"):
            return e.func.attr + "_"
        return super().expr(e)


def gen_fmt_helpers() -> Tuple[str, Dict[str, Any]]:
    tr = PyToLean2()
    out = [HEADER, "import BpModel.Model.PyOp\nnamespace Bp.Gen.FmtHelpers\nopen Bp\n"]
    info: Dict[str, Any] = {"functions": {}}

    def emit(rel: str, fname: str, lean_name: str, params: str) -> None:
        src = open(os.path.join(common.REPO, rel)).read()
        fns = find_functions(ast.parse(src))
        if fname not in fns:
            out.append(f"-- MISSING in {rel}: {fname}\ndef {lean_name}_MISSING : Int := 0\n")
            info["functions"][lean_name] = False
            return
        node = fns[fname]
        try:
            body = tr.body(node.body)
            out.append(f"-- from {rel}:{node.lineno}\ndef {lean_name} {params} : Int :=\n  {body}\n")
            info["functions"][lean_name] = True
        except Untranslatable as ex:
            out.append(f"-- from {rel}:{node.lineno}\n-- UNTRANSLATABLE: {ex}\ndef {lean_name}_UNTRANSLATABLE : Int := 0\n")
            info["functions"][lean_name] = False

    emit("compiler/bitproto/_ast.py", "nbytes", "type_nbytes", "(nbits_ : Int)")
    emit("compiler/bitproto/renderer/formatter.py", "get_nbits_of_integer", "get_nbits_of_integer", "(nbytes_ : Int)")
    emit("compiler/bitproto/renderer/formatter.py", "op_mode_get_mask", "op_mode_get_mask", "(k : Int) (c : Int)")
    out.append("end Bp.Gen.FmtHelpers\n")
    return "\n".join(out), info


def regenerate() -> Dict[str, Any]:
    info: Dict[str, Any] = {}
    text, i = gen_fmt_helpers()
    i["changed"] = write_if_changed(os.path.join(GEN_DIR, "FmtHelpers.lean"), text)
    info["FmtHelpers"] = i
    from . import translate_tables

    info.update(translate_tables.regenerate())
    try:
        from . import translate_go

        info.update(translate_go.regenerate())
    except ImportError:
        pass
    return info
