"""C08 (accept iff documented constraints hold; diagnostics cite file and line) and C11 (names
resolve to the innermost visible earlier definition).

Programs with shadowing, dotted paths, imports, constants and options are generated as item trees
(tools/front.py), printed to `.bitproto` files and given to the REAL compiler (in-process `parse`,
and the CLI in a subprocess for exit status / absence of output on a sample).  The same tree goes
to the Lean reference (`front.check`): accept/reject, rule family, file and line must agree; for
accepted programs the elaborated type of every message (widths, enum members, array capacities,
nesting — i.e. WHICH definition each name resolved to) must agree three ways: real AST, Lean
reference, harness' own resolver.  Single-violation mutants come from a catalogue of ~28 kinds
with boundary values on both sides of the numeric limits.
"""
from __future__ import annotations

import os
import random
import subprocess
from typing import Any, Dict, List, Optional, Tuple

from . import common
from . import front as F
from . import real as R

RULE_OF_CLASS = {
    "InvalidUintCap": "invalid-uint-width", "InvalidIntCap": "invalid-int-width", "InvalidArrayCap": "invalid-array-capacity",
    "InvalidMessageFieldNumber": "invalid-field-number", "DuplicatedMessageFieldNumber": "duplicate-field-number",
    "DuplicatedEnumFieldValue": "duplicate-enum-value", "EnumFieldValueOverflow": "enum-value-overflow",
    "DuplicatedDefinition": "duplicate-definition", "MessageSizeOverflows": "message-size-overflow",
    "InvalidAliasedType": "invalid-aliased-type", "AliasInMessageUnsupported": "alias-in-message",
    "ConstInMessageUnsupported": "const-in-message", "ImportInMessageUnsupported": "import-in-message",
    "AliasInEnumUnsupported": "alias-in-enum", "ConstInEnumUnsupported": "const-in-enum", "ImportInEnumUnsupported": "import-in-enum",
    "OptionInEnumUnsupported": "option-in-enum", "EnumInEnumUnsupported": "enum-in-enum", "MessageInEnumUnsupported": "msg-in-enum",
    "MessageFieldInEnumUnsupported": "field-in-enum", "UnsupportedOption": "unsupported-option", "InvalidOptionValue": "invalid-option-value",
    "ReferencedTypeNotDefined": "undefined-type", "ReferencedConstantNotDefined": "undefined-constant",
    "ReferencedNotType": "not-a-type", "ReferencedNotConstant": "not-a-constant", "CyclicImport": "cyclic-import",
    "DuplicatedImport": "duplicate-import", "ExtensibleGrammarFoundInTraditionalMode": "extensible-in-traditional-mode",
    "FileNotFoundError": "os-error",
}
MODEL_ALIAS = {"message-in-enum": "msg-in-enum"}


def real_ty(t) -> Any:
    from bitproto import _ast as A

    if isinstance(t, A.Bool):
        return "bool"
    if isinstance(t, A.Byte):
        return "byte"
    if isinstance(t, A.Uint):
        return {"uint": t.cap}
    if isinstance(t, A.Int):
        return {"int": t.cap}
    if isinstance(t, A.Enum):
        return {"enum": t.type.cap, "members": [f.value for f in t.fields()]}
    if isinstance(t, A.Alias):
        return {"alias": real_ty(t.type)}
    if isinstance(t, A.Array):
        return {"array": real_ty(t.element_type), "cap": t.cap, "ext": bool(t.extensible)}
    if isinstance(t, A.Message):
        return {"msg": [{"num": f.number, "ty": real_ty(f.type)} for f in t.fields()], "ext": bool(t.extensible)}
    raise TypeError(type(t))


def real_messages(proto) -> Dict[str, Any]:
    """{dotted path: normalised Ty} of every message of the main proto (not of imports)"""
    from bitproto import _ast as A

    out: Dict[str, Any] = {}

    def walk(scope, pre: str) -> None:
        for name, m in scope.members.items():
            if isinstance(m, A.Message):
                out[pre + name] = F.norm_ty(real_ty(m))
                walk(m, pre + name + ".")

    walk(proto, "")
    return out


def run_real(d: str, main: str, trad: bool):
    try:
        proto = R.parse_file(os.path.join(d, main), traditional=trad)
        return ("ok", proto)
    except Exception as e:
        from bitproto.errors import ParserError

        if isinstance(e, ParserError):
            return ("reject", type(e).__name__, os.path.basename(getattr(e, "filepath", "") or ""), getattr(e, "lineno", None))
        if isinstance(e, OSError):
            return ("reject", "FileNotFoundError" if isinstance(e, FileNotFoundError) else type(e).__name__, "", None)
        return ("internal", type(e).__name__, str(e)[:200])


def check(run: common.Run, drv: common.Driver, rng: random.Random, tier: str, focus: str = "C08") -> None:
    n = {"quick": 260, "thorough": 6000}[tier]
    cli_budget = 12 if tier == "quick" else 120
    with R.Scratch() as sc:
        for start in range(0, n, 60):
            _chunk(run, drv, rng, sc, start, min(60, n - start), focus, cli_budget if start == 0 else 0)


def _chunk(run, drv, rng, sc, start: int, count: int, focus: str, cli_budget: int) -> None:
    cases = []
    corpus = F.corpus_programs() if start == 0 else []
    for k in range(start, start + count):
        g = F.FrontGen(rng)
        if corpus:
            import copy as _copy
            files, main = _copy.deepcopy(corpus.pop(0))
            expect, trad = None, False
            d = sc.path(f"q{k}")
            os.makedirs(d)
            texts = {}
            for f in files:
                texts[f["name"]] = F.print_file(f, rng)
                open(os.path.join(d, f["name"]), "w").write(texts[f["name"]])
            cases.append((k, d, files, main, trad, expect, texts, run_real(d, main, trad)))
            continue
        files, main = g.program()
        expect = None
        trad = False
        if rng.random() < (0.6 if focus == "C08" else 0.3):
            # C11 runs the mutants about visibility only: later / foreign / wrong-kind declarations must NOT be found
            m = F.mutate(rng, files, main, None if focus == "C08" else F.RESOLUTION_KINDS)
            if m is None:
                continue
            files, rule, vfile, vitem, trad = m
            expect = (rule, vfile, vitem)
        d = sc.path(f"q{k}")
        os.makedirs(d)
        texts = {}
        for f in files:
            texts[f["name"]] = F.print_file(f, rng)
            open(os.path.join(d, f["name"]), "w").write(texts[f["name"]])
        real = run_real(d, main, trad)
        cases.append((k, d, files, main, trad, expect, texts, real))
    ans = drv.batch([{"op": "front.check", "files": [F.to_json(f) for f in files], "main": main, "traditional": trad}
                     for (k, d, files, main, trad, expect, texts, real) in cases])
    for (k, d, files, main, trad, expect, texts, real), model in zip(cases, ans):
        run.evaluated()
        rep = {"input": {"files": texts, "main": main, "traditional": trad}}
        if real[0] == "internal":
            # C09's business as well; an internal exception is neither acceptance nor a parser error
            run.violation(dict(rep, kind="impl-vs-spec", observed_impl=real, expected_by_spec="accept or parser error"))
            continue
        mrule = None
        if "diag" in model:
            mrule = MODEL_ALIAS.get(model["diag"]["rule"], model["diag"]["rule"])
        if expect is None or expect[0] == "ACCEPT":
            run.count("valid" if expect is None else "boundary-accept")
            if real[0] != "ok":
                run.violation(dict(rep, kind="impl-vs-spec", observed_impl=real[1:], expected_by_spec="accepted (satisfies every documented constraint)",
                                   model_answer=model))
                continue
            if "ok" not in model:
                run.notes.setdefault("model_disagreements", []).append(dict(rep, observed_impl="accepted", model_answer=model))
                continue
            # C11: which definition every name resolved to (elaborated types), three ways
            rm = real_messages(real[1])
            mm = {m["path"]: m["ty"] for m in model["ok"]}
            for path, ty in rm.items():
                run.nontrivial((focus, "elab", path, str(ty)[:200]))
            if k % 40 == 0:
                run.sample({"files": texts, "messages": rm}, limit=2)
            if rm != mm:
                diff = [p for p in set(rm) | set(mm) if rm.get(p) != mm.get(p)]
                # the reference is the documented resolution rule; the harness' own resolver produced the
                # program, the Lean reference re-resolves it independently: real != reference is a violation
                run.violation(dict(rep, kind="impl-vs-spec", observed_impl={p: rm.get(p) for p in diff[:3]},
                                   expected_by_spec={p: mm.get(p) for p in diff[:3]},
                                   note="a name resolved to a different definition than the innermost visible earlier one"))
            continue
        rule, vfile, vitem = expect
        line = vitem.get("line")
        run.count(f"mutant:{rule}")
        run.nontrivial((focus, "mutant", rule, vfile == main, line))
        if real[0] == "ok":
            run.violation(dict(rep, kind="impl-vs-spec", observed_impl="accepted", expected_by_spec={"reject": rule, "file": vfile, "line": line},
                               model_answer=model))
            continue
        rrule = RULE_OF_CLASS.get(real[1], real[1])
        if rrule == "os-error":
            ok = rule == "os-error"
        else:
            ok = rrule == rule and real[2] == vfile and real[3] == line
        if not ok:
            run.violation(dict(rep, kind="impl-vs-spec", observed_impl={"class": real[1], "file": real[2], "line": real[3]},
                               expected_by_spec={"rule": rule, "file": vfile, "line": line}, model_answer=model))
            continue
        if mrule != rule or (rule != "os-error" and (model["diag"]["file"] != vfile or model["diag"]["line"] != line)):
            run.notes.setdefault("model_disagreements", []).append(dict(rep, observed_impl=real[1:], model_answer=model,
                                                                         expected={"rule": rule, "file": vfile, "line": line}))
        # CLI: non-zero exit, diagnostic citing file:L<line>, no generated file
        if cli_budget > 0 and k % 3 == 0:
            out = os.path.join(d, "out")
            os.makedirs(out, exist_ok=True)
            p = subprocess.run([common.PY, "-m", "bitproto._main", "py", main, "out"] + (["-O"] if False else []), cwd=d, capture_output=True, text=True,
                               env={**os.environ, "PYTHONPATH": f"{common.REPO}/compiler:{common.REPO}/lib/py", "PYTHONDONTWRITEBYTECODE": "1"})
            if not trad:
                run.count("cli_rejections")
                cited = rule == "os-error" or f"{vfile}:L{line}" in p.stderr
                if p.returncode == 0 or os.listdir(out) or not cited or "Traceback" in p.stderr:
                    run.violation(dict(rep, kind="impl-vs-spec", observed_impl={"exit": p.returncode, "stderr": p.stderr[-400:], "written": os.listdir(out)},
                                       expected_by_spec=f"non-zero exit, diagnostic citing {vfile}:L{line}, no generated file"))


def check_c11(run: common.Run, drv: common.Driver, rng: random.Random, tier: str) -> None:
    check(run, drv, rng, tier, focus="C11")
