"""Correspondence of the small executable Lean models that back C10 / C16 / C17 / C18 / C20 with the
real code (the property harnesses themselves compare the real code with the documented behaviour;
these ties compare it with the MODEL the theorems are about, through the native driver).

A disagreement is recorded under `model_disagreements` (tools/check.py then searches for a failing
input and otherwise reports `no-failing-input-found`); it is never a violation by itself.
"""
from __future__ import annotations

import io
import os
import random
import contextlib
from typing import Any, Dict, List, Optional, Tuple

from . import common
from . import gen as G
from . import real as R


def _disagree(run: common.Run, item: Dict[str, Any]) -> None:
    run.notes.setdefault("model_disagreements", []).append(item)


# ------------------------------------------------------------------ C16: Spec.json vs to_dict()
def _canon(t: Any, x: Any) -> Any:
    """generated-Python to_dict() value -> the model's JSON shape (objects keyed by field number)"""
    if isinstance(t, G.TBool):
        return bool(x)
    if isinstance(t, G.TArray):
        return [_canon(t.elem, e) for e in list(x)]
    if isinstance(t, G.TRef):
        d = t.d
        if isinstance(d, G.AliasDef):
            return _canon(d.type, x)
        if isinstance(d, G.MsgDef):
            return {str(f.num): _canon(f.type, x[f.name]) for f in d.fields}
    return int(x)


def tie_json(run: common.Run, drv: common.Driver, rng: random.Random, n: int) -> None:
    reqs, reals, ctx = [], [], []
    for k in range(n):
        g = G.SchemaGen(rng, G.GenOpts(max_depth=2, max_fields=5, max_bits=1200, big_prob=0.0))
        s = g.schema()
        text = G.schema_text(s)
        with R.Scratch() as sc:
            path = sc.write(f"{s.proto}.bitproto", text)
            try:
                proto = R.parse_file(path)
                mod = R.load_py_module(R.render_strings(proto, "py")[".py"], "tiejson")
            except Exception as ex:  # not this tie's business
                run.count("tie_json_skipped:" + type(ex).__name__)
                continue
        try:
            for m in s.messages():
                v = G.rand_msg_value(rng, m)
                try:
                    real = _canon(G.TRef(m), R.py_build(mod, m, v).to_dict())
                except Exception as ex:
                    run.count("tie_json_real_exc:" + type(ex).__name__)
                    continue
                reqs.append({"op": "json.render", "ty": G.msg_ty_json(m), "val": G.msg_val_json(m, v)})
                reals.append(real)
                ctx.append({"schema": text, "message": G.py_name(m)})
        finally:
            R.unload(mod)
    for q, real, c, ans in zip(reqs, reals, ctx, drv.batch(reqs)):
        run.count("tie_json")
        if ans.get("ok") != real:
            _disagree(run, dict(c, what="Spec.json vs generated to_dict()", value=q["val"], observed_impl=real, model_answer=ans))


# ------------------------------------------------------------------ C17 / C18 / C20: Cli.main vs _main.main
LANGS = ["c", "go", "py", "rust", ""]


def tie_cli(run: common.Run, drv: common.Driver, rng: random.Random, n: int) -> None:
    from bitproto import _main as M
    from bitproto.linter import lint
    from bitproto.parser import parse

    # `fatal` ends the process with os._exit; in-process it is replaced by a SystemExit of the same code
    def _fatal(s: str = "", code: int = 1):
        raise SystemExit(code)

    orig_fatal, M.fatal = M.fatal, _fatal
    try:
        _tie_cli(run, drv, rng, n, M, lint, parse)
    finally:
        M.fatal = orig_fatal


def _tie_cli(run, drv, rng, n, M, lint, parse) -> None:
    reqs, reals, ctx = [], [], []
    with R.Scratch() as sc:
        for k in range(n):
            ext = rng.random() < 0.4
            g = G.SchemaGen(rng, G.GenOpts(max_depth=1, max_fields=3, allow_ext=ext, max_bits=600, big_prob=0.0, enum_zero_first=rng.random() < 0.7))
            s = g.schema()
            text = G.schema_text(s)
            broken = rng.random() < 0.15
            if broken:
                text += "\nmessage Broken { uint65 x = 1 }\n"
            if rng.random() < 0.3:
                text += "\nmessage lower_name { uint3 X = 1 }\n"  # lint warnings, still valid
            d = sc.path(f"t{k}")
            os.makedirs(d)
            path = os.path.join(d, f"{s.proto}.bitproto")
            open(path, "w").write(text)
            has_ext = "'" in text
            # what the parser / linter report for this input (the model's World), measured on the real ones
            buf = io.StringIO()
            try:
                with contextlib.redirect_stderr(buf), contextlib.redirect_stdout(buf):
                    proto = parse(path)
                    warnings = lint(proto)
                other_error = False
            except Exception:
                other_error, warnings = True, 0
            msgs = [m.name for m in s.defs if isinstance(m, G.MsgDef)]
            for _ in range(4):
                lang = rng.choice(LANGS)
                check, optimize, quiet = rng.random() < 0.25, rng.random() < 0.5, rng.random() < 0.4
                filt = rng.sample(msgs, min(len(msgs), rng.randint(1, 2))) if rng.random() < 0.35 and msgs else []
                out = os.path.join(d, f"out{len(reqs)}")
                os.makedirs(out)
                code = 0
                try:
                    with contextlib.redirect_stderr(buf), contextlib.redirect_stdout(buf):
                        M.main(path, lang=lang, outdir=out, disable_linter=quiet, check=check, enable_optimize=optimize,
                               filter_messages=filt or None)
                except SystemExit as e:
                    code = e.code if isinstance(e.code, int) else 1
                except Exception as ex:
                    code = "internal:" + type(ex).__name__
                written = sorted(os.listdir(out))
                files = {"c": [f"{s.proto}_bp.c", f"{s.proto}_bp.h"], "go": [f"{s.proto}_bp.go"], "py": [f"{s.proto}_bp.py"]}.get(lang, [])
                reqs.append({"op": "cli.main", **({"lang": lang} if lang else {}), "check": check, "optimize": optimize, "filter": filt, "quiet": quiet,
                             "world": {"other_error": other_error, "has_ext": has_ext, "warnings": warnings, "known": ["c", "go", "py"],
                                       "supports_o": ["c", "go"], "files": files}})
                reals.append({"exit": code, "written": written})
                ctx.append({"schema": text})
                run.count(f"tie_cli:exit={code}")
    for q, real, c, ans in zip(reqs, reals, ctx, drv.batch(reqs)):
        run.count("tie_cli")
        a = ans.get("ok")
        if not a or a["exit"] != real["exit"] or sorted(a["written"]) != real["written"]:
            _disagree(run, dict(c, what="Cli.main vs bitproto._main.main", request={k: v for k, v in q.items() if k != "op"}, observed_impl=real, model_answer=ans))


def tie_emitted(run: common.Run, drv: common.Driver, rng: random.Random, n: int) -> None:
    """Cli.emitted (the -F filter) vs the Encode functions present in real `c -O -F` output"""
    import re

    reqs, reals, ctx = [], [], []
    with R.Scratch() as sc:
        for k in range(n):
            g = G.SchemaGen(rng, G.GenOpts(max_depth=1, max_fields=3, allow_ext=False, allow_nested_defs=False, max_bits=600, big_prob=0.0))
            s = g.schema()
            text = G.schema_text(s)
            path = sc.write(f"e{k}/{s.proto}.bitproto", text)
            msgs = [m.name for m in s.defs if isinstance(m, G.MsgDef)]
            pool = msgs + ["Nope"] + [m.lower() for m in msgs[:1]]
            filt = rng.sample(pool, rng.randint(1, min(3, len(pool))))
            try:
                proto = R.parse_file(path, traditional=True)
                ctext = R.render_strings(proto, "c", optimize=True, filter_messages=filt)[".c"]
            except Exception as ex:
                run.count("tie_emitted_skipped:" + type(ex).__name__)
                continue
            got = re.findall(r"^int Encode(\w+)\(", ctext, re.M)
            reqs.append({"op": "cli.emitted", "messages": msgs, "filter": filt})
            reals.append(sorted(got))
            ctx.append({"schema": text, "filter": filt})
    for q, real, c, ans in zip(reqs, reals, ctx, drv.batch(reqs)):
        run.count("tie_emitted")
        if sorted(ans.get("ok", [])) != real:
            _disagree(run, dict(c, what="Cli.emitted vs Encode functions of c -O -F", observed_impl=real, model_answer=ans))


# ------------------------------------------------------------------ C10: emission order
def tie_emit(run: common.Run, drv: common.Driver, rng: random.Random, n: int) -> None:
    """C10.emit (children first, siblings in order) vs the order of struct / class declarations in the
    real C and Python output"""
    import re

    reqs, reals, ctx = [], [], []
    for k in range(n):
        g = G.SchemaGen(rng, G.GenOpts(max_depth=3, max_fields=2, allow_enum=False, allow_alias=False, max_bits=600, big_prob=0.0))
        s = g.schema()
        text = G.schema_text(s)
        ids: Dict[str, int] = {}

        def tree(m: G.MsgDef) -> Dict[str, Any]:
            ids["".join(G.scope_names(m))] = len(ids) + 1
            me = ids["".join(G.scope_names(m))]
            return {"id": me, "children": [tree(c) for c in m.nested if isinstance(c, G.MsgDef)]}

        defs = [tree(d) for d in s.defs if isinstance(d, G.MsgDef)]
        with R.Scratch() as sc:
            path = sc.write(f"{s.proto}.bitproto", text)
            try:
                proto = R.parse_file(path)
                h = R.render_strings(proto, "c")[".h"]
                py = R.render_strings(proto, "py")[".py"]
            except Exception as ex:
                run.count("tie_emit_skipped:" + type(ex).__name__)
                continue
        order_c = [ids.get(x) for x in re.findall(r"^struct (\w+) \{", h, re.M)]
        order_py = [ids.get(x.replace("_", "")) for x in re.findall(r"^class (\w+)\(bp\.MessageBase\)", py, re.M)]
        reqs.append({"op": "emit.order", "defs": defs})
        reals.append((order_c, order_py))
        ctx.append({"schema": text})
    for q, real, c, ans in zip(reqs, reals, ctx, drv.batch(reqs)):
        run.count("tie_emit")
        if ans.get("ok") != real[0] or ans.get("ok") != real[1]:
            _disagree(run, dict(c, what="C10.emitAll vs declaration order in .h / .py", observed_impl=real, model_answer=ans))


# ------------------------------------------------------------------ C18: memoisation
def tie_memo(run: common.Run, drv: common.Driver, rng: random.Random, n: int) -> None:
    """C18.Memo.get vs `cache_if_frozen` on real Node objects: set (unfrozen only) / freeze / get"""
    from dataclasses import dataclass

    from bitproto._ast import Node, cache_if_frozen
    from bitproto.utils import frozen

    @frozen(post_init=False)
    @dataclass
    class N(Node):
        val: int = 0

        @cache_if_frozen
        def get(self) -> int:
            return self.val

    reqs, reals = [], []
    for k in range(n):
        nodes = [N() for _ in range(rng.randint(1, 4))]
        isf = [False] * len(nodes)
        ops: List[List[Any]] = []
        out: List[int] = []
        for _ in range(rng.randint(3, 25)):
            i = rng.randrange(len(nodes))
            c = rng.random()
            if c < 0.35 and not isf[i]:
                v = rng.randint(-5, 5)
                nodes[i].val = v
                ops.append(["set", i, v])
            elif c < 0.5 and not isf[i]:
                nodes[i].freeze()
                isf[i] = True
                ops.append(["freeze", i])
            else:
                out.append(nodes[i].get())
                ops.append(["get", i])
        reqs.append({"op": "memo.run", "ops": ops})
        reals.append(out)
    for q, real, ans in zip(reqs, reals, drv.batch(reqs)):
        run.count("tie_memo")
        if ans.get("ok") != real:
            _disagree(run, dict(what="C18.Memo vs cache_if_frozen", ops=q["ops"], observed_impl=real, model_answer=ans))


# ------------------------------------------------------------------ C20: lint rules
def tie_lint(run: common.Run, drv: common.Driver, rng: random.Random, n: int) -> None:
    """warnsPascal / warnsUpper / warnsEnumNoZero vs the real lint rules (names overridden on a parsed definition)"""
    from bitproto import linter as L

    with R.Scratch() as sc:
        path = sc.write("lint_tie.bitproto", "proto lint_tie\nconst KK = 1\ntype Al = uint3\nenum En : uint3 {\n    EN_A = 0\n}\nmessage Msg {\n    uint3 f = 1\n}\n")
        proto = R.parse_file(path)
    const, alias, enum, msg = proto.members["KK"], proto.members["Al"], proto.members["En"], proto.members["Msg"]
    efield = list(enum.fields())[0]
    words = ["", "A", "a", "Ab", "aB", "AB", "ABC", "ABc", "A_B", "a_b", "_A", "A_", "A1", "a1", "1", "_", "Zoo", "zoo", "ZooMonkey", "Zoo_Monkey", "HTTPServer",
             "MAX_AGE", "Max_Age", "max_age", "M4X", "__"]
    for _ in range(n):
        words.append("".join(rng.choice("abzABZ_01") for _ in range(rng.randint(1, 8))))
    reqs, reals = [], []
    for w in words:
        if not w:
            continue
        for rule, d, kind in ((L.RuleMessageNamingPascal(), msg, "pascal"), (L.RuleEnumNamingPascal(), enum, "pascal"), (L.RuleAliasNamingPascal(), alias, "pascal"),
                              (L.RuleConstantNamingUpper(), const, "upper"), (L.RuleEnumFieldNamingUpper(), efield, "upper")):
            reqs.append({"op": "lint.name", "rule": kind, "name": w})
            reals.append(rule.check(d, name=w) is not None)
    for q, real, ans in zip(reqs, reals, drv.batch(reqs)):
        run.count("tie_lint")
        if ans.get("ok") != real:
            _disagree(run, dict(what="lint naming rule vs C20.warns*", request=q, observed_impl=real, model_answer=ans))
    # enum-contains-0
    reqs, reals = [], []
    with R.Scratch() as sc:
        for k in range(max(10, n // 10)):
            vals = rng.sample(range(0, 8), rng.randint(1, 5))
            body = "".join(f"    E_{chr(65 + i)} = {v}\n" for i, v in enumerate(vals))
            p = sc.write(f"l{k}.bitproto", f"proto l{k}\nenum En : uint3 {{\n{body}}}\n")
            e = R.parse_file(p).members["En"]
            reqs.append({"op": "lint.enum0", "values": vals})
            reals.append(L.RuleEnumContains0().check(e) is not None)
    for q, real, ans in zip(reqs, reals, drv.batch(reqs)):
        run.count("tie_lint_enum0")
        if ans.get("ok") != real:
            _disagree(run, dict(what="enum-contains-0 rule vs C20.warnsEnumNoZero", request=q, observed_impl=real, model_answer=ans))


# ------------------------------------------------------------------ C20: lint is advisory, on odd but valid schemas
ODD_VALID = {
    "empty_enum": "proto odd\nenum E : uint3 {}\nmessage M { uint3 x = 1 }\n",
    "enum_only_comments": "proto odd\nenum E : uint3 {\n    // nothing yet\n\n}\nmessage M { bool b = 1 }\n",
    "empty_message": "proto odd\nmessage M {}\n",
    "nested_empty": "proto odd\nmessage Outer {\n    message Inner {}\n    enum Kind : uint1 {}\n    Inner i = 1\n}\n",
    "lower_names": "proto odd\nconst lower = 1\ntype alias_t = uint3\nenum color : uint2 { red = 1 }\nmessage msg { uint3 Field = 1 }\n",
    "no_final_newline": "proto odd\nmessage M { uint3 x = 1 }",
    "many_warnings": "proto odd\n" + "".join(f"const lower_{i} = {i}\n" for i in range(256)),  # exactly 256 warnings: an exit status that is a warning COUNT wraps to 0
}


def lint_advisory_fixed(run: common.Run) -> None:
    """the same schema with and without -q: same exit status, byte-identical files (the linter only warns); check-only
    mode exits non-zero exactly when there is a warning — also when there are 256 of them"""
    import subprocess

    env = {**os.environ, "PYTHONPATH": f"{common.REPO}/compiler:{common.REPO}/lib/py", "PYTHONDONTWRITEBYTECODE": "1"}
    with R.Scratch() as sc:
        for name, text in ODD_VALID.items():
            d = sc.path(name)
            os.makedirs(d)
            open(os.path.join(d, "odd.bitproto"), "w").write(text)
            res = {}
            for q in (False, True):
                for lang in ("c", "py"):
                    out = os.path.join(d, f"out_{lang}_{int(q)}")
                    os.makedirs(out)
                    p = subprocess.run([common.PY, "-m", "bitproto._main", lang, "odd.bitproto", out] + (["-q"] if q else []), cwd=d,
                                       capture_output=True, text=True, env=env)
                    files = {f: open(os.path.join(out, f)).read() for f in sorted(os.listdir(out))}
                    res[(lang, q)] = (p.returncode, files, p.stderr)
            pc = subprocess.run([common.PY, "-m", "bitproto._main", "-c", "odd.bitproto"], cwd=d, capture_output=True, text=True, env=env)
            nwarn = pc.stderr.count("warning:")
            run.evaluated()
            run.count("lint_advisory_fixed")
            rep = {"input": {"files": {"odd.bitproto": text}}, "case": name}
            for lang in ("c", "py"):
                a, b = res[(lang, False)], res[(lang, True)]
                if a[0] != b[0] or a[1] != b[1] or "Traceback" in a[2]:
                    run.violation(dict(rep, kind="impl-vs-spec", language=lang,
                                       observed_impl={"with_lint": {"exit": a[0], "files": sorted(a[1]), "stderr": a[2][-300:]},
                                                      "with_-q": {"exit": b[0], "files": sorted(b[1])}},
                                       expected_by_spec="lint never changes acceptance or output: same exit status and byte-identical files"))
            if (pc.returncode != 0) != (nwarn > 0) or "Traceback" in pc.stderr:
                run.violation(dict(rep, kind="impl-vs-spec", observed_impl={"check_only_exit": pc.returncode, "warnings": nwarn, "stderr": pc.stderr[-300:]},
                                   expected_by_spec="check-only mode exits non-zero exactly when there is an error or a warning"))


# ------------------------------------------------------------------ C16: JSON as text
def _jt(t: Any, v: Any) -> Any:
    """abstract value -> order-preserving wire form of JsonText.JT (members in field-number order, keyed by NAME)"""
    if isinstance(t, G.TBool):
        return bool(v)
    if isinstance(t, G.TArray):
        return [_jt(t.elem, e) for e in v]
    if isinstance(t, G.TRef):
        d = t.d
        if isinstance(d, G.AliasDef):
            return _jt(d.type, v)
        if isinstance(d, G.MsgDef):
            return {"o": [[f.name, _jt(f.type, v[f.num])] for f in sorted(d.fields, key=lambda f: f.num)]}
    return int(v)


def tie_json_text(run: common.Run, drv: common.Driver, rng: random.Random, n: int, n_c: int) -> None:
    """JsonText.renderWith vs the TEXT written by the real C `Json<Msg>()` (compact) and by Python `to_json()` (json.dumps'
    default separators) — exact string equality"""
    from . import creal

    reqs, reals, ctx = [], [], []
    with R.Scratch() as sc:
        for k in range(n):
            g = G.SchemaGen(rng, G.GenOpts(max_depth=2, max_fields=5, max_bits=900, big_prob=0.0, enum_zero_first=True))
            s = g.schema()
            text = G.schema_text(s)
            base = f"jt{k}_{rng.randrange(1 << 30)}"
            try:
                path = sc.write(f"{base}.bitproto", text)
                proto = R.parse_file(path)
                mod = R.load_py_module(R.render_strings(proto, "py")[".py"], "tiejsontext")
                cm = creal.CModule(sc, s, text, base) if k < n_c else None
            except Exception as ex:
                run.count("tie_json_text_skipped:" + type(ex).__name__)
                continue
            try:
                for m in s.messages():
                    v = G.rand_msg_value(rng, m)
                    val = _jt(G.TRef(m), v)
                    try:
                        py_text = R.py_build(mod, m, v).to_json()
                    except Exception as ex:
                        run.count("tie_json_text_real_exc:" + type(ex).__name__)
                        continue
                    reqs.append({"op": "jsontext.render", "py": True, "value": val})
                    reals.append(py_text)
                    ctx.append({"schema": text, "message": G.py_name(m), "lang": "py"})
                    if cm is not None:
                        reqs.append({"op": "jsontext.render", "value": val})
                        reals.append(cm.json(m, v))
                        ctx.append({"schema": text, "message": G.py_name(m), "lang": "c"})
            finally:
                R.unload(mod)
    for q, real, c, ans in zip(reqs, reals, ctx, drv.batch(reqs)):
        run.count("tie_json_text:" + c["lang"])
        if ans.get("ok") != real:
            _disagree(run, dict(c, what="JsonText.renderWith vs the real JSON text", observed_impl=real[:400], model_answer=str(ans)[:400]))


# ------------------------------------------------------------------ C17: -F arguments that contain no name
def cli_filter_edges(run: common.Run) -> None:
    """`-F` values made of commas and blanks only: still a filter (refused without -O; with -O it selects no message)"""
    import re
    import subprocess

    env = {**os.environ, "PYTHONPATH": f"{common.REPO}/compiler:{common.REPO}/lib/py", "PYTHONDONTWRITEBYTECODE": "1"}
    text = "proto edge\nmessage Alpha {\n    uint3 a = 1\n}\nmessage Beta {\n    Alpha x = 1\n    bool b = 2\n}\n"
    with R.Scratch() as sc:
        for fval in (",", " , ", ",,", "Alpha,", ",Beta", "Alpha, ,Beta"):
            names = [x.strip() for x in fval.split(",")]
            want = sorted({"Alpha", "Beta"} & set(names))
            for lang in ("c", "go"):
                d = sc.path(f"f{abs(hash((fval, lang))) % 10**8}")
                os.makedirs(os.path.join(d, "o1"))
                os.makedirs(os.path.join(d, "o2"))
                open(os.path.join(d, "edge.bitproto"), "w").write(text)
                p1 = subprocess.run([common.PY, "-m", "bitproto._main", lang, "edge.bitproto", "o1", "-q", "-F", fval], cwd=d, capture_output=True, text=True, env=env)
                p2 = subprocess.run([common.PY, "-m", "bitproto._main", lang, "edge.bitproto", "o2", "-q", "-O", "-F", fval], cwd=d, capture_output=True, text=True, env=env)
                run.evaluated()
                run.count("cli_filter_edges")
                rep = {"input": {"files": {"edge.bitproto": text}, "argv": [lang, "edge.bitproto", "out", "-F", fval]}}
                if p1.returncode == 0 or os.listdir(os.path.join(d, "o1")):
                    run.violation(dict(rep, kind="impl-vs-spec", observed_impl={"exit": p1.returncode, "files": os.listdir(os.path.join(d, "o1"))},
                                       expected_by_spec="-F without -O is refused: non-zero exit, no output"))
                got = []
                for fn in os.listdir(os.path.join(d, "o2")):
                    if fn.endswith((".c", ".go")):
                        src = open(os.path.join(d, "o2", fn)).read()
                        got += re.findall(r"^int Encode(\w+)\(", src, re.M) + re.findall(r"^func \(m \*(\w+)\) Encode\(\)", src, re.M)
                if p2.returncode != 0 or sorted(got) != want:
                    run.violation(dict(rep, argv_O=True, kind="impl-vs-spec", observed_impl={"exit": p2.returncode, "encoders": sorted(got), "stderr": p2.stderr[-200:]},
                                       expected_by_spec={"encoders": want, "note": "-O -F emits functions for exactly the listed messages"}))


        # (a) messages of different parents whose names differ only in letter case (Left.IMU / Right.Imu): -F selects by the
        #     schema name, exactly; (b) a second compilation INTO THE SAME directory with another filter: the files on disk are
        #     those of the last command
        twins = ("proto twins\nmessage Left {\n    message IMU {\n        uint3 a = 1\n    }\n    IMU i = 1\n}\n"
                 "message Right {\n    message Imu {\n        uint5 b = 1\n    }\n    Imu i = 1\n}\n")

        def encoders(dirname: str) -> list:
            got = []
            for fn in sorted(os.listdir(dirname)):
                if fn.endswith((".c", ".go")):
                    src = open(os.path.join(dirname, fn)).read()
                    got += re.findall(r"^int Encode(\w+)\(", src, re.M) + re.findall(r"^func \(m \*(\w+)\) Encode\(\)", src, re.M)
            return sorted(got)

        for lang in ("c", "go"):
            d = sc.path(f"twins_{lang}")
            os.makedirs(d)
            open(os.path.join(d, "twins.bitproto"), "w").write(twins)

            def compile_to(out: str, *flags: str):
                os.makedirs(os.path.join(d, out), exist_ok=True)
                return subprocess.run([common.PY, "-m", "bitproto._main", lang, "twins.bitproto", out, "-q", "-O", *flags], cwd=d, capture_output=True, text=True, env=env)

            compile_to("all")
            every = encoders(os.path.join(d, "all"))
            left_inner = [x for x in every if x.startswith("Left") and x != "Left"]
            right_inner = [x for x in every if x.startswith("Right") and x != "Right"]
            rep = {"input": {"files": {"twins.bitproto": twins}, "language": lang}}
            run.evaluated()
            run.count("cli_filter_case_twins")
            if len(every) != 4 or len(left_inner) != 1 or len(right_inner) != 1:
                run.violation(dict(rep, kind="impl-vs-spec", observed_impl={"encoders without -F": every}, expected_by_spec="four messages, four encoders"))
                continue
            for fval, want in (("Imu", right_inner), ("IMU", left_inner), ("imu", []), ("Left,Imu", sorted(["Left"] + right_inner))):
                out = "f_" + fval.replace(",", "_")
                p = compile_to(out, "-F", fval)
                got = encoders(os.path.join(d, out))
                run.evaluated()
                if p.returncode != 0 or got != want:
                    run.violation(dict(rep, kind="impl-vs-spec", argv=[lang, "twins.bitproto", "out", "-O", "-F", fval],
                                       observed_impl={"exit": p.returncode, "encoders": got, "stderr": p.stderr[-200:]},
                                       expected_by_spec={"encoders": want, "note": "-F selects messages by their schema name, exactly those"}))
            # same directory, three commands in a row
            for step, (flags, want) in enumerate(((("-F", "Left"), ["Left"]), ((), every), (("-F", "Right"), ["Right"]))):
                p = compile_to("same", *flags)
                got = encoders(os.path.join(d, "same"))
                run.evaluated()
                run.count("cli_filter_recompile_same_dir")
                if p.returncode != 0 or got != want:
                    run.violation(dict(rep, kind="impl-vs-spec", argv=[lang, "twins.bitproto", "same", "-O", *flags],
                                       note=f"command {step + 1} of 3 into the same output directory",
                                       observed_impl={"exit": p.returncode, "encoders": got, "stderr": p.stderr[-200:]},
                                       expected_by_spec={"encoders": want, "note": "the written files are those of THIS command, whatever an earlier one left there"}))


# ------------------------------------------------------------------ C18: deterministic output, fixed shapes
LONG = "TelemetryAggregationWindowDescriptor"
DET_SCHEMAS = {
    # generated internal names far beyond 63 characters
    "longnames": f"proto longnames\nmessage {LONG}Outer {{\n    message {LONG}Middle {{\n        message {LONG}Inner {{\n            uint3 x = 1\n"
                 f"            byte[3] payload_bytes_of_the_inner = 2\n        }}\n        {LONG}Inner[2] inner_items = 1\n    }}\n    {LONG}Middle middle = 1\n}}\n"
                 f"type {LONG}AliasOfAnArrayOfBytes = byte[5]\n",
    "plain": "proto plain\nenum E : uint3 {\n    E_A = 0\n    E_B = 5\n}\nmessage M {\n    E e = 1\n    int13[3] v = 2\n}\n",
}


def determinism_fixed(run: common.Run) -> None:
    """the same schema compiled under several hash seeds, and into an output directory that already holds a LONGER stale
    file of the same name, gives byte-identical files"""
    import hashlib
    import subprocess

    base_env = {**os.environ, "PYTHONPATH": f"{common.REPO}/compiler:{common.REPO}/lib/py", "PYTHONDONTWRITEBYTECODE": "1"}
    with R.Scratch() as sc:
        for name, text in DET_SCHEMAS.items():
            for lang in ("c", "go", "py"):
                ref = None
                for variant in ("seed0", "seed1", "seed-random", "stale-longer-file", "stale-same-file"):
                    d = sc.path(f"{name}_{lang}_{variant}")
                    os.makedirs(os.path.join(d, "out"))
                    open(os.path.join(d, f"{name}.bitproto"), "w").write(text)
                    env = dict(base_env, PYTHONHASHSEED={"seed1": "1", "seed-random": "random"}.get(variant, "0"))
                    if variant.startswith("stale"):
                        for ext in {"c": (".c", ".h"), "go": (".go",), "py": (".py",)}[lang]:
                            stale = (ref[f"{name}_bp{ext}"] if variant == "stale-same-file" and ref else "") + \
                                    ("// stale tail from an earlier, longer revision\n" * 400 if variant == "stale-longer-file" else "")
                            open(os.path.join(d, "out", f"{name}_bp{ext}"), "w").write(stale)
                    p = subprocess.run([common.PY, "-m", "bitproto._main", lang, f"{name}.bitproto", "out", "-q"], cwd=d, capture_output=True, text=True, env=env)
                    files = {f: open(os.path.join(d, "out", f)).read() for f in sorted(os.listdir(os.path.join(d, "out")))}
                    run.evaluated()
                    run.count("determinism_fixed")
                    if ref is None:
                        ref = files
                        continue
                    if p.returncode != 0 or files != ref:
                        diff = [f for f in set(files) | set(ref) if files.get(f) != ref.get(f)]
                        run.violation({"kind": "impl-vs-spec", "input": {"files": {f"{name}.bitproto": text}, "language": lang, "variant": variant},
                                       "observed_impl": {"exit": p.returncode, "differing_files": diff,
                                                         "sha256": {f: hashlib.sha256(files.get(f, "").encode()).hexdigest()[:16] for f in diff}},
                                       "expected_by_spec": "byte-identical to the first compilation (PYTHONHASHSEED=0, empty output directory)"})
