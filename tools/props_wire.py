"""Correspondence and failing-input search for the Python wire properties (C01, C02).

For every generated schema the REAL compiler (from /repo) parses the text, renders Python, the
generated module is executed, and for every message and value three things are compared:

  real encode()      vs  spec.encode  (the property itself; the Lean specification is the oracle)
  real encode()      vs  py.encode    (the tie: the hand-written model PyRt against the code)
  real decode(...)   vs  spec.decode / py.decode, and the re-encoded bytes
"""
from __future__ import annotations

import random
from typing import Any, Dict, List, Optional, Tuple

from . import common
from . import gen as G
from . import real as R


def enum_default_adjust(t, v):
    """what decode yields under KF-py-enum-default: every enum leaf OR-ed with the enum's
    first declared member (the fresh message's default)"""
    if isinstance(t, G.TArray):
        return [enum_default_adjust(t.elem, x) for x in v]
    if isinstance(t, G.TRef):
        d = t.d
        if isinstance(d, G.EnumDef):
            return v | d.members[0][1]
        if isinstance(d, G.AliasDef):
            return enum_default_adjust(d.type, v)
        if isinstance(d, G.MsgDef):
            return {f.num: enum_default_adjust(f.type, v[f.num]) for f in d.fields}
    return v


def has_nonzero_first_enum(t) -> bool:
    if isinstance(t, G.TArray):
        return has_nonzero_first_enum(t.elem)
    if isinstance(t, G.TRef):
        d = t.d
        if isinstance(d, G.EnumDef):
            return d.members[0][1] != 0
        if isinstance(d, G.AliasDef):
            return has_nonzero_first_enum(d.type)
        if isinstance(d, G.MsgDef):
            return any(has_nonzero_first_enum(f.type) for f in d.fields)
    return False


def shape_key(m: G.MsgDef) -> Tuple:
    """coarse canonical form of a message type used to count distinct non-trivial cases:
    (leaf kind, width, stream offset mod 8) triples"""
    out = []

    def walk(t, off):
        if isinstance(t, G.TArray):
            if t.ext:
                out.append(("cap", 16, off % 8))
                off += 16
            for _ in range(min(t.cap, 3)):
                off = walk(t.elem, off)
            return off + max(0, t.cap - 3) * G.nbits(t.elem)
        if isinstance(t, G.TRef):
            d = t.d
            if isinstance(d, G.EnumDef):
                out.append(("enum", d.nbits, off % 8))
                return off + d.nbits
            if isinstance(d, G.AliasDef):
                return walk(d.type, off)
            if isinstance(d, G.MsgDef):
                if d.ext:
                    out.append(("size", 16, off % 8))
                    off += 16
                for f in sorted(d.fields, key=lambda f: f.num):
                    off = walk(f.type, off)
                return off
        out.append((type(t).__name__, G.nbits(t), off % 8))
        return off + G.nbits(t)

    walk(G.TRef(m), 0)
    return tuple(out)


class Case:
    __slots__ = ("schema_text", "msg", "val", "real_enc", "real_dec", "real_reenc", "idx", "fname")


def run_python_cases(run: common.Run, rng: random.Random, n_schemas: int, n_values: int, opts: G.GenOpts,
                     want_decode: bool) -> List[Case]:
    """generate schemas/values, execute the real generated Python; returns the cases"""
    cases: List[Case] = []
    with R.Scratch() as sc:
        for k in range(n_schemas):
            g = G.SchemaGen(rng, opts)
            s = g.schema()
            text = G.schema_text(s, rng)
            path = sc.write(f"s{k}.bitproto", text)
            try:
                proto = R.parse_file(path)
                out = R.render_strings(proto, "py")
                mod = R.load_py_module(out[".py"], f"s{k}")
            except Exception as e:  # the generator emits only valid schemas
                run.violation({"kind": "compile-failed", "input": {"files": {"main.bitproto": text}},
                               "observed_impl": f"{type(e).__name__}: {e}",
                               "expected_by_spec": "a valid schema compiles to importable Python"})
                continue
            for m in s.messages():
                for _ in range(n_values):
                    c = Case()
                    c.schema_text = text
                    c.msg = m
                    c.val = G.rand_msg_value(rng, m)
                    c.real_dec = None
                    c.real_reenc = None
                    try:
                        obj = R.py_build(mod, m, c.val)
                        c.real_enc = ("ok", bytes(obj.encode()).hex())
                    except Exception as e:
                        c.real_enc = ("exc", type(e).__name__)
                    if want_decode and c.real_enc[0] == "ok":
                        try:
                            o2 = getattr(mod, G.py_name(m))()
                            o2.decode(bytearray.fromhex(c.real_enc[1]))
                            try:
                                c.real_dec = ("ok", R.py_read(m, o2))
                            except ValueError as e:
                                # reading an enum field whose integer is not a member
                                c.real_dec = ("exc-read", type(e).__name__)
                            try:
                                c.real_reenc = ("ok", bytes(o2.encode()).hex())
                            except Exception as e:
                                c.real_reenc = ("exc", type(e).__name__)
                        except Exception as e:
                            c.real_dec = ("exc", type(e).__name__)
                    cases.append(c)
            R.unload(mod)
    return cases


def case_replay(c: Case, **kw) -> Dict[str, Any]:
    r = {"input": {"files": {"main.bitproto": c.schema_text}, "message": G.py_name(c.msg),
                   "ty": G.msg_ty_json(c.msg), "val": G.msg_val_json(c.msg, c.val)}}
    r.update(kw)
    return r


def check_c01(run: common.Run, drv: common.Driver, rng: random.Random, n_schemas: int, n_values: int) -> None:
    cases = run_python_cases(run, rng, n_schemas, n_values, G.GenOpts(), want_decode=False)
    reqs = []
    for c in cases:
        ty = G.msg_ty_json(c.msg)
        val = G.msg_val_json(c.msg, c.val)
        reqs.append({"op": "spec.encode", "ty": ty, "val": val})
        reqs.append({"op": "py.encode", "ty": ty, "val": val})
        reqs.append({"op": "spec.nbits", "ty": ty})
    ans = drv.batch(reqs)
    for k, c in enumerate(cases):
        spec, model, nb = ans[3 * k], ans[3 * k + 1], ans[3 * k + 2]
        run.evaluated()
        if k < 3:
            run.sample({"request": reqs[3 * k], "spec": spec, "real": c.real_enc})
        for t in shape_key(c.msg):
            run.count(f"leaf:{t[0]}")
            run.nontrivial(t)
        run.count("messages")
        if G.has_ext(G.TRef(c.msg)):
            run.count("with_extensible")
        real = c.real_enc
        exp_len = (G.msg_nbits(c.msg) + 7) // 8
        if "ok" not in spec or nb.get("ok") != G.msg_nbits(c.msg):
            run.violation(case_replay(c, kind="harness-vs-spec", observed_impl=real, expected_by_spec=spec,
                                      note="driver rejected the request or nbits differs from the harness' own count"))
            continue
        if real != ("ok", spec["ok"]) or len(spec["ok"]) != 2 * exp_len:
            run.violation(case_replay(c, kind="impl-vs-spec", observed_impl=real, expected_by_spec=spec,
                                      model_answer=model))
            continue
        m = ("ok", model["ok"]) if "ok" in model else ("exc", model.get("exc"))
        if m != real:
            run.notes.setdefault("model_disagreements", []).append(case_replay(c, observed_impl=real, model_answer=model))


def check_c02(run: common.Run, drv: common.Driver, rng: random.Random, n_schemas: int, n_values: int) -> None:
    cases = run_python_cases(run, rng, n_schemas, n_values, G.GenOpts(), want_decode=True)
    reqs = []
    for c in cases:
        ty = G.msg_ty_json(c.msg)
        val = G.msg_val_json(c.msg, c.val)
        reqs.append({"op": "spec.encode", "ty": ty, "val": val})
    enc = drv.batch(reqs)
    reqs = []
    for c, e in zip(cases, enc):
        ty = G.msg_ty_json(c.msg)
        reqs.append({"op": "spec.decode", "ty": ty, "bytes": e.get("ok", "")})
        reqs.append({"op": "py.decode", "ty": ty, "bytes": e.get("ok", "")})
    ans = drv.batch(reqs)
    kf_default = 0
    for k, c in enumerate(cases):
        spec_enc = enc[k]
        spec_dec, model_dec = ans[2 * k], ans[2 * k + 1]
        run.evaluated()
        if k < 3:
            run.sample({"request": reqs[2 * k + 1], "model": model_dec, "real": c.real_dec})
        for t in shape_key(c.msg):
            run.count(f"leaf:{t[0]}")
            run.nontrivial(t)
        if "ok" not in spec_enc or c.real_enc != ("ok", spec_enc["ok"]):
            # encode itself is C01's business; report here too, the round trip cannot be judged
            run.violation(case_replay(c, kind="impl-vs-spec", observed_impl=c.real_enc, expected_by_spec=spec_enc,
                                      note="encode differs from specification (see C01)"))
            continue
        # the specification's own round trip (harness/driver self-check)
        sv = G.msg_val_from_json(c.msg, spec_dec["ok"]) if "ok" in spec_dec else None
        if sv != c.val:
            run.violation(case_replay(c, kind="harness-vs-spec", expected_by_spec=spec_dec,
                                      note="Spec.decode(Spec.encode v) != v in the driver"))
            continue
        good = c.real_dec == ("ok", c.val) and c.real_reenc == c.real_enc
        if not good:
            # KF-py-enum-default: decode ORs onto the first declared member of each enum
            adj = enum_default_adjust(G.TRef(c.msg), c.val)
            md = None
            if "ok" in model_dec:
                md = G.msg_val_from_json(c.msg, model_dec["ok"])
            observed_raw = c.real_dec[1] if c.real_dec and c.real_dec[0] == "ok" else None
            if has_nonzero_first_enum(G.TRef(c.msg)) and md == adj and (observed_raw == adj or c.real_dec[0] == "exc-read"):
                kf_default += 1
                run.count("kf_py_enum_default")
                continue
            run.violation(case_replay(c, kind="impl-vs-spec", observed_impl={"decode": c.real_dec, "reencode": c.real_reenc},
                                      expected_by_spec={"decode": c.val, "reencode": c.real_enc}, model_answer=model_dec))
            continue
        # tie: the model must agree with the real decode
        if "ok" not in model_dec or G.msg_val_from_json(c.msg, model_dec["ok"]) != c.val:
            run.notes.setdefault("model_disagreements", []).append(case_replay(c, observed_impl=c.real_dec, model_answer=model_dec))
    run.notes["kf_py_enum_default_cases"] = kf_default
