"""Correspondence and failing-input search for the Python wire properties (C01, C02).

For every generated schema the REAL compiler (from /repo) parses the text, renders Python, the
generated module is executed, and for every message and value three things are compared:

  real encode()      vs  spec.encode  (the property itself; the Lean specification is the oracle)
  real encode()      vs  py.encode    (the tie: the hand-written model PyRt against the code)
  real decode(...)   vs  spec.decode / py.decode, and the re-encoded bytes
"""
from __future__ import annotations

import random
from typing import Any, Dict, List, Optional, Tuple

from . import common
from . import gen as G
from . import real as R


def enum_default_adjust(t, v):
    """what decode yields under KF-py-enum-default: every enum leaf OR-ed with the enum's
    first declared member (the fresh message's default)"""
    if isinstance(t, G.TArray):
        return [enum_default_adjust(t.elem, x) for x in v]
    if isinstance(t, G.TRef):
        d = t.d
        if isinstance(d, G.EnumDef):
            return v | d.members[0][1]
        if isinstance(d, G.AliasDef):
            return enum_default_adjust(d.type, v)
        if isinstance(d, G.MsgDef):
            return {f.num: enum_default_adjust(f.type, v[f.num]) for f in d.fields}
    return v


def has_nonzero_first_enum(t) -> bool:
    if isinstance(t, G.TArray):
        return has_nonzero_first_enum(t.elem)
    if isinstance(t, G.TRef):
        d = t.d
        if isinstance(d, G.EnumDef):
            return d.members[0][1] != 0
        if isinstance(d, G.AliasDef):
            return has_nonzero_first_enum(d.type)
        if isinstance(d, G.MsgDef):
            return any(has_nonzero_first_enum(f.type) for f in d.fields)
    return False


def shape_key(m: G.MsgDef) -> Tuple:
    """coarse canonical form of a message type used to count distinct non-trivial cases:
    (leaf kind, width, stream offset mod 8) triples"""
    out = []

    def walk(t, off):
        if isinstance(t, G.TArray):
            if t.ext:
                out.append(("cap", 16, off % 8))
                off += 16
            for _ in range(min(t.cap, 3)):
                off = walk(t.elem, off)
            return off + max(0, t.cap - 3) * G.nbits(t.elem)
        if isinstance(t, G.TRef):
            d = t.d
            if isinstance(d, G.EnumDef):
                out.append(("enum", d.nbits, off % 8))
                return off + d.nbits
            if isinstance(d, G.AliasDef):
                return walk(d.type, off)
            if isinstance(d, G.MsgDef):
                if d.ext:
                    out.append(("size", 16, off % 8))
                    off += 16
                for f in sorted(d.fields, key=lambda f: f.num):
                    off = walk(f.type, off)
                return off
        out.append((type(t).__name__, G.nbits(t), off % 8))
        return off + G.nbits(t)

    walk(G.TRef(m), 0)
    return tuple(out)


class Case:
    __slots__ = ("schema_text", "msg", "val", "real_enc", "real_dec", "real_reenc", "idx", "fname")


def py_lookalike_names(s: G.Schema, rng: random.Random, run: common.Run) -> None:
    """Python output only (C flattens / re-cases names differently): two enums or aliases whose names are distinct but look alike
    - same letters in another case, or `Outer` + `Kind` next to Outer.Kind - must keep their own layouts"""
    tops = [d for d in s.defs if isinstance(d, (G.EnumDef, G.AliasDef))]
    names = {getattr(d, "name", None) for d in s.defs}
    if len(tops) >= 2:
        a, b = rng.sample(tops, 2)
        new = a.name.upper() if rng.random() < 0.6 else a.name[:1] + a.name[1:].lower()
        if new not in names and new != a.name:
            b.name = new
            names.add(new)
            run.count("py-lookalike:case-variant")
    for m in s.messages():
        if m.parent is None:
            inner = [x for x in m.nested if isinstance(x, G.EnumDef)]
            free = [d for d in tops if d.name[:1] != d.name[:1].lower() and not d.name.isupper() and d.name not in (m.name,)]
            if inner and free and rng.random() < 0.5:
                d = rng.choice(free)
                new = m.name + inner[0].name
                if new not in names:
                    d.name = new
                    names.add(new)
                    run.count("py-lookalike:flat-variant")
                    break


def run_python_cases(run: common.Run, rng: random.Random, n_schemas: int, n_values: int, opts: G.GenOpts,
                     want_decode: bool) -> List[Case]:
    """generate schemas/values, execute the real generated Python; returns the cases"""
    cases: List[Case] = []
    with R.Scratch() as sc:
        for k in range(n_schemas):
            g = G.SchemaGen(rng, opts)
            s = g.schema()
            if rng.random() < 0.3:
                py_lookalike_names(s, rng, run)
            text = G.schema_text(s, rng)
            path = sc.write(f"s{k}.bitproto", text)
            try:
                proto = R.parse_file(path)
                out = R.render_strings(proto, "py")
                mod = R.load_py_module(out[".py"], f"s{k}")
            except Exception as e:  # the generator emits only valid schemas
                run.violation({"kind": "compile-failed", "input": {"files": {"main.bitproto": text}},
                               "observed_impl": f"{type(e).__name__}: {e}",
                               "expected_by_spec": "a valid schema compiles to importable Python"})
                continue
            for m in s.messages():
                for _ in range(n_values):
                    c = Case()
                    c.schema_text = text
                    c.msg = m
                    c.val = G.rand_msg_value(rng, m)
                    c.real_dec = None
                    c.real_reenc = None
                    try:
                        obj = R.py_build(mod, m, c.val)
                        c.real_enc = ("ok", bytes(obj.encode()).hex())
                    except Exception as e:
                        c.real_enc = ("exc", type(e).__name__)
                    if want_decode and c.real_enc[0] == "ok":
                        try:
                            o2 = getattr(mod, G.py_name(m))()
                            o2.decode(bytearray.fromhex(c.real_enc[1]))
                            try:
                                c.real_dec = ("ok", R.py_read(m, o2))
                            except ValueError as e:
                                # reading an enum field whose integer is not a member
                                c.real_dec = ("exc-read", type(e).__name__)
                            try:
                                c.real_reenc = ("ok", bytes(o2.encode()).hex())
                            except Exception as e:
                                c.real_reenc = ("exc", type(e).__name__)
                        except Exception as e:
                            c.real_dec = ("exc", type(e).__name__)
                    cases.append(c)
            R.unload(mod)
    return cases


def case_replay(c: Case, **kw) -> Dict[str, Any]:
    r = {"input": {"files": {"main.bitproto": c.schema_text}, "message": G.py_name(c.msg),
                   "ty": G.msg_ty_json(c.msg), "val": G.msg_val_json(c.msg, c.val)}}
    r.update(kw)
    return r


CHUNK = 40


def check_c01(run: common.Run, drv: common.Driver, rng: random.Random, n_schemas: int, n_values: int) -> None:
    for start in range(0, n_schemas, CHUNK):
        _check_c01(run, drv, rng, min(CHUNK, n_schemas - start), n_values)


def _check_c01(run: common.Run, drv: common.Driver, rng: random.Random, n_schemas: int, n_values: int) -> None:
    cases = run_python_cases(run, rng, n_schemas, n_values, G.GenOpts(), want_decode=False)
    reqs = []
    for c in cases:
        ty = G.msg_ty_json(c.msg)
        val = G.msg_val_json(c.msg, c.val)
        reqs.append({"op": "spec.encode", "ty": ty, "val": val})
        reqs.append({"op": "py.encode", "ty": ty, "val": val})
        reqs.append({"op": "spec.nbits", "ty": ty})
    ans = drv.batch(reqs)
    for k, c in enumerate(cases):
        spec, model, nb = ans[3 * k], ans[3 * k + 1], ans[3 * k + 2]
        run.evaluated()
        if k < 2:
            run.sample({"request": reqs[3 * k], "spec": spec, "real": c.real_enc}, limit=3)
        for t in shape_key(c.msg):
            run.count(f"leaf:{t[0]}")
            run.nontrivial(t)
        run.count("messages")
        if G.has_ext(G.TRef(c.msg)):
            run.count("with_extensible")
        real = c.real_enc
        exp_len = (G.msg_nbits(c.msg) + 7) // 8
        if "ok" not in spec or nb.get("ok") != G.msg_nbits(c.msg):
            run.violation(case_replay(c, kind="harness-vs-spec", observed_impl=real, expected_by_spec=spec,
                                      note="driver rejected the request or nbits differs from the harness' own count"))
            continue
        if real != ("ok", spec["ok"]) or len(spec["ok"]) != 2 * exp_len:
            run.violation(case_replay(c, kind="impl-vs-spec", observed_impl=real, expected_by_spec=spec,
                                      model_answer=model))
            continue
        m = ("ok", model["ok"]) if "ok" in model else ("exc", model.get("exc"))
        if m != real:
            run.notes.setdefault("model_disagreements", []).append(case_replay(c, observed_impl=real, model_answer=model))


def check_c02(run: common.Run, drv: common.Driver, rng: random.Random, n_schemas: int, n_values: int) -> None:
    run.notes["kf_py_enum_default_cases"] = 0
    replay_known_c02(run)
    replay_corpus_c02(run)
    for start in range(0, n_schemas, CHUNK):
        _check_c02(run, drv, rng, min(CHUNK, n_schemas - start), n_values)


def _check_c02(run: common.Run, drv: common.Driver, rng: random.Random, n_schemas: int, n_values: int) -> None:
    cases = run_python_cases(run, rng, n_schemas, n_values, G.GenOpts(), want_decode=True)
    reqs = []
    for c in cases:
        ty = G.msg_ty_json(c.msg)
        val = G.msg_val_json(c.msg, c.val)
        reqs.append({"op": "spec.encode", "ty": ty, "val": val})
    enc = drv.batch(reqs)
    reqs = []
    for c, e in zip(cases, enc):
        ty = G.msg_ty_json(c.msg)
        reqs.append({"op": "spec.decode", "ty": ty, "bytes": e.get("ok", "")})
        reqs.append({"op": "py.decode", "ty": ty, "bytes": e.get("ok", "")})
    ans = drv.batch(reqs)
    kf_default = 0
    for k, c in enumerate(cases):
        spec_enc = enc[k]
        spec_dec, model_dec = ans[2 * k], ans[2 * k + 1]
        run.evaluated()
        if k < 2:
            run.sample({"request": reqs[2 * k + 1], "model": model_dec, "real": c.real_dec}, limit=3)
        for t in shape_key(c.msg):
            run.count(f"leaf:{t[0]}")
            run.nontrivial(t)
        if "ok" not in spec_enc or c.real_enc != ("ok", spec_enc["ok"]):
            # encode itself is C01's business; report here too, the round trip cannot be judged
            run.violation(case_replay(c, kind="impl-vs-spec", observed_impl=c.real_enc, expected_by_spec=spec_enc,
                                      note="encode differs from specification (see C01)"))
            continue
        # the specification's own round trip (harness/driver self-check)
        sv = G.msg_val_from_json(c.msg, spec_dec["ok"]) if "ok" in spec_dec else None
        if sv != c.val:
            run.violation(case_replay(c, kind="harness-vs-spec", expected_by_spec=spec_dec,
                                      note="Spec.decode(Spec.encode v) != v in the driver"))
            continue
        good = c.real_dec == ("ok", c.val) and c.real_reenc == c.real_enc
        if not good:
            # KF-py-enum-default: decode ORs onto the first declared member of each enum
            adj = enum_default_adjust(G.TRef(c.msg), c.val)
            md = None
            if "ok" in model_dec:
                md = G.msg_val_from_json(c.msg, model_dec["ok"])
            observed_raw = c.real_dec[1] if c.real_dec and c.real_dec[0] == "ok" else None
            if has_nonzero_first_enum(G.TRef(c.msg)) and md == adj and (observed_raw == adj or c.real_dec[0] == "exc-read"):
                kf_default += 1
                run.count("kf_py_enum_default")
                continue
            run.violation(case_replay(c, kind="impl-vs-spec", observed_impl={"decode": c.real_dec, "reencode": c.real_reenc},
                                      expected_by_spec={"decode": c.val, "reencode": c.real_enc}, model_answer=model_dec))
            continue
        # tie: the model must agree with the real decode
        if "ok" not in model_dec or G.msg_val_from_json(c.msg, model_dec["ok"]) != c.val:
            run.notes.setdefault("model_disagreements", []).append(case_replay(c, observed_impl=c.real_dec, model_answer=model_dec))
    run.notes["kf_py_enum_default_cases"] += kf_default


# ===================================================================== known findings / corpus
import json
import os


def _num_keys(v):
    """JSON object keys back to ints (values in findings/corpus files are keyed by field number)"""
    if isinstance(v, dict):
        return {int(k): _num_keys(x) for k, x in v.items()}
    if isinstance(v, list):
        return [_num_keys(x) for x in v]
    return v


def _compile_text(sc: R.Scratch, name: str, text: str):
    path = sc.write(name, text)
    proto = R.parse_file(path)
    out = R.render_strings(proto, "py")
    return R.load_py_module(out[".py"], name.replace(".", "_"))


def _set_plain(obj, v):
    """assign a {num: value} tree to a generated message using the processor's field order;
    used for findings/corpus files that carry no abstract schema: fields are matched by the
    order of dataclass fields sorted as the module lists them (field-number order)."""
    raise NotImplementedError


def replay_known_c02(run: common.Run) -> None:
    """KF-py-enum-default: replay the witness on the real code; print KNOWN-FINDING if it still
    fails in the recorded way."""
    kf = json.load(open(os.path.join(common.VERIF, "findings", "KF-py-enum-default.C02.json")))
    with R.Scratch() as sc:
        mod = _compile_text(sc, "kf.bitproto", kf["input"]["files"]["main.bitproto"])
        m = mod.M()
        m.e = 0
        b = m.encode()
        x = mod.M()
        x.decode(b)
        try:
            got = int(x.e)
        except ValueError:
            got = "ValueError"
        R.unload(mod)
    run.notes["KF-py-enum-default"] = {"observed": got}
    if got == 0:
        run.notes["KF-py-enum-default"]["status"] = "no longer fails on this tree"
    elif got == 1:
        run.known_finding("python: enum whose first declared member is not 0 decodes OR-ed with that member "
                          "(enum E:uint1 {A=1;B=0}: B decodes as A) [KF-py-enum-default]")
    else:
        run.violation({"kind": "impl-vs-spec", "input": kf["input"], "observed_impl": got,
                       "expected_by_spec": 0, "note": "KF-py-enum-default witness fails in a new way"})


def replay_corpus_c02(run: common.Run) -> None:
    """fixed findings are ordinary regression cases: they must pass, silently"""
    c = json.load(open(os.path.join(common.VERIF, "corpus", "fixed-py-enum-chunk.json")))
    with R.Scratch() as sc:
        mod = _compile_text(sc, "e.bitproto", c["schema"])
        v = _num_keys(c["value"])
        names = {1: "pad", 2: "b", 3: "s", 4: "ss", 5: "bb", 6: "p2", 7: "s2"}
        try:
            m = mod.M()
            for k, n in names.items():
                setattr(m, n, v[k])
            b = m.encode()
            x = mod.M()
            x.decode(b)
            got = {k: ([int(e) for e in getattr(x, n)] if isinstance(v[k], list) else int(getattr(x, n))) for k, n in names.items()}
            ok = got == v and x.encode() == b
        except Exception as e:
            got = f"{type(e).__name__}: {e}"
            ok = False
        R.unload(mod)
    run.evaluated()
    if not ok:
        run.violation({"kind": "impl-vs-spec", "input": c, "observed_impl": got, "expected_by_spec": v,
                       "note": "regression of fixed finding KF-py-enum-chunk"})
    replay_corpus_array_skip(run, "C02")


def replay_corpus_array_skip(run: common.Run, pid: str) -> None:
    c = json.load(open(os.path.join(common.VERIF, "corpus", "fixed-array-skip.json")))
    names = {1: "a", 2: "b", 3: "c", 4: "d"}

    def build(mod, v):
        m = mod.M()
        for k, n in names.items():
            x = v[k]
            setattr(m, n, [bool(e) for e in x] if k == 3 else x)
        return m

    def read(m):
        return {k: ([int(e) for e in getattr(m, n)] if k in (1, 3) else int(getattr(m, n))) for k, n in names.items()}

    with R.Scratch() as sc:
        old = _compile_text(sc, "a1.bitproto", c["old"])
        new = _compile_text(sc, "a2.bitproto", c["new"])
        try:
            if pid == "C02":
                v = _num_keys(c["value_old"])
                m = build(old, v)
                b = m.encode()
                x = old.M()
                x.decode(b)
                got, exp = read(x), v
            else:
                v = _num_keys(c["value_new"])
                b = build(new, v).encode()
                x = old.M()
                x.decode(b)
                got, exp = read(x), _num_keys(c["expect_old_decode"])
            ok = got == exp
        except Exception as e:
            got, exp, ok = f"{type(e).__name__}: {e}", None, False
        R.unload(old)
        R.unload(new)
    run.evaluated()
    if not ok:
        run.violation({"kind": "impl-vs-spec", "input": c, "observed_impl": got, "expected_by_spec": exp,
                       "note": "regression of fixed finding KF-array-skip"})


# ===================================================================== C05: evolution chains
import copy


def devolve(s: G.Schema, rng: random.Random):
    """an OLDER version of schema `s`: highest-numbered fields dropped from some extensible
    messages, capacities of some extensible arrays reduced (>= 1), at any nesting depth.
    Returns (old schema, mapping new-def-id -> old def)."""
    memo: dict = {}
    old = copy.deepcopy(s, memo)
    force = getattr(s, "force_devolve", False)  # corpus schemas: every permitted step happens
    if force:
        old.force_devolve = False
    mapping = {}
    for k, v in memo.items():
        if isinstance(v, (G.MsgDef, G.EnumDef, G.AliasDef)):
            mapping[k] = v
    changed = 0

    def shrink_type(t):
        nonlocal changed
        if isinstance(t, G.TArray):
            if t.ext and t.cap > 1 and (force or rng.random() < 0.6):
                t.cap = rng.randint(1, t.cap - 1)
                changed += 1
            shrink_type(t.elem)

    def visit(d):
        nonlocal changed
        if isinstance(d, G.AliasDef):
            shrink_type(d.type)
        elif isinstance(d, G.MsgDef):
            for n in d.nested:
                visit(n)
            if d.ext and d.fields and (force or rng.random() < 0.6):
                k = 1 if force else rng.randint(1, len(d.fields))
                keep = sorted(d.fields, key=lambda f: f.num)[: len(d.fields) - k]
                keepset = {id(f) for f in keep}
                d.fields = [f for f in d.fields if id(f) in keepset]
                changed += 1
            for f in d.fields:
                shrink_type(f.type)

    for d in old.defs:
        visit(d)
    old.proto = s.proto + "o"
    return old, mapping, changed


def project(t_old, t_new, v):
    """restriction of a newer value to the older schema (harness' own implementation)"""
    if isinstance(t_old, G.TArray):
        return [project(t_old.elem, t_new.elem, x) for x in v[: t_old.cap]]
    if isinstance(t_old, G.TRef):
        d = t_old.d
        if isinstance(d, G.AliasDef):
            return project(d.type, t_new.d.type, v)
        if isinstance(d, G.MsgDef):
            nf = {f.num: f for f in t_new.d.fields}
            return {f.num: project(f.type, nf[f.num].type, v[f.num]) for f in d.fields}
    return v


def check_c05_c(run: common.Run, drv: common.Driver, rng: random.Random, n_chains: int, n_values: int, opts) -> None:
    """the C runtime generated from the OLDER schema decodes bytes of the newer one"""
    from . import creal as C

    with R.Scratch() as sc:
        for k in range(n_chains):
            g = G.SchemaGen(rng, opts)
            newest = g.schema()
            old, mp, ch = devolve(newest, rng)
            t_new, t_old = G.schema_text(newest, rng), G.schema_text(old, rng)
            try:
                cm = C.CModule(sc, old, t_old, f"c05o{k}_{rng.randrange(1 << 30)}")
            except Exception as e:
                run.violation({"kind": "compile-failed", "input": {"files": {"old.bitproto": t_old}}, "observed_impl": str(e)[:600]})
                continue
            jobs = []
            for m_new in newest.messages():
                m_old = mp[id(m_new)]
                for _ in range(n_values):
                    jobs.append((m_old, m_new, G.rand_msg_value(rng, m_new)))
            enc = drv.batch([{"op": "spec.encode", "ty": G.msg_ty_json(mn), "val": G.msg_val_json(mn, v)} for (mo, mn, v) in jobs])
            for (m_old, m_new, v), e in zip(jobs, enc):
                run.evaluated()
                differs = G.msg_ty_json(m_old) != G.msg_ty_json(m_new)
                run.count("c_pairs_with_real_evolution" if differs else "c_pairs_identical")
                if differs:
                    run.nontrivial(("c", shape_key(m_old), shape_key(m_new)))
                exp = project(G.TRef(m_old), G.TRef(m_new), v)
                data = bytes.fromhex(e["ok"])
                got, gok = cm.decode(m_old, data)
                if got != exp or not gok:
                    run.violation({"kind": "impl-vs-spec", "input": {"files": {"new.bitproto": t_new, "old.bitproto": t_old},
                                   "runtime": "C", "message_old": G.c_name(m_old), "ty_old": G.msg_ty_json(m_old),
                                   "ty_new": G.msg_ty_json(m_new), "val": G.msg_val_json(m_new, v), "bytes": e["ok"]},
                                   "observed_impl": {"decode": got, "struct_guards_intact": gok}, "expected_by_spec": exp})


def check_c05(run: common.Run, drv: common.Driver, rng: random.Random, n_chains: int, n_values: int) -> None:
    replay_corpus_array_skip(run, "C05")
    opts = G.GenOpts(enum_zero_first=True)
    opts.max_fields = 5
    opts.ext_prob = 0.7
    opts.scalar_prob = 0.35
    opts.max_bits = 1500
    from . import corpus
    deep = n_chains > 100
    evo = corpus.evolution_schemas(deep)
    G.SchemaGen.corpus_queue = list(evo) + list(G.SchemaGen.corpus_queue)
    for start in range(0, max(n_chains, len(evo) + 8), 20):
        _check_c05(run, drv, rng, min(20, max(n_chains, len(evo) + 8) - start), n_values, opts)
    G.SchemaGen.corpus_queue = corpus.evolution_schemas(deep)
    check_c05_c(run, drv, rng, max(10, n_chains // 4, len(evo) + 4), n_values, opts)


def _check_c05(run, drv, rng, n_chains, n_values, opts) -> None:
    jobs = []  # (texts, msg_old, msg_new, val_new, real_new_bytes, real_old_decode, depth)
    with R.Scratch() as sc:
        for k in range(n_chains):
            g = G.SchemaGen(rng, opts)
            newest = g.schema()
            # force some extensibility so that evolution is possible
            versions = [newest]
            maps = []
            for _ in range(rng.randint(1, 3)):
                o, mp, ch = devolve(versions[-1], rng)
                versions.append(o)
                maps.append(mp)
            texts = [G.schema_text(v, rng) for v in versions]
            mods = []
            try:
                for j, txt in enumerate(texts):
                    mods.append(_compile_text(sc, f"c{k}_{j}.bitproto", txt))
            except Exception as e:
                run.violation({"kind": "compile-failed", "input": {"files": {f"v{j}.bitproto": t for j, t in enumerate(texts)}},
                               "observed_impl": f"{type(e).__name__}: {e}"})
                continue
            new_msgs = newest.messages()
            for m_new in new_msgs:
                # corresponding older definitions along the chain
                chain = [m_new]
                for mp in maps:
                    chain.append(mp[id(chain[-1])])
                # every version sends, every older version receives, senders alternating: one receiver class (in one process)
                # sees buffers of several newer versions in turn, nothing may be carried from one decode to the next
                for rnd in range(n_values):
                    for i in range(len(chain) - 1):
                        if i > 0 and rnd % 2:
                            continue
                        m_snd = chain[i]
                        v = G.rand_msg_value(rng, m_snd)
                        try:
                            b = bytes(R.py_build(mods[i], m_snd, v).encode())
                        except Exception as e:
                            run.violation({"kind": "impl-vs-spec", "input": {"files": {"new.bitproto": texts[i]}},
                                           "observed_impl": f"encode raised {type(e).__name__}"})
                            continue
                        for j in range(i + 1, len(chain)):
                            m_old = chain[j]
                            try:
                                o = getattr(mods[j], G.py_name(m_old))()
                                o.decode(bytearray(b))
                                got = ("ok", R.py_read(m_old, o))
                            except Exception as e:
                                got = ("exc", type(e).__name__)
                            jobs.append((texts[i], texts[j], m_old, m_snd, v, b.hex(), got, j - i))
            for md in mods:
                R.unload(md)
    reqs = []
    for (tn, to, m_old, m_new, v, bh, got, j) in jobs:
        reqs.append({"op": "spec.encode", "ty": G.msg_ty_json(m_new), "val": G.msg_val_json(m_new, v)})
        reqs.append({"op": "spec.project", "ty": G.msg_ty_json(m_old), "ty_new": G.msg_ty_json(m_new),
                     "val": G.msg_val_json(m_new, v)})
        reqs.append({"op": "py.decode", "ty": G.msg_ty_json(m_old), "bytes": bh})
    ans = drv.batch(reqs)
    for k, (tn, to, m_old, m_new, v, bh, got, j) in enumerate(jobs):
        enc, prj, mdl = ans[3 * k], ans[3 * k + 1], ans[3 * k + 2]
        run.evaluated()
        exp = project(G.TRef(m_old), G.TRef(m_new), v)
        differs = G.msg_ty_json(m_old) != G.msg_ty_json(m_new)
        run.count("pairs_with_real_evolution" if differs else "pairs_identical")
        run.count(f"chain_distance_{j}")
        if differs:
            run.nontrivial((shape_key(m_old), shape_key(m_new)))
        if k < 2:
            run.sample({"old": G.msg_ty_json(m_old), "new": G.msg_ty_json(m_new), "val": G.msg_val_json(m_new, v),
                        "bytes": bh, "old_decodes": got[1] if got[0] == "ok" else got}, limit=2)
        replay = {"input": {"files": {"new.bitproto": tn, "old.bitproto": to}, "message_old": G.py_name(m_old),
                            "message_new": G.py_name(m_new), "ty_old": G.msg_ty_json(m_old),
                            "ty_new": G.msg_ty_json(m_new), "val": G.msg_val_json(m_new, v), "bytes": bh}}
        if "ok" not in enc or enc["ok"] != bh:
            run.violation(dict(replay, kind="impl-vs-spec", observed_impl=bh, expected_by_spec=enc,
                               note="newest encode differs from the specification (C01)"))
            continue
        if "ok" not in prj or G.msg_val_from_json(m_old, prj["ok"]) != exp:
            run.violation(dict(replay, kind="harness-vs-spec", expected_by_spec=prj, note="Spec.proj differs from the harness' projection"))
            continue
        if got != ("ok", exp):
            run.violation(dict(replay, kind="impl-vs-spec", observed_impl=got, expected_by_spec=exp, model_answer=mdl))
            continue
        if "ok" not in mdl or G.msg_val_from_json(m_old, mdl["ok"]) != exp:
            run.notes.setdefault("model_disagreements", []).append(dict(replay, observed_impl=got, model_answer=mdl))


# ===================================================================== multi-file programs (imports) through the Python runtime
def _home_build(mods: Dict[int, Any], m: G.MsgDef, v: Dict[int, Any]):
    """build a generated message object; every definition is taken from the module of the file that DECLARES it"""
    def conv(t, x):
        if isinstance(t, G.TBool):
            return bool(x)
        if isinstance(t, G.TArray):
            if isinstance(t.elem, G.TByte):
                return bytearray(x)
            return [conv(t.elem, e) for e in x]
        if isinstance(t, G.TRef):
            d = t.d
            if isinstance(d, G.AliasDef):
                return conv(d.type, x)
            if isinstance(d, G.MsgDef):
                return _home_build(mods, d, x)
        return int(x)

    obj = getattr(mods[id(m.home)], G.py_name(m))()
    for f in m.fields:
        setattr(obj, f.name, conv(f.type, v[f.num]))
    return obj


def add_cross_file_twins(rng: random.Random, main: G.Schema) -> bool:
    """the same nested path (`Outer.Color`, `Outer.Item`) declared in an imported file AND in the importing file, with
    different shapes, both used by one message of the importing file"""
    libs = [i for (i, _) in main.imports]
    if not libs:
        return False
    lib = rng.choice(libs)
    if any(d.name in ("Outer", "Pen") for d in lib.defs + main.defs):
        return False
    wl, wm = rng.sample([2, 3, 5, 9, 12, 17], 2)

    def outer(w: int, nf: int) -> G.MsgDef:
        o = G.MsgDef("Outer", False)
        col = G.EnumDef("Color", w, [("COLOR_VA", 0), ("COLOR_VB", (1 << w) - 1)], o)
        it = G.MsgDef("Item", rng.random() < 0.4, parent=o)
        it.fields = [G.Field(f"i{chr(97 + k)}_x", k + 1, G.TUint(rng.choice([3, 7, 12]))) for k in range(nf)]
        o.nested = [col, it]
        o.fields = [G.Field("c", 1, G.TRef(col)), G.Field("it", 2, G.TRef(it))]
        return o

    ol, om = outer(wl, 1), outer(wm, 2)
    lib.defs.append(ol)
    main.defs.append(om)
    pen = G.MsgDef("Pen", False)
    pen.fields = [G.Field("far_color", 1, G.TRef(ol.nested[0])), G.Field("near_color", 2, G.TRef(om.nested[0])),
                  G.Field("far_items", 3, G.TArray(G.TRef(ol.nested[1]), 2, False)), G.Field("near_item", 4, G.TRef(om.nested[1])),
                  G.Field("far", 5, G.TRef(ol)), G.Field("near", 6, G.TRef(om))]
    main.defs.append(pen)
    G.set_home(lib)
    G.set_home(main)
    return True


def check_multifile(run: common.Run, drv: common.Driver, rng: random.Random, n: int, n_values: int, pid: str) -> None:
    """programs with imports: every message of the importing file is encoded by the generated Python (modules importing
    each other, as generated) and compared with the specification; decoding must give the value back"""
    import importlib
    import sys

    from .props_c12 import compile_program

    with R.Scratch() as sc:
        for k in range(n):
            po = G.ProgOpts(n_imports=(1, 2), options=False, consts=True,
                            gen=G.GenOpts(max_depth=2, max_fields=4, max_bits=900, big_prob=0.0, enum_zero_first=True))
            main = G.ProgramGen(rng, po).program()
            if not main.imports:
                continue
            twins = add_cross_file_twins(rng, main) if rng.random() < 0.6 else False
            for j, f in enumerate(main.all_files()):
                f.proto = f"mf{pid.lower()}{k}x{j}{'abcdefgh'[rng.randrange(8)]}"
            d = sc.path(f"mf{k}")
            os.makedirs(d)
            try:
                files, mods = compile_program(d, main, rng, False)
            except Exception as e:
                # acceptance and importability of generated modules are C08's / C10's subject; a program the generator
                # got wrong (e.g. an import name that is already taken) must not raise an alarm here
                # ... which the reference decides (Run.violation asks text.check about the whole program): a program the
                # reference accepts must compile to Python modules that import
                texts = G.program_files(main, None)
                before = len(run.violations)
                run.violation({"kind": "compile-failed", "input": {"files": texts, "main": f"{main.base()}.bitproto"},
                               "observed_impl": f"{type(e).__name__}: {str(e)[:300]}",
                               "expected_by_spec": "a valid program compiles to Python modules that import each other"})
                if len(run.violations) == before:
                    run.count("multifile_skipped:" + type(e).__name__)
                    run.notes.setdefault("multifile_skipped", []).append(str(e)[:200])
                continue
            try:
                jobs = []
                for m in main.messages():
                    for _ in range(n_values):
                        jobs.append((m, G.rand_msg_value(rng, m)))
                enc = drv.batch([{"op": "spec.encode", "ty": G.msg_ty_json(m), "val": G.msg_val_json(m, v)} for (m, v) in jobs])
                for (m, v), e in zip(jobs, enc):
                    run.evaluated()
                    run.count("multifile" + (":cross-file-twins" if twins else ""))
                    run.nontrivial((pid, "multifile", G.py_name(m), twins, G.msg_nbits(m)))
                    rep = {"input": {"files": files, "message": G.py_name(m), "ty": G.msg_ty_json(m), "val": G.msg_val_json(m, v)}}
                    try:
                        obj = _home_build(mods, m, v)
                        b = bytes(obj.encode())
                        back = getattr(mods[id(m.home)], G.py_name(m))()
                        back.decode(bytearray(b))
                        got = R.py_read(m, back)
                    except Exception as ex:
                        run.violation(dict(rep, kind="impl-vs-spec", observed_impl=f"{type(ex).__name__}: {str(ex)[:200]}", expected_by_spec=e))
                        continue
                    if b.hex() != e.get("ok"):
                        run.violation(dict(rep, kind="impl-vs-spec", observed_impl=b.hex(), expected_by_spec=e))
                    elif got != v:
                        run.violation(dict(rep, kind="impl-vs-spec", observed_impl={"decode": got}, expected_by_spec={"decode": v}))
            finally:
                for mm in mods.values():
                    sys.modules.pop(mm.__name__, None)
