"""Tables extracted from the compiler sources into Gen/Tables.lean (translator tie):
escape tables of the lexer and of the literal formatter, PLY precedence rows, numeric limits as
they appear in the validators of _ast.py."""
from __future__ import annotations

import ast
import os
import re
from typing import Any, Dict, List, Tuple

from . import common
from .translate import GEN_DIR, HEADER, write_if_changed


def lean_char(c: str) -> str:
    return f"Char.ofNat {ord(c)}"


def find_assign_value(tree: ast.AST, name: str):
    for node in ast.walk(tree):
        tgt = None
        if isinstance(node, ast.AnnAssign) and isinstance(node.target, ast.Name):
            tgt, val = node.target.id, node.value
        elif isinstance(node, ast.Assign) and len(node.targets) == 1 and isinstance(node.targets[0], ast.Name):
            tgt, val = node.targets[0].id, node.value
        if tgt == name and val is not None:
            try:
                return ast.literal_eval(val)
            except Exception:
                return None
    return None


def compare_bounds(src: str, func_hint: str) -> List[int]:
    """integer literals compared against in a validator (e.g. `0 < cap < 65536`)"""
    return [int(x) for x in re.findall(r"\b\d+\b", func_hint)]


def gen_tables() -> Tuple[str, Dict[str, Any]]:
    info: Dict[str, Any] = {}
    out = [HEADER, "namespace Bp.Gen.Tables\n"]
    lex = open(os.path.join(common.REPO, "compiler/bitproto/lexer.py")).read()
    esc = find_assign_value(ast.parse(lex), "escaping_chars") or {}
    info["lexer_escapes"] = len(esc)
    out.append("-- from compiler/bitproto/lexer.py Lexer.escaping_chars: escape letter ↦ character")
    out.append("def lexer_escapes : List (Char × Char) := [" + ", ".join(f"({lean_char(k)}, {lean_char(v)})" for k, v in esc.items() if len(k) == 1 and len(v) == 1) + "]\n")
    fmt = open(os.path.join(common.REPO, "compiler/bitproto/renderer/formatter.py")).read()
    emit = find_assign_value(ast.parse(fmt), "escaping") or {}
    info["emit_escapes"] = len(emit)
    out.append("-- from compiler/bitproto/renderer/formatter.py escape_str_value: character ↦ emitted text")
    out.append("def emit_escapes : List (Char × List Char) := [" + ", ".join(
        f"({lean_char(k)}, [" + ", ".join(lean_char(c) for c in v) + "])" for k, v in emit.items() if len(k) == 1) + "]\n")
    par = open(os.path.join(common.REPO, "compiler/bitproto/parser.py")).read()
    prec = find_assign_value(ast.parse(par), "precedence") or ()
    info["precedence_rows"] = len(prec)
    out.append("-- from compiler/bitproto/parser.py Parser.precedence: (associativity, tokens), lowest first")
    out.append("def precedence : List (String × List String) := [" + ", ".join(
        f'("{row[0]}", [' + ", ".join(f'"{t}"' for t in row[1:]) + "])" for row in prec) + "]\n")
    # numeric limits: read the comparison constants out of the validator source lines
    a = open(os.path.join(common.REPO, "compiler/bitproto/_ast.py")).read()

    def first_int(pattern: str, default: int = -1) -> int:
        m = re.search(pattern, a)
        return int(m.group(1)) if m else default

    limits = {
        "int_nbits_max": first_int(r"0 < self\.cap <= (\d+)"),
        "array_cap_bound": first_int(r"0 < self\.cap < (\d+)"),
        "field_number_bound": first_int(r"0 < self\.number < (\d+)"),
        "message_nbits_max": first_int(r"self\.nbits\(\) > (\d+)"),
    }
    info["limits"] = limits
    out.append("-- numeric limits as they appear in the validators of compiler/bitproto/_ast.py (-1 = pattern not found)")
    for k, v in limits.items():
        out.append(f"def {k} : Int := {v}")
    out.append("\nend Bp.Gen.Tables\n")
    return "\n".join(out), info


def regenerate() -> Dict[str, Any]:
    text, info = gen_tables()
    info["changed"] = write_if_changed(os.path.join(GEN_DIR, "Tables.lean"), text)
    return {"Tables": info}
