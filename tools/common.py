"""Shared plumbing of the checks: paths, the bpdrv client, Lean build/audit, evidence files,
VIOLATION / KNOWN-FINDING lines.  See DESIGN.md §7."""
from __future__ import annotations

import fcntl
import hashlib
import json
import os
import re
import subprocess
import sys
import time
from typing import Any, Dict, Iterable, List, Optional, Tuple

VERIF = os.path.dirname(os.path.dirname(os.path.abspath(__file__)))
REPO = os.environ.get("BP_REPO", "/repo")
LEAN_DIR = os.path.join(VERIF, "lean")
BPDRV = os.path.join(LEAN_DIR, ".lake", "build", "bin", "bpdrv")
EVIDENCE_DIR = os.path.join(VERIF, "evidence")
REPLAY_DIR = os.path.join(VERIF, "replays")
PY = "/venv/bin/python"

ALLOWED_AXIOMS = {"propext", "Classical.choice", "Quot.sound"}

sys.path.insert(0, os.path.join(REPO, "compiler"))
sys.path.insert(0, os.path.join(REPO, "lib", "py"))
sys.dont_write_bytecode = True
os.environ["PYTHONDONTWRITEBYTECODE"] = "1"
# hooks in /repo (none needed so far) are guarded by this variable; checks always enable it
os.environ.setdefault("HIT9_BITPROTO_VERIF", "1")


def repo_head() -> str:
    try:
        h = subprocess.run(["git", "-C", REPO, "rev-parse", "HEAD"], capture_output=True, text=True).stdout.strip()
        d = subprocess.run(["git", "-C", REPO, "status", "--porcelain"], capture_output=True, text=True).stdout.strip()
        return h + ("+dirty" if d else "")
    except Exception:
        return "unknown"


# --------------------------------------------------------------------- driver client
class Driver:
    """Runs batches of requests through the native Lean driver."""

    def __init__(self) -> None:
        if not os.path.exists(BPDRV):
            raise RuntimeError(f"bpdrv not built: {BPDRV}")
        self.requests = 0

    def batch(self, reqs: List[Dict[str, Any]]) -> List[Dict[str, Any]]:
        if not reqs:
            return []
        data = "\n".join(json.dumps(r, separators=(",", ":")) for r in reqs) + "\n"
        p = subprocess.run([BPDRV], input=data, capture_output=True, text=True)
        if p.returncode != 0:
            raise RuntimeError(f"bpdrv failed rc={p.returncode}: {p.stderr[:500]}")
        lines = [l for l in p.stdout.split("\n") if l]
        if len(lines) != len(reqs):
            raise RuntimeError(f"bpdrv answered {len(lines)} lines for {len(reqs)} requests")
        self.requests += len(reqs)
        return [json.loads(l) for l in lines]

    def one(self, req: Dict[str, Any]) -> Dict[str, Any]:
        return self.batch([req])[0]


# --------------------------------------------------------------------- Lean build + audit
def _lock():
    f = open(os.path.join(LEAN_DIR, ".build.lock"), "w")
    fcntl.flock(f, fcntl.LOCK_EX)
    return f


def lake_build(targets: List[str], timeout: int = 3000) -> Tuple[bool, str]:
    lock = _lock()
    try:
        p = subprocess.run(["lake", "build"] + targets, cwd=LEAN_DIR, capture_output=True, text=True, timeout=timeout)
        return p.returncode == 0, (p.stdout + p.stderr)
    finally:
        lock.close()


FORBIDDEN = re.compile(r"\b(sorry|admit|native_decide|bv_decide|implemented_by|maxHeartbeats 0)\b|^\s*axiom\s|\bunsafe\s")


def strip_comments(src: str) -> str:
    # remove /- ... -/ (nested) and -- comments
    out = []
    i = 0
    depth = 0
    n = len(src)
    while i < n:
        if src.startswith("/-", i):
            depth += 1
            i += 2
        elif src.startswith("-/", i) and depth > 0:
            depth -= 1
            i += 2
        elif depth > 0:
            if src[i] == "\n":
                out.append("\n")
            i += 1
        elif src.startswith("--", i):
            while i < n and src[i] != "\n":
                i += 1
        else:
            out.append(src[i])
            i += 1
    return "".join(out)


def grep_forbidden() -> List[str]:
    hits = []
    for root, _, files in os.walk(LEAN_DIR):
        if ".lake" in root:
            continue
        for fn in files:
            if not fn.endswith(".lean"):
                continue
            path = os.path.join(root, fn)
            src = strip_comments(open(path).read())
            for ln, line in enumerate(src.split("\n"), 1):
                if FORBIDDEN.search(line):
                    hits.append(f"{os.path.relpath(path, VERIF)}:{ln}: {line.strip()[:100]}")
    return hits


def audit_axioms(module: str, theorems: List[str]) -> Tuple[Dict[str, List[str]], str]:
    """`#print axioms` for each theorem; returns {theorem: axioms} and raw output."""
    src = f"import {module}\n" + "".join(f"#print axioms {t}\n" for t in theorems)
    path = os.path.join(LEAN_DIR, f".audit_{module.replace('.', '_')}_{os.getpid()}.lean")
    with open(path, "w") as f:
        f.write(src)
    try:
        lock = _lock()
        try:
            p = subprocess.run(["lake", "env", "lean", path], cwd=LEAN_DIR, capture_output=True, text=True, timeout=1200)
        finally:
            lock.close()
    finally:
        os.unlink(path)
    out = p.stdout + p.stderr
    res: Dict[str, List[str]] = {}
    for m in re.finditer(r"'([^']+)' depends on axioms: \[([^\]]*)\]", out):
        res[m.group(1)] = [a.strip() for a in m.group(2).replace("\n", " ").split(",") if a.strip()]
    for m in re.finditer(r"'([^']+)' does not depend on any axioms", out):
        res[m.group(1)] = []
    return res, out


# --------------------------------------------------------------------- evidence / verdict
class StopExploration(Exception):
    """raised once enough violations have been written (a failing input has been found)"""


MAX_REPLAYS = 3


class Run:
    """Collects what one check run covered and writes evidence/<id>.json."""

    def __init__(self, pid: str, tier: str, seed: int) -> None:
        self.pid = pid
        self.tier = tier
        self.seed = seed
        self.t0 = time.time()
        self.violations: List[str] = []  # replay paths
        self.known: List[str] = []
        self.coverage: Dict[str, Any] = {
            "obligations": 0,
            "discharged": 0,
            "checker_cmd": "",
            "trusted_base": [],
            "evaluations": 0,
            "distinct_nontrivial": 0,
            "rule": "",
            "samples": [],
        }
        self.assumptions: List[str] = []
        self.notes: Dict[str, Any] = {}
        self._distinct: set = set()
        self._nreplay = 0

    # ---- counters
    def count(self, key: str, n: int = 1) -> None:
        d = self.coverage.setdefault("distribution", {})
        d[key] = d.get(key, 0) + n

    def evaluated(self, n: int = 1) -> None:
        self.coverage["evaluations"] += n
        # escalated failing-input search of the quick tier (check.py): bounded in wall-clock time, cooperatively
        dl = getattr(self, "deadline", None)
        if dl is not None and time.time() > dl:
            self.stopped_by_deadline = True
            self.notes["search_stopped_at_deadline"] = True
            raise StopExploration()

    def nontrivial(self, canon: Any) -> None:
        h = hashlib.sha1(json.dumps(canon, sort_keys=True, default=str).encode()).hexdigest()
        if h not in self._distinct and len(getattr(self, "_first_cases", [])) < 3:
            self._first_cases = getattr(self, "_first_cases", []) + [canon]
        self._distinct.add(h)

    def sample(self, s: Any, limit: int = 6) -> None:
        if len(self.coverage["samples"]) < limit:
            self.coverage["samples"].append(s)

    # ---- outcomes
    def violation(self, replay: Dict[str, Any], suffix: str = "") -> None:
        # "a valid schema must compile": whether the GENERATED schema was valid is decided by the reference of the documented
        # rules (Lean, text level), not by the generator's intentions.  A schema the reference rejects as well is a
        # generator artefact: counted, sampled into the evidence, never a verdict.
        if getattr(self, "stopped_by_deadline", False):
            return  # whatever an `except Exception` handler makes of the stop signal is not a finding
        if replay.get("kind") == "compile-failed" and getattr(self, "drv", None) is not None:
            files = (replay.get("input") or {}).get("files") or {}
            main = (replay.get("input") or {}).get("main")
            try:
                if main in files:  # a program: all files, entry named
                    verdicts = [self.drv.batch([{"op": "text.check", "files": [{"name": n, "text": t} for n, t in files.items()], "main": main}])[0]]
                else:
                    verdicts = [self.drv.batch([{"op": "text.check", "files": [{"name": n, "text": t}], "main": n}])[0] for n, t in files.items()
                                if isinstance(t, str) and "\nimport " not in t]
            except Exception:  # noqa: BLE001
                verdicts = []
            if verdicts and any("diag" in v for v in verdicts):
                self.count("generated-schema-rejected-by-the-reference-too(skipped)")
                self.notes.setdefault("generator_artefacts", [])
                if len(self.notes["generator_artefacts"]) < 3:
                    self.notes["generator_artefacts"].append({"observed_impl": str(replay.get("observed_impl"))[:300],
                                                              "reference": [v.get("diag") for v in verdicts if "diag" in v][:2]})
                return
        os.makedirs(REPLAY_DIR, exist_ok=True)
        self._nreplay += 1
        path = os.path.join(REPLAY_DIR, f"{self.pid}-{self.seed}-{self._nreplay}.json")
        replay = dict(replay)
        replay.setdefault("property", self.pid)
        replay.setdefault("seed", self.seed)
        replay.setdefault("tier", self.tier)
        replay.setdefault("repo_head", repo_head())
        with open(path, "w") as f:
            json.dump(replay, f, indent=1, default=str)
        rel = os.path.relpath(path, VERIF)
        self.violations.append(rel)
        self.records = getattr(self, "records", []) + [replay]
        line = f"VIOLATION property={self.pid} replay={rel}"
        if suffix == "no-failing-input-found":  # the only words the interface allows after the replay path
            line += " " + suffix
        elif suffix:
            replay.setdefault("summary", suffix)
            print(f"detail: {rel}: {suffix}", flush=True)
        print(line, flush=True)
        if "summary" in replay:
            with open(path, "w") as f:
                json.dump(replay, f, indent=1, default=str)
        if len(self.violations) >= MAX_REPLAYS:
            raise StopExploration()

    def known_finding(self, what: str) -> None:
        self.known.append(what)
        print(f"KNOWN-FINDING: property={self.pid} {what}", flush=True)

    def finish(self) -> int:
        self.coverage["distinct_nontrivial"] = len(self._distinct)
        if not self.coverage["samples"]:
            # explorers that record no sample of their own: the first distinct case keys of this run, written out
            self.coverage["samples"] = [{"distinct_case_key": repr(k)[:400]} for k in getattr(self, "_first_cases", [])] + \
                                       [{"obligation": t} for t in self.coverage.get("theorems", [])[:3]]
        ev = {
            "property_id": self.pid,
            "tier": self.tier,
            "seed": self.seed,
            "level": "proof",
            "coverage": self.coverage,
            "assumptions": self.assumptions,
            "wall_s": round(time.time() - self.t0, 2),
            "violations": len(self.violations),
            "known_findings_reported": self.known,
            "repo_head": repo_head(),
        }
        ev.update(self.notes)
        os.makedirs(EVIDENCE_DIR, exist_ok=True)
        with open(os.path.join(EVIDENCE_DIR, f"{self.pid}.json"), "w") as f:
            json.dump(ev, f, indent=1, default=str)
        return 1 if self.violations else 0


def tier_seed() -> Tuple[str, int]:
    tier = os.environ.get("VERIF_TIER", "quick")
    if len(sys.argv) > 2 and sys.argv[2] in ("quick", "thorough"):
        tier = sys.argv[2]
    try:
        seed = int(os.environ.get("VERIF_SEED", "0"))
    except ValueError:
        seed = 0
    return tier, seed
