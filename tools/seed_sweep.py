"""usage: python tools/seed_sweep.py [seed-name ...] — applies every kept seeded change to /repo in turn, runs the
check of its property (quick tier; extra checks from EXTRA), undoes it, and records the outcome in
seeded/RESULTS.json and in the seed's meta.json.  Sequential on purpose: /repo is a shared resource."""
import json, os, re, subprocess, sys, time

VERIF = os.path.dirname(os.path.dirname(os.path.abspath(__file__)))
EXTRA = {"C11-3": ["C15"], "C12-1": ["C11"], "C15-2": ["C11"], "C10-2": ["C15"], "C18-3": ["C15"], "C15-3": ["C18"],
         "C01-4": ["C02", "C05"], "C02-5": ["C01", "C03"], "C02-6": ["C10", "C01"], "C05-6": ["C03"], "C07-4": ["C03"], "C07-5": ["C03"],
         "C12-4": ["C04"], "C12-5": ["C03"], "C12-6": ["C11"], "C13-4": ["C09"], "C20-4": ["C09"], "C11-6": ["C01", "C10"],
         "C08-7": ["C20"], "C03-8": ["C06"], "C13-8": ["C10"], "C16-7": ["C15", "C10"], "C11-7": ["C08"], "C08-8": ["C07"],
         "C12-8": ["C13"], "C12-7": ["C04", "C06"], "C07-7": ["C03", "C04"], "C05-8": ["C03"], "C04-8": ["C06"]}
ONLY_EXTRA = bool(os.environ.get("ONLY_EXTRA"))
names = sys.argv[1:] or sorted(os.listdir(os.path.join(VERIF, "seeded")))
res_path = os.path.join(VERIF, "seeded", "RESULTS.json")
results = json.load(open(res_path)) if os.path.exists(res_path) else {}
for name in names:
    d = os.path.join(VERIF, "seeded", name)
    if not os.path.isdir(d):
        continue
    pid = name.split("-")[0]
    subprocess.run(["git", "-C", "/repo", "checkout", "--", "."], check=True)
    if subprocess.run(["git", "-C", "/repo", "apply", os.path.join(d, "patch.diff")]).returncode != 0:
        results[name] = {"error": "patch does not apply"}
        continue
    try:
        out = dict(results.get(name, {})) if ONLY_EXTRA and isinstance(results.get(name), dict) else {}
        for check in ([] if ONLY_EXTRA else [pid]) + EXTRA.get(name, []):
            t0 = time.time()
            p = subprocess.run(["./check.sh", check, "quick"], cwd=VERIF, capture_output=True, text=True, timeout=3000)
            v = [l for l in p.stdout.splitlines() if l.startswith("VIOLATION")]
            verdict = "missed" if p.returncode == 0 else ("infrastructure" if not v else "no-failing-input-found" if all("no-failing-input-found" in l for l in v) else "concrete replay")
            out[check] = {"rc": p.returncode, "verdict": verdict, "violations": len(v), "wall_s": round(time.time() - t0, 1),
                          "first": (v[0] if v else (p.stdout + p.stderr)[-300:])}
    finally:
        subprocess.run(["git", "-C", "/repo", "checkout", "--", "."], check=True)
    results[name] = out
    meta_p = os.path.join(d, "meta.json")
    meta = json.load(open(meta_p))
    meta["detected_by"] = {c: r["verdict"] for c, r in out.items()}
    json.dump(meta, open(meta_p, "w"), indent=1)
    json.dump(results, open(res_path, "w"), indent=1, sort_keys=True)
    print(name, {c: r["verdict"] for c, r in out.items()}, flush=True)
# evidence written while /repo was modified must never be committed: restore the committed (clean-tree) files
subprocess.run(["git", "-C", VERIF, "checkout", "--", "evidence"], check=False)
