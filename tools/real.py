"""Adapters that run the REAL code from /repo's working tree: the compiler in-process, the
generated Python modules, and (tools/creal.py) C through gcc + ctypes."""
from __future__ import annotations

import importlib
import os
import shutil
import sys
import tempfile
import types
from typing import Any, Dict, List, Optional, Tuple

from . import common  # noqa: F401  (sets sys.path to /repo)
from . import gen as G


class Scratch:
    """temp dir outside /repo and /verif, removed on exit"""

    def __init__(self, prefix: str = "bpv-") -> None:
        self.dir = tempfile.mkdtemp(prefix=prefix)

    def path(self, *p: str) -> str:
        return os.path.join(self.dir, *p)

    def write(self, name: str, text: str) -> str:
        path = self.path(name)
        os.makedirs(os.path.dirname(path), exist_ok=True)
        with open(path, "w") as f:
            f.write(text)
        return path

    def close(self) -> None:
        shutil.rmtree(self.dir, ignore_errors=True)

    def __enter__(self) -> "Scratch":
        return self

    def __exit__(self, *a: Any) -> None:
        self.close()


def clear_compiler_caches() -> None:
    """the compiler memoises per-node results in process-global functools caches; drop them
    between programs so a long run does not accumulate memory (C18 checks separately that
    they are transparent)."""
    try:
        from bitproto import utils as U

        for name in dir(U):
            pass
    except Exception:
        pass


def parse_file(path: str, traditional: bool = False):
    from bitproto.parser import parse

    return parse(path, traditional_mode=traditional)


def render_strings(proto, lang: str, optimize: bool = False, filter_messages=None, endian: str = "both") -> Dict[str, str]:
    """render in-process without writing files: {extension: text}"""
    from bitproto.renderer.impls import renderer_registry

    out: Dict[str, str] = {}
    for cls in renderer_registry[lang]:
        r = cls(
            proto,
            outdir=None,
            optimization_mode=optimize,
            optimization_mode_filter_messages=filter_messages,
            optimization_mode_endian=endian,
        )
        out[r.file_extension()] = r.render_string()
    return out


_modcount = 0


def load_py_module(text: str, name_hint: str = "gen") -> types.ModuleType:
    """exec generated Python text as a fresh module (bitprotolib comes from /repo/lib/py)"""
    global _modcount
    _modcount += 1
    mod = types.ModuleType(f"_bpv_{name_hint}_{_modcount}")
    mod.__dict__["__name__"] = mod.__name__
    sys.modules[mod.__name__] = mod  # dataclasses looks the module up for ClassVar detection
    try:
        exec(compile(text, f"<generated {name_hint}>", "exec"), mod.__dict__)
    finally:
        pass
    return mod


def unload(mod: types.ModuleType) -> None:
    sys.modules.pop(mod.__name__, None)


# --------------------------------------------------------------------- values <-> generated classes
def py_set(mod, t, v):
    """convert an abstract value into what is assigned to a generated field"""
    if isinstance(t, G.TBool):
        return bool(v)
    if isinstance(t, G.TArray):
        e = t.elem
        if isinstance(e, G.TByte):
            return bytearray(v)
        return [py_set(mod, e, x) for x in v]
    if isinstance(t, G.TRef):
        d = t.d
        if isinstance(d, G.AliasDef):
            return py_set(mod, d.type, v)
        if isinstance(d, G.MsgDef):
            return py_build(mod, d, v)
    return int(v)


def py_build(mod, m: G.MsgDef, v: Dict[int, Any]):
    cls = getattr(mod, G.py_name(m))
    obj = cls()
    for f in m.fields:
        setattr(obj, f.name, py_set(mod, f.type, v[f.num]))
    return obj


def py_get(t, x):
    if isinstance(t, G.TArray):
        return [py_get(t.elem, e) for e in x]
    if isinstance(t, G.TRef):
        d = t.d
        if isinstance(d, G.AliasDef):
            return py_get(d.type, x)
        if isinstance(d, G.MsgDef):
            return py_read(d, x)
    return int(x)


def py_read(m: G.MsgDef, obj) -> Dict[int, Any]:
    return {f.num: py_get(f.type, getattr(obj, f.name)) for f in m.fields}


def exc_name(e: BaseException) -> str:
    return type(e).__name__
