"""Entry point of every check:  python -m tools.check <Cxx> [quick|thorough] [--replay file]

Steps (DESIGN.md §7.2): regenerate Gen/*.lean from /repo → lake build the property's proof
module and the driver → audit (forbidden words, `#print axioms`) → known findings → correspondence
and implementation-vs-specification exploration → verdict → evidence/<id>.json.
"""
from __future__ import annotations

import json
import os
import random
import sys
import time
import traceback

from . import common
from .common import Run

from . import registry


def main() -> int:
    if len(sys.argv) < 2:
        print("usage: check <Cxx> [quick|thorough]")
        return 2
    pid = sys.argv[1]
    replay = None
    if "--replay" in sys.argv:
        # every random choice of a run derives from (seed, property id): re-running the check with the seed and
        # tier recorded in the replay file re-creates the same inputs on the CURRENT tree
        path = sys.argv[sys.argv.index("--replay") + 1]
        replay = json.load(open(path))
        os.environ["VERIF_SEED"] = str(replay.get("seed", 0))
        os.environ["VERIF_TIER"] = str(replay.get("tier", "quick"))
        print(f"replaying {path}: seed={replay.get('seed')} tier={replay.get('tier')} kind={replay.get('kind')}", flush=True)
    tier, seed = common.tier_seed()
    if pid not in registry.PROPS:
        print(f"unknown or unclaimed property {pid}")
        return 2
    spec = registry.PROPS[pid]
    run = Run(pid, tier, seed)
    rng = random.Random((seed + 1) * 1000003 + int(pid[1:]))
    cov = run.coverage

    # 1. translator tie: regenerate Gen/*.lean from the working tree
    from . import translate

    tinfo = translate.regenerate()
    run.notes["translator"] = tinfo

    # 2. build proof module + driver
    targets = list(spec["modules"]) + ["bpdrv"]
    ok, log = common.lake_build(targets)
    theorems = spec["theorems"]
    cov["obligations"] = len(theorems)
    cov["checker_cmd"] = f"cd lean && lake build {' '.join(targets)} && lake env lean <#print axioms of {len(theorems)} theorems>"
    cov["theorems"] = theorems
    broken: list = []
    if not ok:
        import re as _re
        broken = sorted(set(m for l in log.splitlines() if l.startswith("✖") or l.startswith("- ") for m in _re.findall(r"\b(?:BpModel(?:\.\w+)+|bpdrv|Driver)\b", l)))
        run.notes["build_log_tail"] = log[-3000:]
        # the driver only needs the hand-written Model/, try to build it alone
        ok_drv, log2 = common.lake_build(["bpdrv"])
        if not ok_drv:
            print(log2[-2000:])
            print("infrastructure failure: bpdrv does not build", flush=True)
            run.finish()
            return 2
    # 3. audit
    axioms = {}
    bad_axioms = {}
    forbidden = common.grep_forbidden()
    if ok:
        axioms, raw = common.audit_axioms(spec["modules"][0], theorems)
        for t in theorems:
            if t not in axioms:
                bad_axioms[t] = ["<not found>"]
            elif not set(axioms[t]) <= common.ALLOWED_AXIOMS:
                bad_axioms[t] = axioms[t]
        if tier == "thorough" and spec.get("leanchecker", True):
            import subprocess

            mods = spec["modules"]
            p = subprocess.run(["lake", "env", "leanchecker"] + mods, cwd=common.LEAN_DIR, capture_output=True, text=True)
            run.notes["leanchecker"] = {"rc": p.returncode, "tail": (p.stdout + p.stderr)[-400:]}
            if p.returncode != 0:
                bad_axioms["<leanchecker>"] = [(p.stdout + p.stderr)[-200:]]
    discharged = 0 if not ok else len([t for t in theorems if t not in bad_axioms])
    if forbidden:
        discharged = 0
    cov["discharged"] = discharged
    cov["axioms"] = sorted({a for v in axioms.values() for a in v})
    cov["trusted_base"] = [
        "Lean 4.33.0 kernel (leanchecker re-check in the thorough tier)",
        "axioms: " + ", ".join(sorted({a for v in axioms.values() for a in v}) or ["none"]),
        "translator tools/translate.py (Python AST -> Lean) for Gen/*.lean",
        "correspondence harness tools/*.py and the native Lean driver bpdrv (compiled model)",
    ] + spec.get("trusted", [])
    run.assumptions += spec.get("assumptions", [])
    cov["rule"] = spec.get("rule", "")

    # 4+5. known findings, correspondence, implementation-vs-specification
    drv = common.Driver()
    run.drv = drv  # the reference decides whether a generated schema the compiler refused was valid at all (Run.violation)
    proofs_ok = ok and not bad_axioms and not forbidden
    budget_tier = tier if proofs_ok else "thorough"  # failing-input search gets the thorough budget ...
    if tier == "quick" and not proofs_ok:
        import time as _time
        run.deadline = _time.time() + float(os.environ.get("VERIF_SEARCH_SECONDS", "420"))  # ... for at most seven minutes when the quick check was asked for
    if spec.get("wire_corpus", False):
        from . import corpus, gen
        gen.SchemaGen.corpus_queue = corpus.corpus_schemas()
    try:
        spec["explore"](run, drv, rng, budget_tier)
    except common.StopExploration:
        pass
    except Exception:
        traceback.print_exc()
        print("infrastructure failure in exploration", flush=True)
        run.notes["exploration_error"] = traceback.format_exc()[-2000:]
        run.finish()
        return 2
    run.stopped_by_deadline = False  # the guard in Run.violation is about the exploration only, never about the verdict below
    run.deadline = None
    cov["driver_requests"] = drv.requests

    # 6. verdict
    disagreements = run.notes.get("model_disagreements", [])
    run.notes["model_disagreements_count"] = len(disagreements)
    run.notes["model_disagreements"] = disagreements[:5]
    if not run.violations:
        if not proofs_ok:
            run.violation(
                {"kind": "proof-obligation",
                 "broken": {"modules": broken, "axioms": bad_axioms, "forbidden": forbidden,
                            "theorems": theorems if not ok else sorted(bad_axioms)},
                 "note": "proof obligations no longer check against the current tree; the failing-input search "
                         "(thorough budget - bounded to seven minutes in the quick tier -, implementation vs Lean specification) "
                         "found no failing input",
                 "build_log_tail": run.notes.get("build_log_tail", "")[-1500:]},
                suffix="no-failing-input-found")
        elif disagreements:
            run.violation(
                {"kind": "impl-vs-model",
                 "broken": {"correspondence": spec.get("correspondence", pid)},
                 "note": "the implementation model no longer matches the code although the code matched the "
                         "specification on everything explored",
                 "examples": disagreements[:3]},
                suffix="no-failing-input-found")
    rc = run.finish()
    if replay is not None:
        same = [v for v in getattr(run, 'records', []) if v.get("kind") == replay.get("kind") and
                (replay.get("input") is None or v.get("input") == replay.get("input"))]
        print(f"REPLAY {'reproduced' if same else 'not reproduced on the current tree'} ({len(run.violations)} violation(s) in this run)", flush=True)
    return rc


if __name__ == "__main__":
    sys.exit(main())
