"""C12 — the wire format depends only on field numbers and resolved types.

A valid schema is generated, a random SEQUENCE of the listed rewrites is applied to a copy
(renaming; reordering field declarations; reordering independent definitions; introducing /
inlining an alias; moving a nested definition to top level; moving leading top-level definitions
into an imported file; comments / blank lines / optional semicolons; literal -> constant expression
of equal value; order-preserving renumbering), both versions are compiled by the REAL compiler and
the Python encoders of corresponding messages must produce identical bytes for corresponding values
(values are mapped through the rewrite); C is compared on a sample.
"""
from __future__ import annotations

import copy
import importlib
import os
import random
import sys
from typing import Any, Dict, List, Optional, Tuple

from . import common
from . import gen as G
from . import real as R

_case = [0]


def deps_of(d) -> List[Any]:
    out: List[Any] = []

    def wt(t):
        if isinstance(t, G.TArray):
            wt(t.elem)
        elif isinstance(t, G.TRef):
            out.append(t.d)

    def wd(x):
        if isinstance(x, G.AliasDef):
            wt(x.type)
        elif isinstance(x, G.MsgDef):
            for n in x.nested:
                wd(n)
            for f in x.fields:
                wt(f.type)

    wd(d)
    return out


def top_of(d):
    while getattr(d, "parent", None) is not None:
        d = d.parent
    return d


def inside(d, top) -> bool:
    return top_of(d) is top


def apply_rewrites(rng: random.Random, s2: G.Schema, tag: str) -> Tuple[G.Schema, List[str]]:
    """rewrites on the copy; returns (main schema of the rewritten program, names of rewrites applied)"""
    applied: List[str] = []
    kinds = ["rename", "reorder-fields", "reorder-defs", "alias-intro", "alias-inline", "unnest", "to-import", "const-expr", "renumber"]
    rng.shuffle(kinds)
    for kind in kinds[: rng.randint(1, 5)]:
        msgs = s2.messages()
        if kind == "rename":
            k = [0]

            POOL = ["Inner", "Deep", "Core", "Leaf", "Tiny"]

            def depth_of(d) -> int:
                n = 0
                while getattr(d, "parent", None) is not None:
                    d = d.parent
                    n += 1
                return n

            def ren(d, idx=0):
                k[0] += 1
                nested = getattr(d, "parent", None) is not None
                if isinstance(d, G.MsgDef):
                    # nested definitions get names from a small per-scope pool: the SAME simple name then occurs in
                    # different enclosing scopes (legal; only uniqueness per scope is required)
                    d.name = f"{POOL[min(depth_of(d), 5) - 1]}{chr(65 + idx)}" if nested else f"Rn{tag}M{chr(65 + k[0] % 26)}{chr(97 + k[0] // 26 % 26)}x"
                    for i2, n in enumerate(d.nested):
                        ren(n, i2)
                    for i, f in enumerate(d.fields):
                        f.name = f"renamed_{chr(97 + i % 26)}{chr(97 + i // 26 % 26)}"
                elif isinstance(d, G.EnumDef):
                    d.name = f"{POOL[min(depth_of(d), 5) - 1]}{chr(65 + idx)}" if nested else f"Rn{tag}E{chr(65 + k[0] % 26)}{chr(97 + k[0] // 26 % 26)}x"
                    d.members = [(f"RN{tag.upper()}_E{k[0]}_{chr(65 + i)}".replace("0", "Z").replace("1", "O"), v) for i, (_, v) in enumerate(d.members)]
                    d.members = [("".join(c if not c.isdigit() else "QRSTUVWXYZ"[int(c)] for c in n), v) for n, v in d.members]
                elif isinstance(d, G.AliasDef):
                    d.name = f"Rn{tag}A{chr(65 + k[0] % 26)}{chr(97 + k[0] // 26 % 26)}x"

            for d in s2.defs:
                ren(d)
            applied.append(kind)
        elif kind == "reorder-fields":
            for m in msgs:
                rng.shuffle(m.fields)
            applied.append(kind)
        elif kind == "reorder-defs":
            done = False
            for _ in range(6):
                if len(s2.defs) < 2:
                    break
                i = rng.randrange(len(s2.defs) - 1)
                a, b = s2.defs[i], s2.defs[i + 1]
                if isinstance(a, G.ConstDef) or isinstance(b, G.ConstDef):
                    continue
                if not any(inside(x, a) for x in deps_of(b)):
                    s2.defs[i], s2.defs[i + 1] = b, a
                    done = True
            if done:
                applied.append(kind)
        elif kind == "alias-intro":
            cands = [(m, f) for m in msgs for f in m.fields
                     if isinstance(f.type, (G.TBool, G.TByte, G.TUint, G.TInt)) or
                     (isinstance(f.type, G.TArray) and isinstance(f.type.elem, (G.TBool, G.TByte, G.TUint, G.TInt)))]
            if cands:
                m, f = rng.choice(cands)
                al = G.AliasDef(f"Intro{tag}{chr(65 + rng.randrange(26))}{chr(97 + rng.randrange(26))}q", f.type)
                if not any(getattr(d, "name", None) == al.name for d in s2.defs):
                    top = top_of(m)
                    s2.defs.insert(s2.defs.index(top), al)
                    f.type = G.TRef(al)
                    applied.append(kind)
        elif kind == "alias-inline":
            cands = [(m, f) for m in msgs for f in m.fields if isinstance(f.type, G.TRef) and isinstance(f.type.d, G.AliasDef)]
            if cands:
                m, f = rng.choice(cands)
                f.type = copy.copy(f.type.d.type)
                applied.append(kind)
        elif kind == "unnest":
            def within(x, n) -> bool:
                while x is not None:
                    if x is n:
                        return True
                    x = getattr(x, "parent", None)
                return False

            # only definitions that do not use siblings / enclosing definitions of their old scope can move out
            cands = [(m, n) for m in msgs for n in m.nested
                     if not any(inside(x, top_of(m)) and not within(x, n) for x in deps_of(n))]
            if cands:
                m, n = rng.choice(cands)
                m.nested.remove(n)
                n.parent = None
                n.name = f"Un{tag}{chr(65 + rng.randrange(26))}{chr(97 + rng.randrange(26))}{chr(97 + rng.randrange(26))}q"
                s2.defs.insert(s2.defs.index(top_of(m)), n)
                applied.append(kind)
        elif kind == "to-import" and not s2.imports:
            # a dependency-closed PREFIX of the top-level definitions moves to a new file
            k = rng.randint(1, max(1, len(s2.defs) - 1))
            moved, rest = s2.defs[:k], s2.defs[k:]
            if moved and rest:
                lib = G.Schema(f"lib{tag}", moved)
                G.set_home(lib)
                s2.defs = rest
                s2.imports.append((lib, rng.choice([None, f"imp{tag}"])))
                G.set_home(s2)
                applied.append(kind)
        elif kind == "const-expr":
            arrs = [f.type for m in msgs for f in m.fields if isinstance(f.type, G.TArray) and not getattr(f.type, "cap_text", None) and not getattr(f.type, "cap_const", None)]
            if arrs:
                a = rng.choice(arrs)
                cname = f"CAP_{tag.upper()}_{chr(65 + rng.randrange(26))}{chr(65 + rng.randrange(26))}".replace("0", "Z").replace("1", "O")
                cname = "".join(c if not c.isdigit() else "QRSTUVWXYZ"[int(c)] for c in cname)
                x = rng.randint(0, 5)
                nb, nc = rng.randint(2, 9), rng.choice([2, 3, 4])
                q = -((1 - nb) // nc)  # floor division of a negative, non-exact dividend
                expr = rng.choice([f"{a.cap + x} - {x}", f"({a.cap} * 2) / 2", f"{a.cap} + 0 * 7", f"0x{a.cap:x}",
                                   f"{a.cap + q} + (1 - {nb}) / {nc}",
                                   # chains: left associativity and precedence decide the value
                                   f"{a.cap + x + nb} - {x} - {nb}", f"{a.cap - x * nc if a.cap > x * nc else a.cap + 0} + {x if a.cap > x * nc else 0} * {nc}",
                                   f"{a.cap * nc * 2} / {nc} / 2", f"{nb} * {nc} + {a.cap} - {nb * nc}", f"{a.cap + nb} - {nb * nc} / {nc}"])
                if not any(getattr(d, "name", None) == cname for d in s2.defs):
                    cd = G.ConstDef(cname, a.cap, expr)
                    cd.home = s2
                    s2.defs.insert(0, cd)
                    a.cap_const = cd
                    applied.append(kind)
        elif kind == "renumber":
            for m in msgs:
                if m.fields:
                    new = sorted(rng.sample(range(1, 256), len(m.fields))) if rng.random() < 0.5 else list(range(1, len(m.fields) + 1))
                    for f, n in zip(sorted(m.fields, key=lambda f: f.num), new):
                        f.num = n
            applied.append(kind)
    return s2, applied


def trivia(rng: random.Random, text: str) -> str:
    out = []
    for line in text.split("\n"):
        if rng.random() < 0.15:
            out.append(rng.choice(["", "// a comment", "    // another", "  "]))
        if line and not line.rstrip().endswith(("{", "}")) and not line.startswith("proto") and "//" not in line and rng.random() < 0.3:
            line = line.rstrip(";") + (";" if not line.rstrip().endswith(";") else "")
        if line.strip() and rng.random() < 0.1 and not line.strip().startswith("//"):
            line = line + "  // trailing"
        out.append(line)
    return "\n".join(out)


def map_value(t_old, v, memo) -> Any:
    if isinstance(t_old, G.TArray):
        return [map_value(t_old.elem, x, memo) for x in v]
    if isinstance(t_old, G.TRef):
        d = t_old.d
        if isinstance(d, G.AliasDef):
            return map_value(d.type, v, memo)
        if isinstance(d, G.MsgDef):
            return {memo[id(f)].num: map_value(f.type, v[f.num], memo) for f in d.fields}
    return v


class ModSet:
    """attribute lookup across the generated modules of one program (definition names are unique)"""

    def __init__(self, mods) -> None:
        self._mods = list(mods)

    def __getattr__(self, name: str):
        for m in self._mods:
            if hasattr(m, name):
                return getattr(m, name)
        raise AttributeError(name)


def compile_program(d: str, main: G.Schema, rng: random.Random, with_trivia: bool):
    files = G.program_files(main, rng)
    if with_trivia:
        files = {n: trivia(rng, t) for n, t in files.items()}
    for n, t in files.items():
        open(os.path.join(d, n), "w").write(t)
    mods = {}
    for f in main.all_files():
        proto = R.parse_file(os.path.join(d, f.base() + ".bitproto"))
        out = R.render_strings(proto, "py")[".py"]
        open(os.path.join(d, f.base() + "_bp.py"), "w").write(out)
    sys.path.insert(0, d)
    try:
        importlib.invalidate_caches()
        for f in main.all_files():
            mods[id(f)] = importlib.import_module(f.base() + "_bp")
    finally:
        sys.path.remove(d)
    return files, mods


def check(run: common.Run, drv: common.Driver, rng: random.Random, tier: str) -> None:
    n = 160 if tier == "quick" else 3000
    c_budget = [14 if tier == "quick" else 220]
    with R.Scratch() as sc:
        for k in range(n):
            _case[0] += 1
            tag = f"{'abcdefghij'[_case[0] % 10]}{'klmnopqrst'[_case[0] // 10 % 10]}{'uvwxyz'[_case[0] // 100 % 6]}{'abcdefghij'[_case[0] // 600 % 10]}"
            g = G.SchemaGen(rng, G.GenOpts())
            g.counter = rng.randrange(500)
            s1 = g.schema()
            s1.proto = f"orig{tag}"
            G.set_home(s1)
            memo: Dict[int, Any] = {}
            s2 = copy.deepcopy(s1, memo)
            s2.proto = f"rewr{tag}"
            s2, applied = apply_rewrites(rng, s2, tag)
            d1, d2 = sc.path(f"a{k}"), sc.path(f"b{k}")
            os.makedirs(d1)
            os.makedirs(d2)
            try:
                files1, mods1 = compile_program(d1, s1, rng, False)
                files2, mods2 = compile_program(d2, s2, rng, True)
            except Exception as e:
                run.violation({"kind": "impl-vs-spec", "input": {"rewrites": applied, "files_rewritten": G.program_files(s2)},
                               "observed_impl": f"{type(e).__name__}: {e}",
                               "expected_by_spec": "the rewritten schema is valid and compiles like the original"})
                continue
            applied.append("trivia")
            # C (standard mode, and -O when the schema is traditional) on a sample of single-file pairs
            cmods: List[Tuple[str, Any, Any]] = []
            if c_budget[0] > 0 and not s1.imports and not s2.imports:
                c_budget[0] -= 1
                from . import creal
                from .props_c15 import has_ext as _has_ext

                try:
                    t1, t2 = files1[f"{s1.base()}.bitproto"], files2[f"{s2.base()}.bitproto"]
                    cmods.append(("c", creal.CModule(sc, s1, t1, f"{s1.base()}"), creal.CModule(sc, s2, t2, f"{s2.base()}")))
                    if not _has_ext(s1) and not _has_ext(s2):
                        cmods.append(("c -O", creal.CModule(sc, s1, t1, f"{s1.base()}", optimize=True), creal.CModule(sc, s2, t2, f"{s2.base()}", optimize=True)))
                        # the value-based statements of the big-endian branch do not depend on the host's byte order
                        be = ("-O2", "-DBP_BIG_ENDIAN")
                        cmods.append(("c -O (big-endian branch)", creal.CModule(sc, s1, t1, f"{s1.base()}", optimize=True, cflags=be),
                                      creal.CModule(sc, s2, t2, f"{s2.base()}", optimize=True, cflags=be)))
                    run.count("pairs_compiled_to_c")
                except Exception as e:
                    run.count("c_build_skipped:" + type(e).__name__)
                    run.notes.setdefault("c_build_skipped", []).append(str(e)[-300:])
            for m1 in s1.messages():
                m2 = memo[id(m1)]
                mod1, mod2 = ModSet(mods1.values()), ModSet(mods2.values())
                for _ in range(3):
                    run.evaluated()
                    v1 = G.rand_msg_value(rng, m1)
                    v2 = map_value(G.TRef(m1), v1, memo)
                    for rw in applied:
                        run.count(f"rewrite:{rw}")
                    run.nontrivial(("pair", tuple(sorted(set(applied))), G.msg_nbits(m1)))
                    try:
                        b1 = bytes(R.py_build(mod1, m1, v1).encode()).hex()
                        b2 = bytes(R.py_build(mod2, m2, v2).encode()).hex()
                    except Exception as e:
                        b1, b2 = "?", f"{type(e).__name__}: {e}"
                    if k < 2:
                        run.sample({"rewrites": applied, "message": m1.name, "bytes": b1}, limit=3)
                    for (cname, cm1, cm2) in cmods:
                        try:
                            cb1, cb2 = cm1.encode(m1, v1)[0].hex(), cm2.encode(m2, v2)[0].hex()
                        except Exception as e:
                            cb1, cb2 = "?", f"{type(e).__name__}: {e}"
                        if not (cb1 == cb2 == b1):
                            run.violation({"kind": "impl-vs-spec", "language": cname,
                                           "input": {"files_original": files1, "files_rewritten": files2, "rewrites": applied,
                                                     "message_original": G.py_name(m1), "message_rewritten": G.py_name(m2),
                                                     "value_original": G.msg_val_json(m1, v1)},
                                           "observed_impl": {"original": cb1, "rewritten": cb2, "python": b1},
                                           "expected_by_spec": "identical bytes for corresponding values, in every language and mode"})
                    if b1 != b2:
                        run.violation({"kind": "impl-vs-spec", "input": {"files_original": files1, "files_rewritten": files2, "rewrites": applied,
                                                                          "message_original": G.py_name(m1), "message_rewritten": G.py_name(m2),
                                                                          "value_original": G.msg_val_json(m1, v1)},
                                       "observed_impl": {"original": b1, "rewritten": b2},
                                       "expected_by_spec": "identical bytes for corresponding values"})
            for mm in list(mods1.values()) + list(mods2.values()):
                sys.modules.pop(mm.__name__, None)
