"""C19 — Go standard-mode output describes the same messages as the Python output.

No Go toolchain exists here, so the generated `.go` text is parsed structurally: struct fields
(order, Go types, JSON tags), size constants, the processor tree (constructor expressions resolved
through enum / alias / message BpProcessor methods), the BpSetByte / BpGetByte / BpGetAccessor /
BpProcessInt switch tables (case label, data reference, array index depth, conversion type, sign
shifts).  All of it is compared with (a) the abstract schema the harness generated and (b) the
processor tree of the generated PYTHON module (objects of the real bitprotolib), which C01/C02
execute.  The Go runtime's helper arithmetic is tied by the translator + theorems (Props/C19.lean).
"""
from __future__ import annotations

import os
import random
import re
from typing import Any, Dict, List, Optional, Tuple

from . import common
from . import gen as G
from . import real as R
from .props_c import storage_size
from .props_op import go_pascal


def go_name(d) -> str:
    """Go name of a definition: messages concatenated with their enclosing messages, enums/aliases
    joined by '_' (documented scheme)"""
    names = G.scope_names(d)
    if isinstance(d, G.MsgDef):
        return "".join(names)
    return "_".join(names)


def go_scalar_type(t) -> str:
    if isinstance(t, G.TBool):
        return "bool"
    if isinstance(t, G.TByte):
        return "byte"
    if isinstance(t, G.TUint):
        return f"uint{8 * storage_size(t.n)}"
    if isinstance(t, G.TInt):
        return f"int{8 * storage_size(t.n)}"
    if isinstance(t, G.TRef):
        return go_name(t.d)
    raise TypeError(t)


def go_type(t) -> str:
    if isinstance(t, G.TArray):
        return f"[{t.cap}]{go_type(t.elem)}"
    return go_scalar_type(t)


def schema_tree(t) -> Any:
    """the processor tree the schema demands"""
    if isinstance(t, G.TBool):
        return ["bool"]
    if isinstance(t, G.TByte):
        return ["byte"]
    if isinstance(t, G.TUint):
        return ["uint", t.n]
    if isinstance(t, G.TInt):
        return ["int", t.n]
    if isinstance(t, G.TArray):
        return ["array", t.ext, t.cap, schema_tree(t.elem)]
    d = t.d
    if isinstance(d, G.EnumDef):
        return ["enum", ["uint", d.nbits]]
    if isinstance(d, G.AliasDef):
        return ["alias", schema_tree(d.type)]
    return ["msg", d.ext, G.msg_nbits(d), [[f.num, schema_tree(f.type)] for f in sorted(d.fields, key=lambda f: f.num)]]


def py_tree(p) -> Any:
    n = type(p).__name__
    if n == "Bool":
        return ["bool"]
    if n == "Byte":
        return ["byte"]
    if n == "Uint":
        return ["uint", p.nbits]
    if n == "Int":
        return ["int", p.nbits]
    if n == "Array":
        return ["array", bool(p.extensible), p.capacity, py_tree(p.element_processor)]
    if n == "EnumProcessor":
        return ["enum", py_tree(p.ut)]
    if n == "AliasProcessor":
        return ["alias", py_tree(p.to)]
    if n == "MessageProcessor":
        return ["msg", bool(p.extensible), p.nbits, [[fp.field_number, py_tree(fp.type_processor)] for fp in p.field_processors]]
    return ["?", n]


class GoText:
    def __init__(self, text: str) -> None:
        self.text = text

    def method(self, recv: str, name: str) -> Optional[str]:
        m = re.search(r"^func \(\w+ \*?" + re.escape(recv) + r"\) " + name + r"\(.*?\) ?[\w.\[\]]* ?\{\n(.*?)^\}", self.text, re.S | re.M)
        return m.group(1) if m else None

    def split_args(self, s: str) -> List[str]:
        out, depth, cur = [], 0, ""
        for c in s:
            if c in "([{":
                depth += 1
            if c in ")]}":
                depth -= 1
            if c == "," and depth == 0:
                out.append(cur.strip())
                cur = ""
            else:
                cur += c
        if cur.strip():
            out.append(cur.strip())
        return out

    def proc_expr(self, e: str, seen: Tuple[str, ...] = ()) -> Any:
        e = e.strip()
        m = re.match(r"^bp\.New(Uint|Int)\((\d+)\)$", e)
        if m:
            return [m.group(1).lower(), int(m.group(2))]
        if e == "bp.NewBool()":
            return ["bool"]
        if e == "bp.NewByte()":
            return ["byte"]
        m = re.match(r"^bp\.NewArray\((.*)\)$", e)
        if m:
            a = self.split_args(m.group(1))
            if len(a) == 3:
                return ["array", a[0] == "true", int(a[1]), self.proc_expr(a[2], seen)]
        m = re.match(r"^bp\.NewEnumProcessor\((.*)\)$", e)
        if m:
            return ["enum", self.proc_expr(m.group(1), seen)]
        m = re.match(r"^bp\.NewAliasProcessor\((.*)\)$", e)
        if m:
            return ["alias", self.proc_expr(m.group(1), seen)]
        m = re.match(r"^\((\w+)\((0|false)\)\)\.BpProcessor\(\)$", e) or re.match(r"^\((\w+)(\{\})\)\.BpProcessor\(\)$", e)
        if m:
            # the receiver must be a value of the named type: T(false) for a bool type, T(0) for integer / byte / enum types,
            # T{} for array types (anything else is not a Go expression of that type)
            decl = re.search(r"^type " + m.group(1) + r" (\S+)", self.text, re.M)
            if decl:
                under = decl.group(1)
                form = "false" if under == "bool" else "0" if re.match(r"^(u?int(8|16|32|64)|byte)$", under) else "{}" if under.startswith("[") else None
                if form is not None and form != m.group(2):
                    return ["?receiver-is-not-a-value-of-its-type", m.group(1), under, m.group(2)]
            body = self.method(m.group(1), "BpProcessor")
            if body and m.group(1) not in seen:
                r = re.search(r"return (.*)$", body.strip(), re.M)
                if r:
                    return self.proc_expr(r.group(1), seen + (m.group(1),))
            return ["?unresolved", m.group(1)]
        m = re.match(r"^\(&(\w+)\{\}\)\.BpProcessor\(\)$", e)
        if m:
            return self.msg_tree(m.group(1), seen)
        return ["?", e]

    def msg_tree(self, name: str, seen: Tuple[str, ...] = ()) -> Any:
        if name in seen:
            return ["?cycle", name]
        body = self.method(name, "BpProcessor")
        if body is None:
            return ["?nomethod", name]
        fields = []
        for m in re.finditer(r"bp\.NewMessageFieldProcessor\((\d+), (.*)\),\n", body):
            fields.append([int(m.group(1)), self.proc_expr(m.group(2), seen + (name,))])
        r = re.search(r"return bp\.NewMessageProcessor\((true|false), (\d+), fieldDescriptors\)", body)
        if not r:
            return ["?noreturn", name]
        return ["msg", r.group(1) == "true", int(r.group(2)), fields]

    def struct_fields(self, name: str) -> Optional[List[Tuple[str, str, str]]]:
        m = re.search(r"^type " + re.escape(name) + r" struct \{\n(.*?)^\}", self.text, re.S | re.M)
        if not m:
            return None
        out = []
        for line in m.group(1).split("\n"):
            line = line.strip()
            if not line or line.startswith("//"):
                continue
            f = re.match(r'^(\w+) (\S+) `json:"(\w+)"`', line)
            out.append((f.group(1), f.group(2), f.group(3)) if f else ("?", line, "?"))
        return out

    def cases(self, recv: str, name: str) -> Optional[Dict[int, List[str]]]:
        body = self.method(recv, name)
        if body is None:
            return None
        out: Dict[int, List[str]] = {}
        cur = None
        for line in body.split("\n"):
            s = line.strip()
            m = re.match(r"^case (\d+):$", s)
            if m:
                cur = int(m.group(1))
                if cur in out:
                    out[cur].append("<duplicate case>")
                out.setdefault(cur, [])
            elif s.startswith("default:"):
                cur = None
            elif cur is not None and s and s != "}" and not s.startswith("switch"):
                out[cur].append(s)
        return out


def scalar_of(t) -> Tuple[Any, int, Any]:
    """(scalar leaf type or None for messages, array depth, the type whose Go name converts the byte)"""
    depth = 0
    conv = None
    while True:
        if isinstance(t, G.TArray):
            depth += 1
            t = t.elem
        elif isinstance(t, G.TRef) and isinstance(t.d, G.AliasDef):
            if conv is None and not isinstance(t.d.type, G.TArray):
                conv = t
            t = t.d.type
        else:
            break
    if isinstance(t, G.TRef) and isinstance(t.d, G.MsgDef):
        return None, depth, t
    return t, depth, conv or t


def check(run: common.Run, drv: common.Driver, rng: random.Random, tier: str) -> None:
    n = 40 if tier == "quick" else 900
    with R.Scratch() as sc:
        for k in range(n):
            g = G.SchemaGen(rng, G.GenOpts(shared_nested_names=0.35, twin_scopes=0.3))
            s = g.schema()
            # field names that read like methods the Go output itself declares (Size(), String()): the struct field, its JSON
            # tag and every accessor must still be about THAT field
            for m in s.messages():
                for fname in ("size", "string"):
                    if m.fields and rng.random() < 0.15 and not any(f.name == fname for f in m.fields):
                        rng.choice(m.fields).name = fname
                        run.count("field-named-like-a-go-method")
            text = G.schema_text(s, rng)
            path = sc.write(f"g{k}.bitproto", text)
            try:
                proto = R.parse_file(path)
                go = GoText(R.render_strings(proto, "go")[".go"])
                mod = R.load_py_module(R.render_strings(proto, "py")[".py"], f"g{k}")
            except Exception as e:
                run.violation({"kind": "compile-failed", "input": {"files": {"main.bitproto": text}}, "observed_impl": f"{type(e).__name__}: {e}"})
                continue
            for m in s.messages():
                run.evaluated()
                name = go_name(m)
                rep = {"input": {"files": {"main.bitproto": text}, "message": name}}
                problems: List[str] = []
                # --- processor tree: Go vs schema vs Python
                want = schema_tree(G.TRef(m))
                gt = go.msg_tree(name)
                try:
                    pt = py_tree(getattr(mod, G.py_name(m))().bp_processor())
                except Exception as e:
                    pt = ["?py", str(e)]
                run.nontrivial(("tree", str(want)[:300]))
                if gt != want:
                    problems.append(f"Go processor tree {gt} != schema {want}")
                if pt != want:
                    problems.append(f"Python processor tree {pt} != schema {want}")
                # --- struct
                sf = go.struct_fields(name)
                exp_sf = [(go_pascal(f.name), go_type(f.type), f.name) for f in sorted(m.fields, key=lambda f: f.num)]
                if sf != exp_sf:
                    problems.append(f"Go struct fields {sf} != {exp_sf}")
                # --- size constant = Python's
                nb = (G.msg_nbits(m) + 7) // 8
                cn = "BYTES_LENGTH_" + re.sub(r"(?<!^)(?=[A-Z])", "_", name).upper()
                mc = re.search(r"^const " + cn + r" uint32 = (\d+)$", go.text, re.M)
                ms = re.search(r"^func \(m \*" + name + r"\) Size\(\) uint32 \{ return (\d+) \}", go.text, re.M)
                pyb = getattr(getattr(mod, G.py_name(m)), "BYTES_LENGTH", None)
                if not mc or int(mc.group(1)) != nb or not ms or int(ms.group(1)) != nb or pyb != nb:
                    problems.append(f"size constant: go const {mc.group(1) if mc else None}, Size() {ms.group(1) if ms else None}, python {pyb}, expected {nb}")
                # --- accessor tables
                setb, getb, acc, pint = (go.cases(name, "BpSetByte"), go.cases(name, "BpGetByte"), go.cases(name, "BpGetAccessor"),
                                         go.cases(name, "BpProcessInt"))
                if None in (setb, getb, acc, pint):
                    problems.append("accessor method missing")
                else:
                    exp_set, exp_get, exp_acc, exp_int = {}, {}, {}, {}
                    for f in m.fields:
                        leaf, depth, conv = scalar_of(f.type)
                        ref = f"m.{go_pascal(f.name)}" + "".join(f"[di.I({i})]" for i in range(depth))
                        if leaf is None:
                            exp_acc[f.num] = [f"return &({ref})"]
                            continue
                        ct = go_scalar_type(conv)
                        if isinstance(leaf, G.TBool):
                            exp_set[f.num] = [f"{ref} = bp.Byte2bool(b)" if ct == "bool" else f"{ref} = {ct}(bp.Byte2bool(b))"]
                            exp_get[f.num] = [f"return bp.Bool2byte({ref}) >> rshift" if ct == "bool" else f"return bp.Bool2byte(bool({ref})) >> rshift"]
                        else:
                            exp_set[f.num] = [f"{ref} |= ({ct}(b) << lshift)"]
                            exp_get[f.num] = [f"return byte({ref} >> rshift)"]
                        if isinstance(leaf, G.TInt) and leaf.n not in (8, 16, 32, 64):
                            d = 8 * storage_size(leaf.n) - leaf.n
                            exp_int[f.num] = [f"{ref} <<= {d}", f"{ref} >>= {d}"]
                    for label, got, exp in (("BpSetByte", setb, exp_set), ("BpGetByte", getb, exp_get), ("BpGetAccessor", acc, exp_acc),
                                            ("BpProcessInt", pint, exp_int)):
                        if got != exp:
                            diff = [k2 for k2 in set(got) | set(exp) if got.get(k2) != exp.get(k2)]
                            problems.append(f"{label} case {diff[:2]}: go {[got.get(x) for x in diff[:2]]} expected {[exp.get(x) for x in diff[:2]]}")
                    for f in m.fields:
                        leaf, depth, conv = scalar_of(f.type)
                        run.count(f"accessor:{type(leaf).__name__ if leaf is not None else 'message'}:depth{depth}")
                if problems:
                    run.violation(dict(rep, kind="impl-vs-spec", observed_impl=problems[:4],
                                       expected_by_spec="Go output describes the same message as the schema and the Python output"))
            R.unload(mod)


# ===================================================================== Go runtime helpers, evaluated (no Go toolchain)
class _GoHelperEval:
    """evaluates the pure helper functions of lib/go/bitproto.go (`func f(params) T { (if c { return e })* return e }`)
    with Go's operator precedence (`* / % << >> &` bind tighter than `+ - |`, comparisons lowest) and `byte`-typed
    shifts wrapping at 8 bits"""

    PREC = {"*": 5, "/": 5, "%": 5, "<<": 5, ">>": 5, "&": 5, "+": 4, "-": 4, "|": 4, "==": 3, "!=": 3, "<": 3, "<=": 3, ">": 3, ">=": 3}

    def __init__(self, src: str) -> None:
        self.funcs: Dict[str, Tuple[List[Tuple[str, str]], str, List[Tuple[Optional[str], str]]]] = {}
        for m in re.finditer(r"^func (\w+)\(([^)]*)\) (\w+) \{\n(.*?)^\}", src, re.S | re.M):
            name, params_s, ret, body = m.groups()
            params: List[Tuple[str, str]] = []
            pending: List[str] = []
            for part in [p.strip() for p in params_s.split(",") if p.strip()]:
                bits = part.split()
                if len(bits) == 2:
                    params += [(q, bits[1]) for q in pending + [bits[0]]]
                    pending = []
                else:
                    pending.append(bits[0])
            stmts = [l.strip() for l in body.split("\n") if l.strip() and not l.strip().startswith("//")]
            clauses: List[Tuple[Optional[str], str]] = []
            i, ok = 0, True
            while i < len(stmts):
                mi = re.match(r"^if (.*) \{$", stmts[i])
                if mi and i + 2 < len(stmts) and stmts[i + 1].startswith("return ") and stmts[i + 2] == "}":
                    clauses.append((mi.group(1), stmts[i + 1][7:]))
                    i += 3
                elif stmts[i].startswith("return "):
                    clauses.append((None, stmts[i][7:]))
                    i += 1
                else:
                    ok = False
                    break
            if ok and clauses:
                self.funcs[name] = (params, ret, clauses)

    def call(self, name: str, args: List[Any]) -> Any:
        params, ret, clauses = self.funcs[name]
        env = {p: (a, t) for (p, t), a in zip(params, args)}
        for cond, e in clauses:
            if cond is None or self.ev(cond, env)[0]:
                v, t = self.ev(e, env)
                if ret == "byte" and not isinstance(v, bool):
                    v &= 0xFF
                return v
        raise ValueError("no return")

    def ev(self, text: str, env: Dict[str, Tuple[Any, str]]) -> Tuple[Any, str]:
        from .translate_go import tokenize

        toks = tokenize(text)
        v, t, i = self._expr(toks, 0, 1, env)
        if i != len(toks):
            raise ValueError(f"trailing tokens in {text!r}")
        return v, t

    def _atom(self, toks, i, env):
        t = toks[i]
        if t == "(":
            v, ty, i = self._expr(toks, i + 1, 1, env)
            return v, ty, i + 1
        if t.isdigit():
            return int(t), "untyped", i + 1
        if t in ("true", "false"):
            return t == "true", "bool", i + 1
        if i + 1 < len(toks) and toks[i + 1] == "(":
            args, i = [], i + 2
            while toks[i] != ")":
                v, ty, i = self._expr(toks, i, 1, env)
                args.append(v)
                if toks[i] == ",":
                    i += 1
            return self.call(t, args), self.funcs[t][1], i + 1
        return env[t][0], env[t][1], i + 1

    def _expr(self, toks, i, p, env):
        l, lt, i = self._atom(toks, i, env)
        while i < len(toks) and toks[i] in self.PREC and self.PREC[toks[i]] >= p:
            op = toks[i]
            r, rt, i = self._expr(toks, i + 1, self.PREC[op] + 1, env)
            if op in ("==", "!=", "<", "<=", ">", ">="):
                l, lt = {"==": l == r, "!=": l != r, "<": l < r, "<=": l <= r, ">": l > r, ">=": l >= r}[op], "bool"
                continue
            if op in ("<<", ">>") and not 0 <= r < 512:
                raise ValueError("shift count")
            res = (l * r if op == "*" else int(l / r) if op == "/" else (abs(l) % abs(r)) * (1 if l >= 0 else -1) if op == "%" else l << r if op == "<<"
                   else l >> r if op == ">>" else l & r if op == "&" else l + r if op == "+" else l - r if op == "-" else l | r)
            ty = lt if op in ("<<", ">>") or lt != "untyped" else rt
            if ty == "byte":
                res &= 0xFF
            l, lt = res, ty
        return l, lt, i


def check_go_helpers(run: common.Run) -> None:
    """the four arithmetic helpers of the Go runtime against the Python runtime's, on the whole argument grid the runtime
    can produce (bit offsets 0..7, widths 1..64)"""
    from bitprotolib import bp

    src = open(os.path.join(common.REPO, "lib/go/bitproto.go")).read()
    ev = _GoHelperEval(src)
    missing = [f for f in ("min", "getNbitsToCopy", "getMask", "smartShift", "Bool2byte", "Byte2bool") if f not in ev.funcs]
    if missing:
        run.notes.setdefault("model_disagreements", []).append({"what": "Go helper outside the evaluable subset", "functions": missing})
        return
    cases: List[Tuple[str, List[Any], Any]] = []
    for k in range(8):
        for c in range(0, 9 - k):
            cases.append(("getMask", [k, c], bp.get_mask(k, c)))
    for n in (1, 2, 3, 7, 8, 9, 15, 16, 17, 31, 32, 33, 63, 64):
        for i in range(0, 24):
            for j in range(0, n):
                cases.append(("getNbitsToCopy", [i, j, n], bp.get_nbits_to_copy(i, j, n)))
    for n in (0, 1, 0x55, 0x80, 0xAA, 0xFF, 0x7F):
        for k in range(-7, 8):
            cases.append(("smartShift", [n, k], bp.smart_shift(n, k) & 0xFF))
    for a in range(-2, 10):
        for b in range(-2, 10):
            cases.append(("min", [a, b], min(a, b)))
    cases += [("Bool2byte", [True], 1), ("Bool2byte", [False], 0), ("Byte2bool", [0], False), ("Byte2bool", [1], True), ("Byte2bool", [255], True)]
    for (f, args, want) in cases:
        run.evaluated()
        run.count("go_helper:" + f)
        try:
            got = ev.call(f, args)
        except Exception as e:
            got = f"{type(e).__name__}: {e}"
        if got != want:
            run.violation({"kind": "impl-vs-spec", "input": {"go_helper": f, "arguments": args, "source": "lib/go/bitproto.go (evaluated with Go precedence and byte wrap-around)"},
                           "observed_impl": got, "expected_by_spec": {"python_runtime": want}})
