"""Front-end program generator for C08 / C11: surface programs as item trees with shadowing,
dotted paths, imports (with/without `as`), constants, options; an independent resolver and
elaborator (the harness' reading of the documented rules); a printer that assigns line numbers;
the JSON form of the tree for the Lean driver (`front.check`); and a catalogue of single-violation
mutants with the expected rule and line."""
from __future__ import annotations

import copy
import random
from typing import Any, Dict, List, Optional, Tuple

DEF_NAMES = ["Alpha", "Beta", "Gamma", "Delta", "Kind", "Unit", "Node", "Item"]
CONST_NAMES = ["LIMIT", "SIZE", "COUNT", "WIDTH"]


# ------------------------------------------------------------------ entities / resolver (harness' own)
def lookup(scope: List[Tuple[str, dict]], name: str) -> Optional[dict]:
    for (n, e) in scope:
        if n == name:
            return e
    return None


def lookup_path(scope, path: List[str]) -> Optional[dict]:
    e = lookup(scope, path[0])
    if len(path) == 1:
        return e
    if e is None or e["kind"] not in ("msg", "enum", "proto"):
        return None
    return lookup_path(e["members"], path[1:])


def resolve(stack: List[List[Tuple[str, dict]]], path: List[str]) -> Optional[dict]:
    """stack: innermost scope first"""
    for scope in stack:
        e = lookup_path(scope, path)
        if e is not None:
            return e
    return None


def norm_ty(t: Any) -> Any:
    """fields sorted by number (what the driver / wire layers compare)"""
    if isinstance(t, dict):
        if "msg" in t:
            return {"msg": sorted(({"num": f["num"], "ty": norm_ty(f["ty"])} for f in t["msg"]), key=lambda f: f["num"]), "ext": t["ext"]}
        if "alias" in t:
            return {"alias": norm_ty(t["alias"])}
        if "array" in t:
            return {"array": norm_ty(t["array"]), "cap": t["cap"], "ext": t["ext"]}
    return t


def ty_bits(t: Any) -> int:
    if t == "bool":
        return 1
    if t == "byte":
        return 8
    if "uint" in t:
        return t["uint"]
    if "int" in t:
        return t["int"]
    if "enum" in t:
        return t["enum"]
    if "alias" in t:
        return ty_bits(t["alias"])
    if "array" in t:
        return (16 if t["ext"] else 0) + t["cap"] * ty_bits(t["array"])
    return (16 if t["ext"] else 0) + sum(ty_bits(f["ty"]) for f in t["msg"])


# ------------------------------------------------------------------ generator
class FrontGen:
    def __init__(self, rng: random.Random, ext_ok: bool = True) -> None:
        self.rng = rng
        self.ext_ok = ext_ok
        self.uid = 0

    # ---- type expressions
    def base(self) -> Any:
        r = self.rng
        k = r.random()
        if k < 0.15:
            return "bool"
        if k < 0.25:
            return "byte"
        if k < 0.65:
            return {"uint": r.choice([1, 3, 7, 8, 13, 16, 24, 32, 33, 64])}
        return {"int": r.choice([1, 2, 5, 8, 12, 16, 31, 32, 48, 64])}

    def type_paths(self, stack) -> List[List[str]]:
        """candidate dotted paths (length <= 3) built from visible names"""
        out: List[List[str]] = []
        for scope in stack:
            for (n, e) in scope:
                out.append([n])
                if e["kind"] in ("msg", "proto"):
                    for (n2, e2) in e["members"]:
                        out.append([n, n2])
                        if e2["kind"] == "msg":
                            for (n3, _) in e2["members"]:
                                out.append([n, n2, n3])
        return out

    def tyexpr(self, stack, aliasable_only: bool = False, elem: bool = False) -> Tuple[Any, Any]:
        """returns (type expression, elaborated Ty) valid at this point"""
        r = self.rng
        k = r.random()
        if not elem and k < 0.22:
            e, et = self.tyexpr(stack, aliasable_only=False, elem=True)
            cap_e, cap = self.cap(stack)
            ext = self.ext_ok and r.random() < 0.3
            return {"array": e, "cap": cap_e, "ext": ext}, {"array": et, "cap": cap, "ext": ext}
        if not aliasable_only and k < 0.65:
            paths = self.type_paths(stack)
            r.shuffle(paths)
            for p in paths[:12]:
                ent = resolve(stack, p)
                if ent is not None and ent["kind"] in ("msg", "enum", "alias") and not ent.get("open"):
                    if elem and ent["kind"] == "alias" and False:
                        continue
                    return {"ref": p}, ent["ty"]
        b = self.base()
        return b, b

    def cap(self, stack) -> Tuple[Any, int]:
        r = self.rng
        if r.random() < 0.3:
            for p in [[n] for n in CONST_NAMES] + [[s, n] for (s, e) in stack[-1] if e["kind"] == "proto" for n in CONST_NAMES]:
                ent = resolve(stack, p)
                if ent is not None and ent["kind"] == "const" and isinstance(ent["value"], int) and not isinstance(ent["value"], bool) and 0 < ent["value"] < 40:
                    return {"cref": p}, ent["value"]
        n = r.choice([1, 2, 3, 4, 7, 8])
        return {"lit": n}, n

    # ---- definitions
    def unused(self, scope, pool) -> Optional[str]:
        names = [n for n in pool if lookup(scope, n) is None]
        return self.rng.choice(names) if names else None

    def enum(self, stack, scope) -> Optional[Tuple[dict, dict]]:
        r = self.rng
        name = self.unused(scope, DEF_NAMES)
        if not name:
            return None
        nbits = r.choice([1, 2, 3, 5, 8, 11, 16, 32])
        k = r.randint(1, min(4, 2 ** nbits))
        vals = r.sample(range(min(2 ** nbits, 50)), k)
        if 0 not in vals:
            vals[0] = 0
        self.uid += 1
        members = [{"name": f"{name.upper()}_{'ABCD'[i]}{self.uid}", "value": v} for i, v in enumerate(vals)]
        item = {"k": "enum", "name": name, "nbits": nbits, "members": members}
        ent = {"kind": "enum", "members": [(m["name"], {"kind": "enumfield"}) for m in members],
               "ty": {"enum": nbits, "members": vals}}
        return item, ent

    def message(self, stack, scope, depth: int) -> Optional[Tuple[dict, dict]]:
        r = self.rng
        name = self.unused(scope, DEF_NAMES)
        if not name:
            return None
        ext = self.ext_ok and r.random() < 0.3
        items: List[dict] = []
        inner: List[Tuple[str, dict]] = []
        st = [inner] + stack
        fields: List[dict] = []
        n_nested = r.choice([0, 0, 1, 1, 2]) if depth < 3 else 0
        nf = r.randint(0, 4)
        order = ["n"] * n_nested + ["f"] * nf
        r.shuffle(order)  # nested definitions and fields interleaved: later fields see more definitions
        nums = r.sample(range(1, 256), nf) if r.random() < 0.5 else r.sample(range(1, nf + 2), nf)
        fi = 0
        for o in order:
            if o == "n":
                d = self.enum(st, inner) if r.random() < 0.45 else self.message(st, inner, depth + 1)
                if d:
                    items.append(d[0])
                    inner.append((d[0]["name"], d[1]))
            else:
                te, ty = self.tyexpr(st)
                if sum(ty_bits(f["ty"]) for f in fields) + ty_bits(ty) > 3000:
                    te = ty = "bool"
                self.uid += 1
                fname = f"f{'abcdefgh'[fi]}_{self.uid}"
                num = nums[fi]
                fi += 1
                items.append({"k": "field", "name": fname, "num": num, "ty": te})
                inner.append((fname, {"kind": "field"}))
                fields.append({"num": num, "ty": ty})
        item = {"k": "msg", "name": name, "ext": ext, "items": items}
        ent = {"kind": "msg", "members": inner, "ty": {"msg": fields, "ext": ext}}
        return item, ent

    def file(self, fname: str, proto: str, imports: List[Tuple[str, str, dict, Optional[str]]]) -> Tuple[dict, dict]:
        """imports: (file name, proto name, proto entity, as-name)"""
        r = self.rng
        items: List[dict] = []
        scope: List[Tuple[str, dict]] = []
        for (ifn, ipn, ient, as_name) in imports:
            it = {"k": "import", "file": ifn}
            if as_name:
                it["as"] = as_name
            items.append(it)
            scope.append((as_name or ipn, ient))
        if r.random() < 0.4:
            on, ov = r.choice([("c.name_prefix", {"str": "pf"}), ("c.struct_packing_alignment", {"int": r.choice([0, 1, 4, 8])}),
                               ("go.package_path", {"str": "a/b"}), ("py.module_name", {"str": "mod_bp"})])
            items.append({"k": "option", "name": on, "v": ov})
            scope.append((on, {"kind": "option"}))
        for _ in range(r.randint(2, 6)):
            stack = [scope]
            k = r.random()
            if k < 0.2:
                name = self.unused(scope, CONST_NAMES)
                if not name:
                    continue
                kind = r.random()
                if kind < 0.7:
                    v: Any = r.choice([1, 2, 3, 5, 8, 16, 30])
                    ve = {"int": v}
                elif kind < 0.85:
                    v = r.random() < 0.5
                    ve = {"bool": v}
                else:
                    v = "txt"
                    ve = {"str": v}
                # sometimes a reference to an earlier constant
                prev = [n for (n, e) in scope if e["kind"] == "const"]
                if prev and r.random() < 0.3:
                    ve = {"ref": [r.choice(prev)]}
                    v = lookup(scope, ve["ref"][0])["value"]
                items.append({"k": "const", "name": name, "v": ve})
                scope.append((name, {"kind": "const", "value": v}))
            elif k < 0.35:
                name = self.unused(scope, DEF_NAMES)
                if not name:
                    continue
                te, ty = self.tyexpr(stack, aliasable_only=True)
                items.append({"k": "alias", "name": name, "ty": te})
                scope.append((name, {"kind": "alias", "ty": {"alias": ty}}))
            elif k < 0.5:
                d = self.enum(stack, scope)
                if d:
                    items.append(d[0])
                    scope.append((d[0]["name"], d[1]))
            else:
                d = self.message(stack, scope, 0)
                if d:
                    items.append(d[0])
                    scope.append((d[0]["name"], d[1]))
        return {"name": fname, "proto": proto, "items": items}, {"kind": "proto", "members": scope}

    def program(self) -> Tuple[List[dict], str]:
        r = self.rng
        files: List[dict] = []
        imps: List[Tuple[str, str, dict, Optional[str]]] = []
        for k in range(r.choice([0, 0, 1, 1, 2])):
            fn, pn = f"lib{k}.bitproto", r.choice(["shared", "common", "base"]) + str(k)
            f, ent = self.file(fn, pn, [])
            files.append(f)
            # `as` names sometimes come from the definition-name pool, so that a nested message can shadow an import
            as_name = r.choice([None, None, f"im{k}", r.choice(DEF_NAMES)])
            if as_name in [a for (_, _, _, a) in imps]:
                as_name = f"im{k}"
            imps.append((fn, pn, ent, as_name))
        main, _ = self.file("main.bitproto", "mainp", imps)
        files.append(main)
        return files, "main.bitproto"


# ------------------------------------------------------------------ harness' own elaboration of a finished tree
class Reject(Exception):
    def __init__(self, rule: str, file: str, line: int) -> None:
        super().__init__(rule)
        self.rule, self.file, self.line = rule, file, line


# ------------------------------------------------------------------ printer (assigns lines)
def ty_text(t: Any) -> str:
    if isinstance(t, str):
        return t
    if "uint" in t:
        return f"uint{t['uint']}"
    if "int" in t:
        return f"int{t['int']}"
    if "ref" in t:
        return ".".join(t["ref"])
    cap = t["cap"]
    c = str(cap["lit"]) if "lit" in cap else ".".join(cap["cref"])
    return f"{ty_text(t['array'])}[{c}]" + ("'" if t["ext"] else "")


def cexpr_text(v: Any) -> str:
    if "int" in v:
        return str(v["int"])
    if "bool" in v:
        return "true" if v["bool"] else "false"
    if "str" in v:
        return '"' + v.get("src", v["str"]) + '"'  # `src`: the spelling with escape sequences, when it differs
    return ".".join(v["ref"])


def print_file(f: dict, rng: Optional[random.Random] = None) -> str:
    lines: List[str] = []

    def emit(s: str) -> int:
        lines.append(s)
        return len(lines)

    def trivia() -> None:
        if rng and rng.random() < 0.25:
            emit(rng.choice(["", "// note", "    // indented comment", ""]))

    def item(it: dict, ind: int) -> None:
        pad = "    " * ind
        trivia()
        k = it["k"]
        if k == "const":
            it["line"] = emit(f"{pad}const {it['name']} = {cexpr_text(it['v'])}")
        elif k == "alias":
            it["line"] = emit(f"{pad}type {it['name']} = {ty_text(it['ty'])}")
        elif k == "enum":
            it["line"] = emit(f"{pad}enum {it['name']} : uint{it['nbits']} {{")
            for m in it["members"]:
                m["line"] = emit(f"{pad}    {m['name']} = {m['value']}")
            for sub in it.get("bad_items", []):
                item(sub, ind + 1)
            emit(f"{pad}}}")
        elif k == "msg":
            it["line"] = emit(f"{pad}message {it['name']}{chr(39) if it['ext'] else ''} {{")
            for sub in it["items"]:
                item(sub, ind + 1)
            emit(f"{pad}}}")
        elif k == "field":
            it["line"] = emit(f"{pad}{ty_text(it['ty'])} {it['name']} = {it['num']}")
        elif k == "option":
            it["line"] = emit(f"{pad}option {it['name']} = {cexpr_text(it['v'])}")
        elif k == "import":
            it["line"] = emit(f"{pad}import {it['as'] + ' ' if it.get('as') else ''}\"{it['file']}\"")

    emit(f"proto {f['proto']}")
    emit("")
    for it in f["items"]:
        item(it, 0)
    return "\n".join(lines) + "\n"


def to_json(f: dict) -> dict:
    def item(it: dict) -> dict:
        o = {"k": it["k"], "line": it.get("line", 0)}
        for key in ("name", "nbits", "num", "ext", "file"):
            if key in it:
                o[key] = it[key]
        if it.get("as"):
            o["as"] = it["as"]
        if "v" in it:
            o["v"] = it["v"]
        if "ty" in it:
            o["ty"] = it["ty"]
        if it["k"] == "enum":
            o["members"] = [{"line": m.get("line", 0), "name": m["name"], "value": m["value"]} for m in it["members"]]
            if it.get("bad_items"):
                o["extra"] = [item(s) for s in it["bad_items"]]
        if it["k"] == "msg":
            o["items"] = [item(s) for s in it["items"]]
        return o

    return {"name": f["name"], "proto": f["proto"], "items": [item(i) for i in f["items"]]}


# ------------------------------------------------------------------ single-violation mutants
def all_items(f: dict) -> List[Tuple[dict, Optional[dict], int]]:
    """(item, parent message or None, depth)"""
    out: List[Tuple[dict, Optional[dict], int]] = []

    def walk(items, parent, depth):
        for it in items:
            out.append((it, parent, depth))
            if it["k"] == "msg":
                walk(it["items"], it, depth + 1)

    walk(f["items"], None, 0)
    return out


def replace_base(t: Any, new: Any) -> Optional[Any]:
    """replace the innermost base type of a type expression (not a reference)"""
    if isinstance(t, dict) and "array" in t:
        r = replace_base(t["array"], new)
        return None if r is None else dict(t, array=r)
    if isinstance(t, dict) and "ref" in t:
        return None
    return new


RESOLUTION_KINDS = ["forward", "import-leak", "undef-type", "undef-const", "const-as-type", "msg-as-cap"]


def mutate(rng: random.Random, files: List[dict], main: str, kinds: Optional[List[str]] = None) -> Optional[Tuple[List[dict], str, str, Any, bool]]:
    """returns (files, rule family, file of the violation, the mutated item (its 'line' is the expected line), traditional)"""
    out = _mutate(rng, files, main, kinds)
    if out is not None and rng.random() < 0.2:
        # a string with escape sequences above everything else in the file of the violation: it must not move any line number
        for x in out[0]:
            if x["name"] == out[2]:
                x["items"].insert(0, {"k": "const", "name": "ESCAPEDQ", "v": {"str": "a\nb\tc\n", "src": "a\\nb\\tc\\n"}})
    return out


def _mutate(rng: random.Random, files: List[dict], main: str, kinds: Optional[List[str]] = None) -> Optional[Tuple[List[dict], str, str, Any, bool]]:
    files = copy.deepcopy(files)
    f = rng.choice(files)
    items = all_items(f)
    fields = [(it, p) for (it, p, d) in items if it["k"] == "field"]
    msgs = [it for (it, p, d) in items if it["k"] == "msg"]
    enums = [it for (it, p, d) in items if it["k"] == "enum"]
    kind = rng.choice(kinds or ["width", "cap", "fnum", "fdup", "enum-dup", "enum-over", "dup-def", "dup-field-name", "alias-named", "place-msg",
                       "place-enum", "opt-unknown", "opt-type", "opt-range", "undef-type", "forward", "const-as-type", "msg-as-cap",
                       "bool-as-cap", "cyclic", "dup-import", "missing-import", "size", "maxbytes", "undef-const", "traditional",
                       "enum-width", "array-of-array", "import-leak", "size"])
    trad = False
    fn = f["name"]
    if kind == "import-leak":
        # names declared by the IMPORTING file (before its import line) are not visible inside the imported file
        importers = [x for x in files if any(i["k"] == "import" for i in x["items"])]
        imported = {i["file"].split("/")[-1] for x in importers for i in x["items"] if i["k"] == "import"}
        libs = [x for x in files if x["name"] in imported]
        if not libs:
            return None
        lib = rng.choice(libs)
        as_const = rng.random() < 0.4
        for x in importers:
            if as_const:
                x["items"].insert(0, {"k": "const", "name": "LEAKQ", "v": {"int": 3}})
            else:
                x["items"].insert(0, {"k": "enum", "name": "Leakq", "nbits": 5, "members": [{"name": "LEAKQ_Z_" + x["proto"].upper(), "value": 0}]})
        ty = {"array": "byte", "cap": {"cref": ["LEAKQ"]}, "ext": False} if as_const else {"ref": ["Leakq"]}
        bad = {"k": "msg", "name": "Leakyq", "ext": False, "items": [{"k": "field", "name": "leak", "num": 1, "ty": ty}]}
        if rng.random() < 0.5:  # ... not even when the imported file declares the name itself LATER
            lib["items"].append(bad)
            lib["items"].append({"k": "const", "name": "LEAKQ", "v": {"int": 2}} if as_const else
                                {"k": "enum", "name": "Leakq", "nbits": 1, "members": [{"name": "LEAKQ_LATE", "value": 0}]})
        else:
            lib["items"].append(bad)
        return files, "undefined-constant" if as_const else "undefined-type", lib["name"], bad["items"][0], trad
    if kind == "width" and fields:
        it, _ = rng.choice(fields)
        signed = rng.random() < 0.5
        new = {("int" if signed else "uint"): rng.choice([0, 65, 100])}
        t = replace_base(it["ty"], new)
        if t is None:
            return None
        it["ty"] = t
        return files, "invalid-int-width" if signed else "invalid-uint-width", fn, it, trad
    if kind == "cap" and fields:
        it, _ = rng.choice(fields)
        it["ty"] = {"array": "bool", "cap": {"lit": rng.choice([0, 65536, 70000])}, "ext": False}
        return files, "invalid-array-capacity", fn, it, trad
    if kind == "fnum" and fields:
        it, _ = rng.choice(fields)
        it["num"] = rng.choice([0, 256, 300])
        return files, "invalid-field-number", fn, it, trad
    if kind == "fdup":
        cands = [m for m in msgs if len([i for i in m["items"] if i["k"] == "field"]) >= 2]
        if not cands:
            return None
        m = rng.choice(cands)
        fs = [i for i in m["items"] if i["k"] == "field"]
        a, b = sorted(rng.sample(range(len(fs)), 2))
        fs[b]["num"] = fs[a]["num"]
        return files, "duplicate-field-number", fn, fs[b], trad
    if kind == "enum-dup":
        cands = [e for e in enums if len(e["members"]) >= 2]
        if not cands:
            return None
        e = rng.choice(cands)
        e["members"][-1]["value"] = e["members"][0]["value"]
        return files, "duplicate-enum-value", fn, e["members"][-1], trad
    if kind == "enum-over" and enums:
        e = rng.choice(enums)
        if e["nbits"] > 40:
            return None
        e["members"][-1]["value"] = 2 ** e["nbits"] + rng.choice([0, 1, 5])
        return files, "enum-value-overflow", fn, e["members"][-1], trad
    if kind == "enum-width" and enums:
        e = rng.choice(enums)
        e["nbits"] = rng.choice([0, 65])
        return files, "invalid-uint-width", fn, e, trad
    if kind == "dup-def":
        scopes = [f["items"]] + [m["items"] for m in msgs]
        sc = rng.choice(scopes)
        named = [i for i in sc if i["k"] in ("msg", "enum")]
        if not named:
            return None
        src = rng.choice(named)
        dup = {"k": "enum", "name": src["name"], "nbits": 3, "members": [{"name": "DUP_ZERO_Q", "value": 0}]}
        sc.append(dup)
        return files, "duplicate-definition", fn, dup, trad
    if kind == "dup-field-name":
        cands = [m for m in msgs if any(i["k"] in ("msg", "enum") for i in m["items"])]
        if not cands:
            return None
        m = rng.choice(cands)
        d = rng.choice([i for i in m["items"] if i["k"] in ("msg", "enum")])
        used = {i["num"] for i in m["items"] if i["k"] == "field"}
        num = next(n for n in range(1, 256) if n not in used)
        fld = {"k": "field", "name": d["name"], "num": num, "ty": "bool"}
        m["items"].append(fld)
        return files, "duplicate-definition", fn, fld, trad
    if kind == "alias-named":
        named = [i for i in f["items"] if i["k"] in ("msg", "enum", "alias")]
        if not named:
            return None
        src = rng.choice(named)
        al = {"k": "alias", "name": "Zeta", "ty": {"ref": [src["name"]]}}
        f["items"].append(al)
        return files, "invalid-aliased-type", fn, al, trad
    if kind == "place-msg" and msgs:
        m = rng.choice(msgs)
        which = rng.choice(["const", "alias", "import"])
        if which == "const":
            bad = {"k": "const", "name": "INNER_Q", "v": {"int": 1}}
            rule = "const-in-message"
        elif which == "alias":
            bad = {"k": "alias", "name": "InnerQ", "ty": {"uint": 3}}
            rule = "alias-in-message"
        else:
            files.append({"name": "extraq.bitproto", "proto": "extraq", "items": [{"k": "const", "name": "EXTRA_Q", "v": {"int": 1}}]})
            bad = {"k": "import", "file": "extraq.bitproto", "as": "inq"}
            rule = "import-in-message"
        m["items"].insert(rng.randint(0, len(m["items"])), bad)
        return files, rule, fn, bad, trad
    if kind == "place-enum" and enums:
        e = rng.choice(enums)
        which = rng.choice(["const", "alias", "option", "enum", "msg", "field", "import"])
        if which == "import":
            files.append({"name": "extraq.bitproto", "proto": "extraq", "items": [{"k": "const", "name": "EXTRA_Q", "v": {"int": 1}}]})
        bad = {"import": {"k": "import", "file": "extraq.bitproto", "as": "inq"}, "const": {"k": "const", "name": "INNER_Q", "v": {"int": 1}},
               "alias": {"k": "alias", "name": "InnerQ", "ty": {"uint": 3}},
               "option": {"k": "option", "name": "max_bytes", "v": {"int": 3}},
               "enum": {"k": "enum", "name": "InnerQ", "nbits": 2, "members": [{"name": "INNER_Q_A", "value": 0}]},
               "msg": {"k": "msg", "name": "InnerQ", "ext": False, "items": []},
               "field": {"k": "field", "name": "inner_q", "num": 1, "ty": "bool"}}[which]
        e.setdefault("bad_items", []).append(bad)
        return files, which + "-in-enum", fn, bad, trad
    if kind in ("opt-unknown", "opt-type", "opt-range"):
        if kind == "opt-unknown":
            scope_items = rng.choice([f["items"]] + [m["items"] for m in msgs])
            bad = {"k": "option", "name": rng.choice(["c.unknown", "max_size", "py.name", "max_bytes" if scope_items is f["items"] else "c.name_prefix"]),
                   "v": {"int": 1}}
            rule = "unsupported-option"
        elif kind == "opt-type":
            if rng.random() < 0.5 and msgs:
                scope_items = rng.choice(msgs)["items"]
                bad = {"k": "option", "name": "max_bytes", "v": {"str": "12"}}
            else:
                scope_items = f["items"]
                if any(i["k"] == "option" for i in scope_items):
                    return None
                bad = {"k": "option", "name": rng.choice(["c.name_prefix", "go.package_path"]), "v": {"int": 3}}
            rule = "invalid-option-value"
        else:
            scope_items = f["items"]
            if any(i["k"] == "option" for i in scope_items):
                return None
            bad = {"k": "option", "name": "c.struct_packing_alignment", "v": {"int": rng.choice([9, 16, 100])}}
            rule = "invalid-option-value"
        scope_items.insert(0, bad)
        return files, rule, fn, bad, trad
    if kind == "undef-type" and fields:
        it, _ = rng.choice(fields)
        it["ty"] = {"ref": [rng.choice(["Omega", "Alpha.Nope", "nowhere.Alpha"])]}
        # make sure it really does not resolve: Omega never declared; dotted ones may resolve -> use Omega variants only
        it["ty"] = {"ref": [rng.choice(["Omega", "Omega.Inner"])] if True else it["ty"]["ref"]}
        it["ty"]["ref"] = it["ty"]["ref"][0].split(".")
        return files, "undefined-type", fn, it, trad
    if kind == "forward":
        # a field referring to a definition declared LATER at top level of the same file
        if not msgs:
            return None
        late = {"k": "enum", "name": "Latecomer", "nbits": 4, "members": [{"name": "LATECOMER_Z", "value": 0}]}
        f["items"].append(late)
        m = rng.choice(msgs)
        used = {i["num"] for i in m["items"] if i["k"] == "field"}
        num = next(n for n in range(1, 256) if n not in used)
        fld = {"k": "field", "name": "fwd_q", "num": num, "ty": {"ref": ["Latecomer"]}}
        m["items"].append(fld)
        return files, "undefined-type", fn, fld, trad
    if kind == "const-as-type" and msgs:
        f["items"].insert(0, {"k": "const", "name": "TYPEISH", "v": {"int": 3}})
        m = rng.choice(msgs)
        used = {i["num"] for i in m["items"] if i["k"] == "field"}
        num = next(n for n in range(1, 256) if n not in used)
        fld = {"k": "field", "name": "cat_q", "num": num, "ty": {"ref": ["TYPEISH"]}}
        m["items"].append(fld)
        return files, "not-a-type", fn, fld, trad
    if kind in ("msg-as-cap", "bool-as-cap", "undef-const") and msgs:
        m = rng.choice(msgs)
        used = {i["num"] for i in m["items"] if i["k"] == "field"}
        num = next(n for n in range(1, 256) if n not in used)
        if kind == "msg-as-cap":
            f["items"].insert(0, {"k": "enum", "name": "Capish", "nbits": 2, "members": [{"name": "CAPISH_Z", "value": 0}]})
            ref, rule = ["Capish"], "not-a-constant"
        elif kind == "bool-as-cap":
            f["items"].insert(0, {"k": "const", "name": "FLAGISH", "v": {"bool": True}})
            ref, rule = ["FLAGISH"], "invalid-array-capacity"
        else:
            ref, rule = ["NOSUCH"], "undefined-constant"
        fld = {"k": "field", "name": "cap_q", "num": num, "ty": {"array": "byte", "cap": {"cref": ref}, "ext": False}}
        m["items"].append(fld)
        return files, rule, fn, fld, trad
    if kind == "cyclic":
        libs = [x for x in files if x["name"] != main]
        if not libs:
            return None
        lib = libs[0]
        bad = {"k": "import", "file": rng.choice(["", "./"]) + main, "as": "backq"}
        lib["items"].insert(0, bad)
        return files, "cyclic-import", lib["name"], bad, trad
    if kind == "dup-import":
        mainf = [x for x in files if x["name"] == main][0]
        imps = [i for i in mainf["items"] if i["k"] == "import"]
        if not imps:
            return None
        # the same FILE, possibly spelled differently (the rule is about files, not about path strings)
        spell = rng.choice(["{0}", "{0}", "./{0}", "././{0}", "nodir/../{0}" if False else "./{0}"]).format(imps[0]["file"])
        bad = {"k": "import", "file": spell, "as": "againq"}
        mainf["items"].insert(len(imps), bad)
        return files, "duplicate-import", main, bad, trad
    if kind == "missing-import":
        mainf = [x for x in files if x["name"] == main][0]
        bad = {"k": "import", "file": "nosuchfile.bitproto", "as": "goneq"}
        mainf["items"].insert(0, bad)
        return files, "os-error", main, bad, trad
    if kind == "size":
        ext = rng.random() < 0.5
        over = rng.random() < 0.5
        total = 65535 - (16 if ext else 0) + (1 if over else 0)
        n64 = total // 64
        rest = total - 64 * n64
        its = [{"k": "field", "name": "big_a", "num": 1, "ty": {"array": {"uint": 64}, "cap": {"lit": n64}, "ext": False}}]
        if rest:
            its.append({"k": "field", "name": "big_b", "num": 2, "ty": {"uint": rest}})
        if rng.random() < 0.5:
            # a max_bytes option that is satisfied does not lift the 65535-bit limit
            nbytes = (total + (16 if ext else 0) + 7) // 8
            its.insert(0, {"k": "option", "name": "max_bytes", "v": {"int": nbytes + rng.choice([0, 0, 1, 1808])}})
        m = {"k": "msg", "name": "Hugeq", "ext": ext, "items": its}
        f["items"].append(m)
        return files, "message-size-overflow" if over else "ACCEPT", fn, m, trad
    if kind == "maxbytes":
        cands = [m for m in msgs if any(i["k"] == "field" for i in m["items"]) and not any(i["k"] == "option" for i in m["items"])]
        if not cands:
            return None
        # size is computed by the caller through the model; use a small dedicated message instead
        over = rng.random() < 0.5
        ext = rng.random() < 0.3
        bits = rng.choice([1, 8, 9, 16, 17, 63, 64])
        nbytes = (bits + (16 if ext else 0) + 7) // 8
        m = {"k": "msg", "name": "Cappedq", "ext": ext, "items": [
            {"k": "option", "name": "max_bytes", "v": {"int": nbytes - 1 if over else nbytes}},
            {"k": "field", "name": "val", "num": 1, "ty": {"uint": bits}}]}
        if over and nbytes - 1 == 0:
            return None  # max_bytes = 0 means no limit
        f["items"].append(m)
        return files, "message-size-overflow" if over else "ACCEPT", fn, m, trad
    if kind == "traditional":
        exts = [m for m in msgs if m["ext"]]
        if not exts:
            m = {"k": "msg", "name": "Extq", "ext": True, "items": [{"k": "field", "name": "v", "num": 1, "ty": "bool"}]}
            f["items"].append(m)
            exts = [m]
        # the first extensible marker in parse order decides the line: keep only programs whose single marker is ours
        n_ext = sum(1 for x in files for (it, p, d) in all_items(x)
                    if (it["k"] == "msg" and it["ext"]) or (it["k"] in ("field", "alias") and "'" in ty_text(it["ty"])))
        if n_ext != 1:
            return None
        return files, "extensible-in-traditional-mode", fn, exts[0], True
    if kind == "array-of-array" and fields:
        return None
    return None


# ------------------------------------------------------------------ hand-picked shadowing programs (run first)
def corpus_programs() -> List[Tuple[List[dict], str]]:
    def enum(name, nbits):
        return {"k": "enum", "name": name, "nbits": nbits, "members": [{"name": f"{name.upper()}_Z{nbits}", "value": 0}]}

    def msg(name, items, ext=False):
        return {"k": "msg", "name": name, "ext": ext, "items": items}

    def fld(name, num, ty):
        return {"k": "field", "name": name, "num": num, "ty": ty}

    out = []
    # 1. a nested message named like an import; both declare Header -> the nested one wins (innermost scope)
    lib = {"name": "lib0.bitproto", "proto": "lib", "items": [msg("Header", [fld("w", 1, {"uint": 16})]), enum("Kind", 9)]}
    main = {"name": "main.bitproto", "proto": "mainp", "items": [
        {"k": "import", "file": "lib0.bitproto"},
        msg("Frame", [msg("lib", [msg("Header", [fld("n", 1, {"uint": 4})])]), fld("h", 1, {"ref": ["lib", "Header"]}),
                      fld("k", 2, {"ref": ["lib", "Kind"]})]),      # lib.Kind: not in Frame.lib -> falls outward to the import
        msg("Plain", [fld("h", 1, {"ref": ["lib", "Header"]})])]}
    out.append(([lib, main], "main.bitproto"))
    # 2. same with an `as` name taken from the definition pool
    lib2 = {"name": "lib0.bitproto", "proto": "shared", "items": [enum("Kind", 11), msg("Inner", [fld("a", 1, {"int": 7})])]}
    main2 = {"name": "main.bitproto", "proto": "mainp", "items": [
        {"k": "import", "file": "lib0.bitproto", "as": "Alpha"},
        enum("Kind", 3),
        msg("Outer", [fld("before", 1, {"ref": ["Kind"]}), enum("Kind", 5), fld("after", 2, {"ref": ["Kind"]}),
                      msg("Alpha", [enum("Kind", 6)]), fld("dotted", 3, {"ref": ["Alpha", "Kind"]}),
                      fld("outward", 4, {"ref": ["Alpha", "Inner"]})]),
        msg("Later", [fld("x", 1, {"ref": ["Outer", "Kind"]}), fld("y", 2, {"ref": ["Alpha", "Kind"]}), fld("z", 3, {"ref": ["Kind"]})])]}
    out.append(([lib2, main2], "main.bitproto"))
    # 3. three levels: the innermost declaration wins only after it closes; siblings see the parent's
    main3 = {"name": "main.bitproto", "proto": "mainp", "items": [
        enum("Unit", 2),
        msg("A", [enum("Unit", 4),
                  msg("B", [fld("u1", 1, {"ref": ["Unit"]}), enum("Unit", 8), fld("u2", 2, {"ref": ["Unit"]}),
                            msg("C", [fld("u3", 1, {"ref": ["Unit"]}), fld("arr", 2, {"array": {"ref": ["Unit"]}, "cap": {"lit": 3}, "ext": False})])]),
                  fld("u4", 1, {"ref": ["Unit"]}), fld("u5", 2, {"ref": ["B", "Unit"]}), fld("u6", 3, {"ref": ["B", "C"]})]),
        msg("D", [fld("u7", 1, {"ref": ["Unit"]}), fld("u8", 2, {"ref": ["A", "Unit"]}), fld("u9", 3, {"ref": ["A", "B", "Unit"]})])]}
    out.append(([main3], "main.bitproto"))
    return out
