"""C10 - every accepted schema yields code the target toolchains accept (failing-input search).

What is compared with what
--------------------------
Input: multi-file programs built from the abstract generator (tools/gen.py: SchemaGen /
ProgramGen.one) and wired here into fixed import shapes (single, pair, chain, triangle, diamond,
diamond with a direct import of the base, wide), with and without `as`, nesting up to 4 levels,
a different c.name_prefix per file, c.struct_packing_alignment, py.module_name (plain and dotted),
go.package_path, cross-file types in field / array / alias-of-array position, cross-file
constants as array capacities, message names ending in digits, fields named `type`, empty
messages, main file whose base name differs from its proto name.  Every file of every program is
compiled by the REAL command line (`python -m bitproto._main`, served by a fork server so that
each invocation starts from a fresh post-import state) in the configurations
{c, c -O, c -O -F, py, go} (the -O ones only for programs without extensible marks).

Observed (toolchains and language-level scanners on the files the compiler wrote, nothing else):
  * CLI exit status / traceback (rendered without internal error; an accepted program - accepted
    = `bitproto -c -q` exits 0 - must not be refused in an applicable configuration);
  * C: `gcc -c -Werror=implicit-function-declaration` of every generated .c; a C probe that
    includes every header twice, mentions every macro, takes the address of every declared API
    function, is LINKED with all generated objects (+ lib/c/bitproto.c) and RUN to print
    sizeof/offsetof of every struct and sizeof of every typedef; a C++ translation unit that
    includes every header twice, calls the whole API and static_asserts the C layout values
    (g++ -fsyntax-only); a scanner for duplicate struct tags / typedefs / macros / function
    definitions over the whole output set;
  * Python (fresh interpreter per program): compile() of every module, import, instantiation of
    every message class with defaults, `bp_processor()` of the instance (NameError /
    AttributeError only), a static resolution of EVERY name and `module.attr` mention
    (function bodies and lambdas included), duplicate module-level bindings;
  * Go (no toolchain): tokenizer based static check - balanced brackets, every identifier
    declared in the file / predeclared / local / import qualified, every `pkg.Name` declared in
    the imported generated file (or in lib/go/bitproto.go for `bp`), every import used, no
    duplicate top-level declaration or method.

The expected side is the property text itself (everything compiles / imports / resolves /
layouts agree); the abstract program is used for the known-finding fingerprints and the
coverage distribution, never the compiler's own helpers.
"""
from __future__ import annotations

import concurrent.futures
import json
import os
import random
import re
import shutil
import subprocess
import threading
from dataclasses import dataclass, field
from typing import Any, Dict, List, Optional, Set, Tuple

from . import common
from . import gen as G
from . import real as R

PY = common.PY
LIBC = os.path.join(common.REPO, "lib", "c")
LIBGO = os.path.join(common.REPO, "lib", "go", "bitproto.go")
NPROGS = {"quick": 90, "thorough": 1200}
WORKERS = 16

# ===================================================================== helper scripts (scratch)
CLI_SERVER = r'''
import json, os, signal, sys, traceback
from bitproto import _main

for line in sys.stdin:
    job = json.loads(line)
    pid = os.fork()
    if pid == 0:
        code = 70
        try:
            fd = os.open(job["err"], os.O_WRONLY | os.O_CREAT | os.O_TRUNC, 0o644)
            os.dup2(fd, 1)
            os.dup2(fd, 2)
            os.chdir(job["cwd"])
            signal.alarm(180)  # watchdog: a hanging compilation must not hang the harness
            sys.argv = ["bitproto"] + job["argv"]
            try:
                _main.run_bitproto()
                code = 0
            except SystemExit as e:
                code = e.code if isinstance(e.code, int) else (0 if e.code is None else 1)
            except BaseException:
                traceback.print_exc()
                code = 70
            sys.stdout.flush()
            sys.stderr.flush()
        finally:
            os._exit(code)
    _, st = os.waitpid(pid, 0)
    sys.stdout.write(json.dumps({"rc": os.waitstatus_to_exitcode(st)}) + "\n")
    sys.stdout.flush()
'''

PY_PROBE = r'''
import ast, builtins, importlib, json, os, sys, traceback

outdir = os.path.realpath(sys.argv[1])
mods = sys.argv[2:]
sys.path.insert(0, outdir)
BUILTINS = set(dir(builtins)) | {"__name__", "__file__", "__doc__"}
res = {}


def origin(tb):
    fr = traceback.extract_tb(tb)
    for f in reversed(fr):
        if os.path.realpath(f.filename).startswith(outdir + os.sep):
            return os.path.relpath(os.path.realpath(f.filename), outdir), f.lineno
    return ((os.path.basename(fr[-1].filename), fr[-1].lineno) if fr else ("", 0))


def bound_in(nodes, deep):
    """names bound by the statements `nodes` (deep: descend into compound statements, not into
    nested function / class bodies)"""
    out = []

    def tgt(t):
        if isinstance(t, ast.Name):
            out.append(t.id)
        elif isinstance(t, (ast.Tuple, ast.List)):
            for e in t.elts:
                tgt(e)
        elif isinstance(t, ast.Starred):
            tgt(t.value)

    def st(n):
        if isinstance(n, (ast.FunctionDef, ast.AsyncFunctionDef, ast.ClassDef)):
            out.append(n.name)
            return
        if isinstance(n, ast.Assign):
            for t in n.targets:
                tgt(t)
        elif isinstance(n, (ast.AnnAssign, ast.AugAssign)):
            tgt(n.target)
        elif isinstance(n, ast.Import):
            for a in n.names:
                out.append(a.asname or a.name.split(".")[0])
        elif isinstance(n, ast.ImportFrom):
            for a in n.names:
                out.append(a.asname or a.name)
        elif isinstance(n, (ast.For, ast.AsyncFor)):
            tgt(n.target)
        elif isinstance(n, (ast.With, ast.AsyncWith)):
            for it in n.items:
                if it.optional_vars is not None:
                    tgt(it.optional_vars)
        if deep:
            for fld in ("body", "orelse", "finalbody", "handlers"):
                for c in getattr(n, fld, []) or []:
                    if isinstance(c, ast.ExceptHandler):
                        if c.name:
                            out.append(c.name)
                        for cc in c.body:
                            st(cc)
                    elif isinstance(c, ast.stmt):
                        st(c)
            # walrus
        for sub in ast.walk(n) if not isinstance(n, (ast.FunctionDef, ast.ClassDef)) else []:
            if isinstance(sub, ast.NamedExpr):
                tgt(sub.target)

    for n in nodes:
        st(n)
    return out


def static_check(tree):
    """(unresolved names, (alias, attr, line) mentions on imported modules, duplicate bindings)"""
    modnames = bound_in(tree.body, True)
    dups = sorted({n for n in modnames if modnames.count(n) > 1})
    imports = {}
    for n in tree.body:
        if isinstance(n, ast.Import):
            for a in n.names:
                if a.asname:
                    imports[a.asname] = a.name
                elif "." not in a.name:
                    imports[a.name] = a.name
        elif isinstance(n, ast.ImportFrom) and n.module == "bitprotolib":
            for a in n.names:
                if a.name == "bp":
                    imports[a.asname or "bp"] = "bitprotolib.bp"
    unresolved, attrs = [], []
    modset = set(modnames)

    def visible(stack):
        v = set(modset) | BUILTINS
        for k, (kind, names) in enumerate(stack):
            if kind == "func" or (kind == "class" and k == len(stack) - 1):
                v |= names
        return v

    def fargs(a):
        out = [x.arg for x in a.posonlyargs + a.args + a.kwonlyargs]
        if a.vararg:
            out.append(a.vararg.arg)
        if a.kwarg:
            out.append(a.kwarg.arg)
        return out

    def visit(n, stack):
        if isinstance(n, ast.Name):
            if isinstance(n.ctx, ast.Load) and n.id not in visible(stack):
                unresolved.append([n.id, n.lineno])
            return
        if isinstance(n, ast.Attribute) and isinstance(n.value, ast.Name) and n.value.id in imports \
                and n.value.id in visible(stack) and not any(n.value.id in names for kind, names in stack):
            attrs.append([n.value.id, n.attr, n.lineno])
            return
        if isinstance(n, (ast.FunctionDef, ast.AsyncFunctionDef, ast.Lambda)):
            a = n.args
            for d in a.defaults + [x for x in a.kw_defaults if x is not None]:
                visit(d, stack)
            if not isinstance(n, ast.Lambda):
                for d in n.decorator_list:
                    visit(d, stack)
                for x in a.posonlyargs + a.args + a.kwonlyargs + ([a.vararg] if a.vararg else []) + ([a.kwarg] if a.kwarg else []):
                    if x.annotation is not None:
                        visit(x.annotation, stack)
                if n.returns is not None:
                    visit(n.returns, stack)
                body = n.body
                names = set(fargs(a)) | set(bound_in(body, True))
            else:
                body = [n.body]
                names = set(fargs(a))
            ns = stack + [("func", names)]
            for b in body:
                visit(b, ns)
            return
        if isinstance(n, ast.ClassDef):
            for d in n.decorator_list + n.bases + [k.value for k in n.keywords]:
                visit(d, stack)
            ns = stack + [("class", set(bound_in(n.body, True)))]
            for b in n.body:
                visit(b, ns)
            return
        if isinstance(n, (ast.ListComp, ast.SetComp, ast.GeneratorExp, ast.DictComp)):
            names = set()
            for g in n.generators:
                for sub in ast.walk(g.target):
                    if isinstance(sub, ast.Name):
                        names.add(sub.id)
            ns = stack + [("func", names)]
            for c in ast.iter_child_nodes(n):
                visit(c, ns)
            return
        for c in ast.iter_child_nodes(n):
            visit(c, stack)

    visit(tree, [])
    return unresolved, attrs, dups, imports


for name in mods:
    r = {"syntax": None, "import": None, "classes": 0, "inst": [], "proc": [], "unresolved": [], "badattr": [], "dups": []}
    res[name] = r
    path = os.path.join(outdir, name + ".py")
    try:
        src = open(path).read()
        tree = ast.parse(src, path)
        compile(src, path, "exec")
    except SyntaxError as e:
        r["syntax"] = {"type": type(e).__name__, "msg": str(e)[:300], "line": e.lineno}
        continue
    unresolved, attrs, dups, imports = static_check(tree)
    r["unresolved"] = unresolved
    r["dups"] = dups
    # attribute mentions on imported modules
    loaded = {}
    for alias, modname in imports.items():
        try:
            loaded[alias] = importlib.import_module(modname)
        except BaseException:
            loaded[alias] = None
    for alias, attr, line in attrs:
        m = loaded.get(alias)
        if m is not None and not hasattr(m, attr):
            r["badattr"].append([alias, imports[alias], attr, line])
    try:
        mod = importlib.import_module(name)
    except BaseException as e:
        of, ol = origin(sys.exc_info()[2])
        r["import"] = {"type": type(e).__name__, "msg": str(e)[:300], "file": of, "line": ol, "name": getattr(e, "name", None)}
        continue
    try:
        from bitprotolib import bp
        base = bp.MessageBase
    except BaseException:
        base = object
    for k, v in list(vars(mod).items()):
        if isinstance(v, type) and v.__module__ == mod.__name__ and base is not object and issubclass(v, base):
            r["classes"] += 1
            try:
                obj = v()
            except BaseException as e:
                of, ol = origin(sys.exc_info()[2])
                r["inst"].append({"cls": k, "type": type(e).__name__, "msg": str(e)[:300], "name": getattr(e, "name", None), "file": of})
                continue
            try:
                obj.bp_processor()
            except BaseException as e:
                of, ol = origin(sys.exc_info()[2])
                r["proc"].append({"cls": k, "type": type(e).__name__, "msg": str(e)[:300], "name": getattr(e, "name", None), "file": of})
print(json.dumps(res))
'''


class Env:
    """per-run scratch: helper scripts, runtime object, thread-local CLI fork servers"""

    def __init__(self, sc: R.Scratch) -> None:
        self.sc = sc
        self.server_path = sc.write("cli_server.py", CLI_SERVER)
        self.pyprobe_path = sc.write("py_probe.py", PY_PROBE)
        self.cli_env = {**os.environ, "PYTHONPATH": f"{common.REPO}/compiler:{common.REPO}/lib/py", "PYTHONDONTWRITEBYTECODE": "1"}
        self.py_env = {**os.environ, "PYTHONPATH": f"{common.REPO}/lib/py", "PYTHONDONTWRITEBYTECODE": "1"}
        self.tls = threading.local()
        self.servers: List[subprocess.Popen] = []
        self.lock = threading.Lock()
        self.rt_obj = sc.path("bitproto_rt.o")
        p = subprocess.run(["gcc", "-c", os.path.join(LIBC, "bitproto.c"), "-I", LIBC, "-o", self.rt_obj], capture_output=True, text=True)
        self.rt_error = None if p.returncode == 0 else p.stderr[-1500:]
        self.go_lib_names = go_toplevel_names(open(LIBGO).read()) if os.path.exists(LIBGO) else None

    def _server(self) -> subprocess.Popen:
        p = getattr(self.tls, "p", None)
        if p is None or p.poll() is not None:
            p = subprocess.Popen([PY, self.server_path], stdin=subprocess.PIPE, stdout=subprocess.PIPE, stderr=subprocess.DEVNULL,
                                 text=True, env=self.cli_env, cwd=self.sc.dir)
            self.tls.p = p
            with self.lock:
                self.servers.append(p)
        return p

    def cli(self, cwd: str, argv: List[str], errpath: str) -> Tuple[int, str]:
        """one real command-line run of the compiler (fresh forked state): (exit status, stderr+stdout)"""
        rc: Optional[int] = None
        try:
            p = self._server()
            p.stdin.write(json.dumps({"cwd": cwd, "argv": argv, "err": errpath}) + "\n")
            p.stdin.flush()
            line = p.stdout.readline()
            if line:
                rc = json.loads(line)["rc"]
        except Exception:
            rc = None
        if rc is None:  # server unusable: plain subprocess
            self.tls.p = None
            q = subprocess.run([PY, "-m", "bitproto._main"] + argv, cwd=cwd, env=self.cli_env, capture_output=True, text=True)
            return q.returncode, (q.stderr + q.stdout)
        try:
            err = open(errpath, errors="replace").read()
        except OSError:
            err = ""
        return rc, err

    def close(self) -> None:
        for p in self.servers:
            try:
                p.stdin.close()
            except Exception:
                pass
        for p in self.servers:
            try:
                p.wait(timeout=5)
            except Exception:
                p.kill()


# ===================================================================== program builder
SHAPES: Dict[str, List[Tuple[str, List[str]]]] = {
    # build order (dependencies first); last entry is the main file
    "single": [("main", [])],
    "pair": [("a", []), ("main", ["a"])],
    "chain": [("b", []), ("a", ["b"]), ("main", ["a"])],
    "triangle": [("a", []), ("b", ["a"]), ("main", ["a", "b"])],
    "diamond": [("base", []), ("left", ["base"]), ("right", ["base"]), ("main", ["left", "right"])],
    "diamond+": [("base", []), ("left", ["base"]), ("right", ["base"]), ("main", ["left", "right", "base"])],
    "wide": [("a", []), ("b", []), ("c", []), ("main", ["a", "b", "c"])],
}
SHAPE_WEIGHTS = [("single", 2), ("pair", 3), ("chain", 2), ("triangle", 3), ("diamond", 4), ("diamond+", 2), ("wide", 2)]
PREFIXES = ["Xy", "lib_", "Zq", "ab_c_", "Q9", "n_", "Proto2", "my_"]


@dataclass
class Prog:
    main: G.Schema
    files: List[G.Schema]
    texts: Dict[str, str]
    shape: str
    traditional: bool
    allow_nested_import: bool
    quiet: bool
    filt: Optional[List[str]]
    configs: List[str]
    feats: List[str] = field(default_factory=list)


def top_types(s: G.Schema) -> List[Any]:
    return [d for d in s.defs if isinstance(d, (G.EnumDef, G.AliasDef, G.MsgDef))]


def ref_slots(s: G.Schema) -> List[Tuple[Any, str]]:
    """(holder, attribute) of every type slot that holds a TRef"""
    out: List[Tuple[Any, str]] = []

    def wt(holder: Any, attr: str) -> None:
        t = getattr(holder, attr)
        if isinstance(t, G.TRef):
            out.append((holder, attr))
        elif isinstance(t, G.TArray):
            wt(t, "elem")

    def wd(d: Any) -> None:
        if isinstance(d, G.AliasDef):
            wt(d, "type")
        elif isinstance(d, G.MsgDef):
            for n in d.nested:
                wd(n)
            for f in d.fields:
                wt(f, "type")

    for d in s.defs:
        wd(d)
    return out


def cross_refs(s: G.Schema) -> List[Any]:
    return [getattr(h, a).d for (h, a) in ref_slots(s) if getattr(getattr(h, a).d, "home", None) is not None
            and getattr(h, a).d.home is not s]


def mentioned_nested(s: G.Schema) -> List[Any]:
    """definitions nested in a message of ANOTHER file whose name the output for `s` has to mention: referenced directly, or
    reached from a field / alias of `s` through aliases and arrays (the renderers descend through an alias to its element
    type; they do not descend into message fields)"""
    out: List[Any] = []

    def walk(t: Any, depth: int = 0) -> None:
        if isinstance(t, G.TArray):
            walk(t.elem, depth)
        elif isinstance(t, G.TRef) and depth < 12:
            d = t.d
            if getattr(d, "home", None) is not s and d.parent is not None:
                out.append(d)
            if isinstance(d, G.AliasDef):
                walk(d.type, depth + 1)

    for (h, a) in ref_slots(s):
        walk(getattr(h, a))
    return out


def transitive_qualifiers(s: G.Schema) -> Set[str]:
    """names under which a THIRD file is visible inside an imported file X, for every single-typed definition of the third
    file that the renderers reach from a field of `s` by descending through an alias declared in X"""
    out: Set[str] = set()

    def inside(t: Any, x: G.Schema, depth: int) -> None:
        if isinstance(t, G.TArray):
            inside(t.elem, x, depth)
        elif isinstance(t, G.TRef) and depth < 12:
            e = t.d
            y = getattr(e, "home", None)
            if y is not None and y is not x and y is not s and isinstance(e, (G.EnumDef, G.AliasDef)):
                try:
                    out.add(visible_name(x, y))
                except KeyError:
                    pass
            if isinstance(e, G.AliasDef):
                inside(e.type, y if y is not None else x, depth + 1)

    def walk(t: Any) -> None:
        if isinstance(t, G.TArray):
            walk(t.elem)
        elif isinstance(t, G.TRef) and isinstance(t.d, G.AliasDef) and getattr(t.d, "home", None) not in (None, s):
            inside(t.d.type, t.d.home, 0)

    for (h, a) in ref_slots(s):
        walk(getattr(h, a))
    return out


def visible_name(s: G.Schema, imp: G.Schema) -> str:
    for (i, as_name) in s.imports:
        if i is imp:
            return as_name or i.proto
    raise KeyError(imp.proto)


def opt(s: G.Schema, name: str, default: Any = None) -> Any:
    for (k, v) in s.options:
        if k == name:
            return v
    return default


def flat(d: Any) -> str:
    return "".join(G.scope_names(d)).replace("_", "").lower()


def max_depth(s: G.Schema) -> int:
    best = 0
    for m in s.messages():
        k, p = 0, m.parent
        while p is not None:
            k, p = k + 1, p.parent
        best = max(best, k + 1)
    return best


def pg_scalar(r: random.Random) -> Any:
    return r.choice([G.TBool(), G.TByte(), G.TUint(r.choice([1, 7, 8, 13, 32, 33, 64])), G.TInt(r.choice([3, 8, 24, 40, 64]))])


def build_file(rng: random.Random, pg: G.ProgramGen, visible: List[G.Schema], idx: int, allow_nested: bool, feats: Set[str]) -> G.Schema:
    r = rng
    s = pg.one(visible, idx)
    s.options = []
    for k, v in enumerate(visible):
        s.imports.append((v, r.choice([None, None, f"im{idx}{'abcd'[k]}"])))
    msgs = s.messages()
    # cross-file references to types nested in a message of the imported file are the class of KF-nested-import
    for (h, a) in ref_slots(s):
        d = getattr(h, a).d
        if getattr(d, "home", None) is not None and d.parent is not None and not allow_nested:
            cands = top_types(d.home)
            setattr(h, a, G.TRef(r.choice(cands)) if cands else G.TUint(8))
    # empty messages are legal but make every struct that contains them differ between C and C++
    # (KF-empty-struct): keep some, give most of them one field
    for m in msgs:
        if not m.fields and r.random() < 0.8:
            m.fields.append(G.Field("fa_1", 1, pg_scalar(r)))
    # every import is used by at least one type (mostly)
    for v in visible:
        used = any(getattr(d, "home", None) is v for d in [getattr(h, a).d for (h, a) in ref_slots(s)])
        cands = top_types(v)
        if not used and cands and msgs and r.random() < 0.93:
            m = r.choice(msgs)
            d = r.choice(cands)
            num = min(k for k in range(1, 256) if k not in {f.num for f in m.fields})
            t = G.TArray(G.TRef(d), r.choice([1, 2, 3]), False) if r.random() < 0.3 else G.TRef(d)
            if isinstance(d, G.MsgDef) and d is m:
                continue
            m.fields.insert(0, G.Field(f"fx_{num}", num, t))
    # alias of an array of an imported type
    for d in s.defs:
        if isinstance(d, G.AliasDef) and isinstance(d.type, G.TArray) and visible and r.random() < 0.3:
            cands = top_types(r.choice(visible))
            if cands:
                d.type = G.TArray(G.TRef(r.choice(cands)), r.choice([1, 2, 3, 4]), d.type.ext)
                feats.add("xfile-alias-array")
    # imported constant as array capacity
    for v in visible:
        ints = [c for c in v.defs if isinstance(c, G.ConstDef) and isinstance(c.value, int) and not isinstance(c.value, bool)
                and 0 < c.value < 64]
        if not ints:
            continue
        for m in msgs:
            for f in m.fields:
                if isinstance(f.type, G.TArray) and r.random() < 0.2:
                    c = r.choice(ints)
                    f.type.cap = c.value
                    f.type.cap_text = f"{visible_name(s, v)}.{c.name}"
                    feats.add("xfile-const-cap")
    # a field named `type` (the grammar admits the keyword as a field name)
    for m in msgs:
        if m.fields and r.random() < 0.08:
            r.choice(m.fields).name = "type"
            feats.add("field-named-type")
    # sizes
    for m in msgs:
        while G.msg_nbits(m) > pg.o.gen.max_bits and m.fields:
            m.fields.pop()
    for m in msgs:
        if getattr(m, "options", None):
            m.options = [("max_bytes", (G.msg_nbits(m) + 7) // 8 + r.randint(0, 3))]
            feats.add("max_bytes")
    G.set_home(s)
    return s


def build_program(rng: random.Random, nested_import_p: float = 0.07) -> Prog:
    r = rng
    shape = r.choices([s for s, _ in SHAPE_WEIGHTS], [w for _, w in SHAPE_WEIGHTS])[0]
    traditional = r.random() < 0.5
    allow_nested = r.random() < nested_import_p
    feats: Set[str] = set()
    go = G.GenOpts(allow_ext=not traditional, max_depth=r.choice([1, 2, 3, 3]), max_fields=r.choice([4, 6]), max_bits=r.choice([600, 2000, 4000]))
    pg = G.ProgramGen(r, G.ProgOpts(gen=go))
    built: Dict[str, G.Schema] = {}
    order: List[G.Schema] = []
    plan = SHAPES[shape]
    for n, (name, deps) in enumerate(plan):
        idx = 0 if name == "main" else n + 1
        s = build_file(r, pg, [built[d] for d in deps], idx, allow_nested, feats)
        built[name] = s
        order.append(s)
    main = built["main"]
    # the same plain name nested in different parents (Outer1.Inner / Outer2.Inner stay distinct after flattening; -F selects by
    # plain name): only definitions nested directly in a top-level message, one message and one enum per parent
    if r.random() < 0.4:
        n_shared = 0
        for s in order:
            for d in s.defs:
                if not isinstance(d, G.MsgDef):
                    continue
                for kind, new in ((G.MsgDef, "Inner"), (G.EnumDef, "Kind")):
                    cands = [x for x in d.nested if isinstance(x, kind)]
                    if cands and r.random() < 0.7 and not any(x.name == new for x in d.nested):
                        cands[0].name = new
                        if kind is G.EnumDef:  # member names are scoped by the enclosing message too
                            cands[0].members = [(f"KIND_V{chr(65 + i)}", v) for i, (_, v) in enumerate(cands[0].members)]
                        n_shared += 1
        if n_shared >= 2:
            feats.add("same-nested-name-in-different-parents")
    # message names ending in digits
    renamed: List[Tuple[G.MsgDef, str]] = []
    if r.random() < 0.4:
        for s in order:
            for m in s.messages():
                if r.random() < 0.3:
                    renamed.append((m, m.name))
                    m.name = m.name + r.choice(["1", "2", "7", "12", "0", "99"])
        helper = [G.c_name(m) + str(f.num) for s in order for m in s.messages() for f in m.fields if isinstance(f.type, G.TArray)]
        if len(set(helper)) != len(helper):  # A1 field 2 / A field 12: helper names must still differ (fixed 06fc623)
            feats.add("msg-name-digits-ambiguous-with-field-number")
        if renamed:
            feats.add("msg-name-digits")
    # field names that read like "<nested message>_<its field>": every helper generated for an array field must still be unique
    # (<Outer> + inner_fa_3  vs  <Outer><Inner> + fa_3)
    if r.random() < 0.5:
        for s in order:
            for m in s.messages():
                for q in [x for x in m.nested if isinstance(x, G.MsgDef)]:
                    arrs = [f for f in q.fields if isinstance(f.type, G.TArray)]
                    if not arrs or r.random() < 0.4:
                        continue
                    f = r.choice(arrs)
                    name = f"{q.name.lower()}_{f.name}"
                    free = [k for k in range(1, 256) if k not in {x.num for x in m.fields}]
                    if not free or any(x.name == name for x in m.fields) or G.msg_nbits(m) + 16 > go.max_bits:
                        continue
                    m.fields.append(G.Field(name, r.choice(free[:3] + free[-2:]), G.TArray(G.TByte(), 2, False)))
                    feats.add("field-named-like-nested-message-plus-field")
    # an imported file whose base name (= its proto name) has capital letters: the generated file names and the names that
    # #include / import statements use must be spelled alike
    if len(order) > 1 and r.random() < 0.3:
        s = r.choice([x for x in order if x is not main])
        s.proto = s.proto[0].upper() + s.proto[1:-1] + s.proto[-1].upper()
        feats.add("imported-file-name-with-capitals")
    # options
    prefixes = r.sample(PREFIXES, len(order))
    for s, p in zip(order, prefixes):
        if r.random() < 0.6:
            s.options.append(("c.name_prefix", p))
            feats.add("c.name_prefix")
        if r.random() < 0.3:
            s.options.append(("c.struct_packing_alignment", r.choice([1, 2, 4, 8])))
            feats.add("c.struct_packing_alignment")
        if r.random() < 0.25:
            s.options.append(("py.module_name", r.choice([f"{s.proto}_bp", f"mod_{s.proto}", f"gen.{s.proto}_pb", f"pk_{s.proto}.sub.m"])))
            feats.add("py.module_name" + (".dotted" if "." in s.options[-1][1] else ""))
        if r.random() < 0.3:
            s.options.append(("go.package_path", f"example.com/gen/{s.proto}"))
            feats.add("go.package_path")
    if r.random() < 0.25:
        main.filename = r.choice([main.proto + "_main", "top_file"])
        feats.add("main-filename!=proto")
    for s in order:
        if any(a for (_, a) in s.imports):
            feats.add("import-as")
        if any(not a for (_, a) in s.imports):
            feats.add("import-plain")
        if any(not m.fields for m in s.messages()):
            feats.add("empty-message")
        kinds = {type(d).__name__ for d in cross_refs(s)}
        for kd in kinds:
            feats.add("xfile-" + kd)
        if any(d.parent is not None for d in cross_refs(s)):
            feats.add("xfile-nested")
    feats.add(f"depth{max(max_depth(s) for s in order)}")
    files = main.all_files()
    if r.random() < 0.5:
        # comment blocks become doc comments / docstrings in the generated code: quotes, backslashes, comment closers
        G.sprinkle_comments(main, r, 0.35)
        feats.add("comments")
    texts = G.program_files(main, r)
    filt: Optional[List[str]] = None
    configs = ["c", "py", "go"]
    if traditional:
        configs.append("cO")
        names = [m.name for m in main.messages()]
        if names and r.random() < 0.65:
            filt = r.sample(names, min(len(names), r.randint(1, 3)))
            if r.random() < 0.2:
                filt.append("NoSuchMessage")
            configs.append("cOF")
    return Prog(main, files, texts, shape, traditional, allow_nested, r.random() < 0.3, filt, configs, sorted(feats))


def job_of(p: Prog) -> Dict[str, Any]:
    files = []
    for s in p.files:
        files.append({
            "fname": s.base() + ".bitproto",
            "proto": s.proto,
            "py_copy": opt(s, "py.module_name"),
            "go_imports": {(a or i.proto): i.base() + ".bitproto" for (i, a) in s.imports},
        })
    return {"texts": p.texts, "files": files, "main": p.main.base() + ".bitproto", "configs": p.configs, "filt": p.filt, "quiet": p.quiet}


# ===================================================================== C scanner / probes
RE_STRUCT = re.compile(r"^struct (\w+) \{")
RE_TYPEDEF = re.compile(r"^typedef (.+?) (\w+)(\[\d+\])?;")
RE_DEFINE = re.compile(r"^#define (\w+)\b(.*)$")
RE_API = re.compile(r"^int ((?:Encode|Decode|Json)\w+)\(struct (\w+) \*m, (unsigned char|char) \*s\);")
RE_FUNCDEF = re.compile(r"^(?:int|void) (\w+)\((.*)\) \{\s*$")
RE_MEMBER = re.compile(r"^(.*?)(\w+)((?:\[\d+\])*)$")
# emitted verbatim (same text) into every -O header; not derived from the schema
FIXED_MACROS = {"BITPROTO_OPTIMIZATION_MODE"}


def strip_c_comment(line: str) -> str:
    k = line.find("//")
    return line if k < 0 else line[:k]


def c_scan(outdir: str, hdrs: List[str], srcs: List[str]) -> Dict[str, Any]:
    structs: List[Tuple[str, List[Tuple[str, str]], str]] = []
    typedefs: List[Tuple[str, str, str]] = []
    macros: List[Tuple[str, str, str]] = []
    api: List[Tuple[str, str, str]] = []
    funcdefs: List[Tuple[str, str]] = []
    for h in hdrs:
        cur: Optional[Tuple[str, List[Tuple[str, str]], str]] = None
        for raw in open(os.path.join(outdir, h), errors="replace").read().split("\n"):
            line = strip_c_comment(raw).rstrip()
            if cur is not None:
                if line.startswith("}"):
                    structs.append(cur)
                    cur = None
                    continue
                body = line.strip()
                if body.endswith(";"):
                    m = RE_MEMBER.match(body[:-1].strip())
                    if m:
                        cur[1].append((m.group(1).strip(), m.group(2)))
                continue
            m = RE_STRUCT.match(line)
            if m:
                cur = (m.group(1), [], h)
                continue
            m = RE_TYPEDEF.match(line)
            if m:
                typedefs.append((m.group(2), m.group(1).strip(), h))
                continue
            m = RE_DEFINE.match(line)
            if m:
                macros.append((m.group(1), m.group(2).strip(), h))
                continue
            m = RE_API.match(line)
            if m:
                api.append((m.group(1), m.group(2), m.group(3)))
    for c in srcs:
        for raw in open(os.path.join(outdir, c), errors="replace").read().split("\n"):
            m = RE_FUNCDEF.match(raw)
            if m:
                funcdefs.append((m.group(1), c))
    dups: List[Tuple[str, str]] = []
    for kind, names in (("struct", [s[0] for s in structs]), ("typedef", [t[0] for t in typedefs]),
                        ("macro", [m[0] for m in macros if m[0] not in FIXED_MACROS]), ("function", [f[0] for f in funcdefs])):
        for n in sorted({n for n in names if names.count(n) > 1}):
            dups.append((kind, n))
    ordinary = [t[0] for t in typedefs] + [f[0] for f in funcdefs]
    for n in sorted({n for n in ordinary if ordinary.count(n) > 1 and ("typedef", n) not in dups and ("function", n) not in dups}):
        dups.append(("typedef/function", n))
    # structs that are empty or contain (transitively, through arrays and typedefs) an empty struct
    tdmap = {t[0]: t[1] for t in typedefs}
    smap = {s[0]: s for s in structs}
    tainted: Set[str] = {s[0] for s in structs if not s[1]}
    changed = True
    while changed:
        changed = False
        for s in structs:
            if s[0] in tainted:
                continue
            for (ty, _) in s[1]:
                seen = 0
                while ty in tdmap and seen < 10:
                    ty, seen = tdmap[ty], seen + 1
                if ty.startswith("struct ") and ty[7:].strip() in tainted:
                    tainted.add(s[0])
                    changed = True
                    break
    return {"structs": structs, "typedefs": typedefs, "macros": macros, "api": api, "funcdefs": funcdefs, "dups": dups,
            "tainted": tainted, "smap": smap}


def c_probe_source(hdrs: List[str], scan: Dict[str, Any]) -> str:
    L = ["#include <stdio.h>", "#include <stddef.h>"]
    for h in hdrs + hdrs:
        L.append(f'#include "{h}"')
    L.append("int main(void) {")
    for (name, members, _) in scan["structs"]:
        L.append(f'  printf("S {name} %lu\\n", (unsigned long)sizeof(struct {name}));')
        for (_, mem) in members:
            L.append(f'  printf("O {name} {mem} %lu\\n", (unsigned long)offsetof(struct {name}, {mem}));')
    for (name, _, _) in scan["typedefs"]:
        L.append(f'  printf("T {name} %lu\\n", (unsigned long)sizeof({name}));')
    for (name, body, _) in scan["macros"]:
        if body:
            L.append(f"  (void)({name});")
    fns = ", ".join(f"(void *){fn}" for (fn, _, _) in scan["api"]) or "0"
    L.append(f"  void *volatile fns[] = {{{fns}}};")
    L.append("  (void)fns;")
    L.append("  return 0;")
    L.append("}")
    return "\n".join(L) + "\n"


def cxx_probe_source(hdrs: List[str], scan: Dict[str, Any], layout: Dict[Tuple, int], include_tainted: bool) -> Tuple[str, int]:
    L = []
    for h in hdrs + hdrs:
        L.append(f'#include "{h}"')
    L.append("#include <cstddef>")
    n_assert = 0
    for (name, members, _) in scan["structs"]:
        if name in scan["tainted"] and not include_tainted:
            continue
        if ("S", name) in layout:
            L.append(f'static_assert(sizeof(struct {name}) == {layout[("S", name)]}, "sizeof {name}");')
            n_assert += 1
        for (_, mem) in members:
            if ("O", name, mem) in layout:
                L.append(f'static_assert(offsetof(struct {name}, {mem}) == {layout[("O", name, mem)]}, "offsetof {name}.{mem}");')
                n_assert += 1
    for (name, under, _) in scan["typedefs"]:
        ty, seen = under, 0
        tdmap = {t[0]: t[1] for t in scan["typedefs"]}
        while ty in tdmap and seen < 10:
            ty, seen = tdmap[ty], seen + 1
        if ty.startswith("struct ") and ty[7:].strip() in scan["tainted"] and not include_tainted:
            continue
        if ("T", name) in layout:
            L.append(f'static_assert(sizeof({name}) == {layout[("T", name)]}, "sizeof typedef {name}");')
            n_assert += 1
    L.append("void bpv_use_api() {")
    L.append("  static unsigned char buf[8]; static char out[8]; (void)buf; (void)out;")
    for k, (name, _, _) in enumerate(scan["structs"]):
        L.append(f"  static struct {name} v{k}; (void)v{k};")
    idx = {s[0]: k for k, s in enumerate(scan["structs"])}
    for (fn, st, buf) in scan["api"]:
        if st in idx:
            L.append(f"  {fn}(&v{idx[st]}, {'out' if buf == 'char' else 'buf'});")
    for (name, body, _) in scan["macros"]:
        if body:
            L.append(f"  (void)({name});")
    for k, (name, _, _) in enumerate(scan["typedefs"]):
        L.append(f"  static {name} t{k}; (void)t{k};")
    L.append("}")
    return "\n".join(L) + "\n", n_assert


def run_tool(args: List[str], cwd: str, timeout: int = 120) -> Tuple[int, str, str]:
    try:
        p = subprocess.run(args, cwd=cwd, capture_output=True, text=True, timeout=timeout, errors="replace")
        return p.returncode, p.stdout, p.stderr
    except subprocess.TimeoutExpired:
        return 124, "", "timeout"


def timed_out(rc: int, stats: Dict[str, int]) -> bool:
    if rc == 124:
        stats["tool-timeout(inconclusive)"] = stats.get("tool-timeout(inconclusive)", 0) + 1
        return True
    return False


def c_check(env: Env, outdir: str, main_hdr: Optional[str], optimize: bool, cfg: str, findings: List[Dict[str, Any]],
            stats: Dict[str, int], include_tainted: bool = False) -> None:
    hdrs = sorted(f for f in os.listdir(outdir) if f.endswith(".h"))
    srcs = sorted(f for f in os.listdir(outdir) if f.endswith(".c"))
    if main_hdr in hdrs:
        hdrs = [main_hdr] + [h for h in hdrs if h != main_hdr]
    inc = ["-I", outdir, "-I", LIBC]
    objs = []
    failed = False
    for s in srcs:
        rc, _, err = run_tool(["gcc", "-c", "-Werror=implicit-function-declaration"] + inc + [s, "-o", s[:-2] + ".o"], outdir)
        stats["gcc-c"] = stats.get("gcc-c", 0) + 1
        if timed_out(rc, stats):
            return
        if rc != 0:
            failed = True
            findings.append({"cfg": cfg, "kind": "gcc-error", "file": s, "detail": err[:1500],
                             "cmd": f"gcc -c -Werror=implicit-function-declaration -I. -I{LIBC} {s}"})
        else:
            objs.append(s[:-2] + ".o")
            if optimize:  # the other half of the generated text: the big-endian branch
                rc, _, err = run_tool(["gcc", "-fsyntax-only", "-DBP_BIG_ENDIAN", "-Werror=implicit-function-declaration"] + inc + [s], outdir)
                stats["gcc-syntax-BE"] = stats.get("gcc-syntax-BE", 0) + 1
                if timed_out(rc, stats):
                    return
                if rc != 0:
                    failed = True
                    findings.append({"cfg": cfg, "kind": "gcc-error", "file": s, "detail": err[:1500],
                                     "cmd": f"gcc -fsyntax-only -DBP_BIG_ENDIAN -Werror=implicit-function-declaration -I. -I{LIBC} {s}"})
    scan = c_scan(outdir, hdrs, srcs)
    for (kind, n) in scan["dups"]:
        findings.append({"cfg": cfg, "kind": "c-duplicate", "file": "*", "name": n, "detail": f"{kind} {n} declared more than once in the output set"})
    stats["c-structs"] = stats.get("c-structs", 0) + len(scan["structs"])
    stats["c-structs-empty-or-containing-empty"] = stats.get("c-structs-empty-or-containing-empty", 0) + len(scan["tainted"])
    if failed:
        return
    probe_c = c_probe_source(hdrs, scan)
    open(os.path.join(outdir, "bpv_probe.c"), "w").write(probe_c)
    link = ["gcc", "-Werror=implicit-function-declaration"] + inc + ["bpv_probe.c"] + objs + ([] if optimize else [env.rt_obj]) + ["-o", "bpv_probe"]
    rc, _, err = run_tool(link, outdir)
    stats["link"] = stats.get("link", 0) + 1
    if timed_out(rc, stats):
        return
    if rc != 0:
        findings.append({"cfg": cfg, "kind": "c-probe-error", "file": "bpv_probe.c", "detail": err[:1500], "probe": probe_c[:6000],
                         "cmd": "gcc probe.c (every header twice, every macro, address of every declared Encode/Decode/Json) + all generated objects"})
        return
    rc, out, err = run_tool([os.path.join(outdir, "bpv_probe")], outdir, timeout=60)
    if timed_out(rc, stats):
        return
    if rc != 0:
        findings.append({"cfg": cfg, "kind": "c-probe-run", "file": "bpv_probe", "detail": f"rc={rc} {err[:300]}"})
        return
    layout: Dict[Tuple, int] = {}
    for line in out.split("\n"):
        w = line.split()
        if len(w) == 3 and w[0] in ("S", "T"):
            layout[(w[0], w[1])] = int(w[2])
        elif len(w) == 4 and w[0] == "O":
            layout[("O", w[1], w[2])] = int(w[3])
    src, n_assert = cxx_probe_source(hdrs, scan, layout, include_tainted)
    open(os.path.join(outdir, "bpv_probe.cpp"), "w").write(src)
    rc, _, err = run_tool(["g++", "-fsyntax-only"] + inc + ["bpv_probe.cpp"], outdir)
    stats["g++"] = stats.get("g++", 0) + 1
    stats["layout-asserts"] = stats.get("layout-asserts", 0) + n_assert
    if timed_out(rc, stats):
        return
    if rc != 0:
        errors = re.findall(r"error: ([^\n]+)", err)
        sa = [e[len("static assertion failed: "):] for e in errors if e.startswith("static assertion failed: ")]
        other = [e for e in errors if not e.startswith("static assertion failed")]
        findings.append({"cfg": cfg, "kind": "cxx-layout" if sa and not other else "cxx-error",
                         "file": "bpv_probe.cpp", "asserts": sa[:10], "detail": err[:1500], "probe": src[:6000],
                         "cmd": "g++ -fsyntax-only TU: every header twice + static_assert(sizeof/offsetof == C values) + calls of the whole API"})


# ===================================================================== Go scanner
GO_KEYWORDS = {"break", "default", "func", "interface", "select", "case", "defer", "go", "map", "struct", "chan", "else", "goto", "package",
               "switch", "const", "fallthrough", "if", "range", "type", "continue", "for", "import", "return", "var"}
GO_PREDECLARED = {"bool", "byte", "complex64", "complex128", "error", "float32", "float64", "int", "int8", "int16", "int32", "int64", "rune",
                  "string", "uint", "uint8", "uint16", "uint32", "uint64", "uintptr", "true", "false", "iota", "nil", "append", "cap", "close",
                  "complex", "copy", "delete", "imag", "len", "make", "new", "panic", "print", "println", "real", "recover", "any", "comparable",
                  "min", "max", "clear", "_"}
GO_TOP = {"package", "import", "type", "func", "const", "var"}
Tok = Tuple[str, str, int]


def go_tokens(text: str) -> Tuple[List[Tok], List[str]]:
    toks: List[Tok] = []
    bad: List[str] = []
    i, n, line = 0, len(text), 1
    while i < n:
        c = text[i]
        if c == "\n":
            line += 1
            i += 1
        elif c in " \t\r":
            i += 1
        elif text.startswith("//", i):
            j = text.find("\n", i)
            i = n if j < 0 else j
        elif text.startswith("/*", i):
            j = text.find("*/", i + 2)
            if j < 0:
                bad.append(f"unterminated comment at line {line}")
                break
            line += text.count("\n", i, j)
            i = j + 2
        elif c == '"':
            j = i + 1
            while j < n and text[j] not in '"\n':
                j += 2 if text[j] == "\\" else 1
            if j >= n or text[j] != '"':
                bad.append(f"unterminated string at line {line}")
                i = j
            else:
                toks.append(("str", text[i + 1:j], line))
                i = j + 1
        elif c == "`":
            j = text.find("`", i + 1)
            if j < 0:
                bad.append(f"unterminated raw string at line {line}")
                break
            toks.append(("raw", text[i + 1:j], line))
            line += text.count("\n", i, j)
            i = j + 1
        elif c == "'":
            j = i + 1
            while j < n and text[j] not in "'\n":
                j += 2 if text[j] == "\\" else 1
            toks.append(("num", text[i:j + 1], line))
            i = j + 1
        elif c.isalpha() or c == "_":
            j = i
            while j < n and (text[j].isalnum() or text[j] == "_"):
                j += 1
            toks.append(("id", text[i:j], line))
            i = j
        elif c.isdigit():
            j = i
            while j < n and (text[j].isalnum() or text[j] in "._"):
                j += 1
            toks.append(("num", text[i:j], line))
            i = j
        elif text.startswith(":=", i):
            toks.append(("op", ":=", line))
            i += 2
        else:
            toks.append(("op", c, line))
            i += 1
    return toks, bad


def go_chunks(toks: List[Tok]) -> List[List[Tok]]:
    chunks: List[List[Tok]] = []
    depth = 0
    prev_line = 0
    for t in toks:
        k, v, ln = t
        if depth == 0 and k == "id" and v in GO_TOP and ln != prev_line:
            chunks.append([])
        if not chunks:
            chunks.append([])
        chunks[-1].append(t)
        if k == "op" and v in "([{":
            depth += 1
        elif k == "op" and v in ")]}":
            depth -= 1
        prev_line = ln
    return chunks


def go_toplevel_names(text: str) -> Set[str]:
    toks, _ = go_tokens(text)
    names: Set[str] = set()
    for ch in go_chunks(toks):
        for (kind, name) in go_decls_of(ch)[0]:
            names.add(name)
    return names


def _match(ch: List[Tok], i: int) -> int:
    """index of the bracket matching ch[i]"""
    op = ch[i][1]
    cl = {"(": ")", "[": "]", "{": "}"}[op]
    d = 0
    for j in range(i, len(ch)):
        if ch[j][0] == "op" and ch[j][1] == op:
            d += 1
        elif ch[j][0] == "op" and ch[j][1] == cl:
            d -= 1
            if d == 0:
                return j
    return len(ch) - 1


def go_decls_of(ch: List[Tok]) -> Tuple[List[Tuple[str, str]], List[Tuple[str, str]]]:
    """top-level names declared by a chunk: ([(kind, name)], [(receiver type, method)])"""
    if not ch or ch[0][0] != "id":
        return [], []
    kw = ch[0][1]
    out: List[Tuple[str, str]] = []
    meth: List[Tuple[str, str]] = []
    if kw in ("type", "var") and len(ch) > 1 and ch[1][0] == "id":
        out.append((kw, ch[1][1]))
    elif kw == "const" and len(ch) > 1:
        if ch[1] == ("op", "(", ch[1][2]):
            end = _match(ch, 1)
            last = -1
            for t in ch[2:end]:
                if t[2] != last and t[0] == "id":
                    out.append(("const", t[1]))
                last = t[2]
        elif ch[1][0] == "id":
            out.append(("const", ch[1][1]))
    elif kw == "func" and len(ch) > 1:
        if ch[1][0] == "op" and ch[1][1] == "(":
            end = _match(ch, 1)
            ids = [t[1] for t in ch[2:end] if t[0] == "id"]
            if end + 1 < len(ch) and ch[end + 1][0] == "id" and ids:
                meth.append((ids[-1], ch[end + 1][1]))
        elif ch[1][0] == "id":
            out.append(("func", ch[1][1]))
    return out, meth


def go_analyse(text: str) -> Dict[str, Any]:
    toks, bad = go_tokens(text)
    res: Dict[str, Any] = {"bad": bad, "unbalanced": None, "package": None, "imports": [], "decls": set(), "dups": [], "undeclared": [],
                           "qualified": [], "used": set()}
    stack: List[Tuple[str, int]] = []
    pair = {")": "(", "]": "[", "}": "{"}
    for (k, v, ln) in toks:
        if k != "op":
            continue
        if v in "([{":
            stack.append((v, ln))
        elif v in ")]}":
            if not stack or stack[-1][0] != pair[v]:
                res["unbalanced"] = f"unexpected '{v}' at line {ln}"
                break
            stack.pop()
    if res["unbalanced"] is None and stack:
        res["unbalanced"] = f"'{stack[-1][0]}' opened at line {stack[-1][1]} never closed"
    if res["unbalanced"] or bad:
        return res
    chunks = go_chunks(toks)
    seen: Dict[str, int] = {}
    mseen: Dict[Tuple[str, str], int] = {}
    for ch in chunks:
        d, m = go_decls_of(ch)
        for (_, name) in d:
            if name != "_":
                seen[name] = seen.get(name, 0) + 1
        for key in m:
            mseen[key] = mseen.get(key, 0) + 1
    res["decls"] = set(seen)
    res["dups"] = sorted(n for n, c in seen.items() if c > 1) + sorted(f"{a}.{b}" for (a, b), c in mseen.items() if c > 1)
    # imports
    for ch in chunks:
        if ch[0][1] == "package" and len(ch) > 1:
            res["package"] = ch[1][1]
        if ch[0][1] != "import":
            continue
        body = ch[1:]
        if body and body[0][0] == "op" and body[0][1] == "(":
            body = ch[2:_match(ch, 1)]
        alias: Optional[str] = None
        for t in body:
            if t[0] in ("id",) or (t[0] == "op" and t[1] == "."):
                alias = t[1]
            elif t[0] == "str":
                res["imports"].append((alias or t[1].rsplit("/", 1)[-1], t[1], t[2], alias is not None))
                alias = None
    quals = {a for (a, _, _, _) in res["imports"]}
    top = res["decls"]

    def check(ch: List[Tok], lo: int, hi: int, local: Set[str], skip_first_on_line: bool = False) -> None:
        last_line = -1
        for p in range(lo, hi):
            k, v, ln = ch[p]
            first = ln != last_line
            last_line = ln
            if k != "id":
                continue
            if skip_first_on_line and first:
                continue
            if p > 0 and ch[p - 1][0] == "op" and ch[p - 1][1] == ".":
                continue
            if v in GO_KEYWORDS or v in GO_PREDECLARED or v in local:
                continue
            if v in quals and v not in top:
                res["used"].add(v)
                if p + 2 < len(ch) and ch[p + 1][0] == "op" and ch[p + 1][1] == "." and ch[p + 2][0] == "id":
                    res["qualified"].append((v, ch[p + 2][1], ln))
                continue
            if v in top:
                continue
            res["undeclared"].append((v, ln))

    for ch in chunks:
        kw = ch[0][1] if ch[0][0] == "id" else ""
        if kw in ("package", "import"):
            continue
        if kw == "type":
            if len(ch) > 3 and ch[2] == ("id", "struct", ch[2][2]) and ch[3][0] == "op" and ch[3][1] == "{":
                end = _match(ch, 3)
                # first identifier of every line of the body is the field name
                check(ch, 4, end, set(), skip_first_on_line=True)
            else:
                check(ch, 2, len(ch), set())
        elif kw == "const":
            if len(ch) > 1 and ch[1][0] == "op" and ch[1][1] == "(":
                check(ch, 2, _match(ch, 1), set(), skip_first_on_line=True)
            else:
                check(ch, 2, len(ch), set())
        elif kw == "var":
            check(ch, 2, len(ch), set())
        elif kw == "func":
            local: Set[str] = set()
            i = 1
            if ch[i][0] == "op" and ch[i][1] == "(":  # receiver
                end = _match(ch, i)
                ids = [q for q in range(i + 1, end) if ch[q][0] == "id"]
                if len(ids) >= 2:
                    local.add(ch[ids[0]][1])
                i = end + 1
            i += 1  # function name
            if i < len(ch) and ch[i][0] == "op" and ch[i][1] == "(":
                end = _match(ch, i)
                start = True
                d = 0
                for q in range(i + 1, end):
                    k, v, _ = ch[q]
                    if k == "op" and v in "([{":
                        d += 1
                    elif k == "op" and v in ")]}":
                        d -= 1
                    elif k == "op" and v == "," and d == 0:
                        start = True
                        continue
                    if start and k == "id":
                        # `name type` (a lone identifier is a type)
                        if q + 1 < end and not (ch[q + 1][0] == "op" and ch[q + 1][1] in ",."):
                            local.add(v)
                        start = False
                    elif start:
                        start = False
            # short variable declarations
            for q, (k, v, _) in enumerate(ch):
                if k == "op" and v == ":=":
                    b = q - 1
                    while b >= 0 and (ch[b][0] == "id" or (ch[b][0] == "op" and ch[b][1] == ",")):
                        if ch[b][0] == "id":
                            local.add(ch[b][1])
                        b -= 1
            check(ch, 1, len(ch), local | ({ch[i - 1][1]} if 0 < i - 1 < len(ch) and ch[i - 1][0] == "id" else set()))
    return res


def go_check(env: Env, outdir: str, outputs: Dict[str, List[str]], files: List[Dict[str, Any]], findings: List[Dict[str, Any]],
             stats: Dict[str, int]) -> None:
    analyses: Dict[str, Dict[str, Any]] = {}
    gofile: Dict[str, str] = {}
    for f in files:
        gos = [x for x in outputs.get(f["fname"], []) if x.endswith(".go")]
        if not gos:
            continue
        gofile[f["fname"]] = gos[0]
        analyses[f["fname"]] = go_analyse(open(os.path.join(outdir, gos[0]), errors="replace").read())
    for f in files:
        a = analyses.get(f["fname"])
        if a is None:
            continue
        gf = gofile[f["fname"]]
        stats["go-files"] = stats.get("go-files", 0) + 1
        for b in a["bad"]:
            findings.append({"cfg": "go", "kind": "go-syntax", "file": gf, "detail": b})
        if a["unbalanced"]:
            findings.append({"cfg": "go", "kind": "go-unbalanced", "file": gf, "detail": a["unbalanced"]})
            continue
        if a["bad"]:
            continue
        seen: Set[str] = set()
        for (name, ln) in a["undeclared"]:
            if name not in seen:
                seen.add(name)
                findings.append({"cfg": "go", "kind": "go-undeclared", "file": gf, "src": f["fname"], "name": name,
                                 "detail": f"identifier {name} (line {ln}) is neither declared in the file, predeclared, local nor import-qualified"})
        for d in a["dups"]:
            findings.append({"cfg": "go", "kind": "go-duplicate", "file": gf, "name": d, "detail": f"{d} declared more than once"})
        for (alias, path, ln, explicit) in a["imports"]:
            if alias not in a["used"]:
                findings.append({"cfg": "go", "kind": "go-unused-import", "file": gf, "src": f["fname"], "name": alias,
                                 "detail": f'import {alias} "{path}" (line {ln}) is never used'})
        stats["go-qualified-mentions"] = stats.get("go-qualified-mentions", 0) + len(a["qualified"])
        seenq: Set[Tuple[str, str]] = set()
        for (alias, name, ln) in a["qualified"]:
            if (alias, name) in seenq:
                continue
            seenq.add((alias, name))
            target = f["go_imports"].get(alias)
            if alias == "bp":
                names = env.go_lib_names
            elif target is not None and target in analyses and not analyses[target]["unbalanced"]:
                names = analyses[target]["decls"]
            else:
                names = None
            if names is not None and name not in names:
                findings.append({"cfg": "go", "kind": "go-undeclared-in-package", "file": gf, "src": f["fname"], "name": f"{alias}.{name}",
                                 "detail": f"{alias}.{name} (line {ln}) is not declared by the imported package"})


# ===================================================================== Python check
def _py_account(rc: int, out: str, err: str, mods: List[Tuple[str, str]], findings: List[Dict[str, Any]], stats: Dict[str, int],
                copies: Optional[Dict[str, str]] = None) -> None:
    try:
        res = json.loads(out.strip().split("\n")[-1])
    except Exception:
        findings.append({"cfg": "py", "kind": "py-probe-crash", "file": "*", "detail": f"rc={rc} {err[-800:]}"})
        return
    src_of = {m + ".py": s for m, s in mods}
    src_of.update(copies or {})
    for m, src in mods:
        r = res.get(m)
        if r is None:
            continue
        stats["py-modules"] = stats.get("py-modules", 0) + 1
        pf = m + ".py"
        if r["syntax"]:
            findings.append({"cfg": "py", "kind": "py-syntax", "file": pf, "src": src, "exc": r["syntax"]["type"],
                             "detail": f'{r["syntax"]["type"]}: {r["syntax"]["msg"]}'})
            continue
        seen: Set[str] = set()
        for (name, ln) in r["unresolved"]:
            if name not in seen:
                seen.add(name)
                findings.append({"cfg": "py", "kind": "py-undeclared", "file": pf, "src": src, "name": name,
                                 "detail": f"name {name} (line {ln}) is not bound anywhere it could be resolved from"})
        for (alias, modname, attr, ln) in r["badattr"]:
            findings.append({"cfg": "py", "kind": "py-undeclared-attr", "file": pf, "src": src, "name": f"{alias}.{attr}",
                             "detail": f"{alias}.{attr} (line {ln}): module {modname} has no attribute {attr}"})
        for d in r["dups"]:
            findings.append({"cfg": "py", "kind": "py-duplicate", "file": pf, "src": src, "name": d, "detail": f"module-level name {d} bound more than once"})
        if r["import"]:
            e = r["import"]
            findings.append({"cfg": "py", "kind": "py-import", "file": pf, "src": src, "origin": e["file"], "origin_src": src_of.get(e["file"]),
                             "exc": e["type"], "name": e.get("name"),
                             "detail": f'import {m}: {e["type"]}: {e["msg"]} (raised in {e["file"]}:{e["line"]})'})
            stats["py-import-failed"] = stats.get("py-import-failed", 0) + 1
            continue
        stats["py-classes-instantiated"] = stats.get("py-classes-instantiated", 0) + r["classes"]
        for e in r["inst"]:
            findings.append({"cfg": "py", "kind": "py-instantiate", "file": pf, "src": src, "origin": e.get("file"), "origin_src": src_of.get(e.get("file")),
                             "exc": e["type"], "name": e.get("name"), "detail": f'{e["cls"]}(): {e["type"]}: {e["msg"]}'})
        for e in r["proc"]:
            if e["type"] in ("NameError", "AttributeError"):
                findings.append({"cfg": "py", "kind": "py-processor", "file": pf, "src": src, "origin": e.get("file"), "origin_src": src_of.get(e.get("file")),
                                 "exc": e["type"], "name": e.get("name"), "detail": f'{e["cls"]}().bp_processor(): {e["type"]}: {e["msg"]}'})
            else:
                stats["py-processor-other-exception"] = stats.get("py-processor-other-exception", 0) + 1


# ===================================================================== one program through every configuration
def cfg_argv(cfg: str, fname: str, is_main: bool, filt: Optional[List[str]], quiet: bool) -> List[str]:
    lang = {"c": "c", "cO": "c", "cOF": "c", "py": "py", "go": "go"}[cfg]
    argv = [lang, fname, f"../out_{cfg}"]
    if cfg in ("cO", "cOF"):
        argv.append("-O")
    if cfg == "cOF" and is_main and filt:
        argv += ["-F", ",".join(filt)]
    if quiet:
        argv.append("-q")
    return argv


def run_job(env: Env, job: Dict[str, Any], root: str, include_tainted: bool = False, keep: bool = False) -> Dict[str, Any]:
    findings: List[Dict[str, Any]] = []
    stats: Dict[str, int] = {}
    res: Dict[str, Any] = {"accepted": True, "findings": findings, "stats": stats, "configs_done": []}
    src = os.path.join(root, "src")
    os.makedirs(src, exist_ok=True)
    try:
        for name, text in job["texts"].items():
            with open(os.path.join(src, name), "w") as f:
                f.write(text)
        rc, err = env.cli(src, ["-c", "-q", job["main"]], os.path.join(root, "check.err"))
        if rc != 0:
            res["accepted"] = False
            res["reject"] = err[-600:]
            res["reject_traceback"] = "Traceback (most recent call last)" in err
            return res
        for cfg in job["configs"]:
            outdir = os.path.join(root, f"out_{cfg}")
            os.makedirs(outdir, exist_ok=True)
            outputs: Dict[str, List[str]] = {}
            cli_failed = False
            for f in job["files"]:
                before = set(os.listdir(outdir))
                argv = cfg_argv(cfg, f["fname"], f["fname"] == job["main"], job.get("filt"), job.get("quiet", False))
                rc, err = env.cli(src, argv, os.path.join(root, "cli.err"))
                stats["cli"] = stats.get("cli", 0) + 1
                new = sorted(set(os.listdir(outdir)) - before)
                outputs[f["fname"]] = new
                if rc == -14:
                    cli_failed = True
                    stats["cli-watchdog-timeout(inconclusive)"] = stats.get("cli-watchdog-timeout(inconclusive)", 0) + 1
                elif rc != 0:
                    cli_failed = True
                    tb = "Traceback (most recent call last)" in err
                    last = [l for l in err.strip().split("\n") if l.strip()][-1:] or [""]
                    findings.append({"cfg": cfg, "kind": "cli-internal-error" if tb else "cli-refused", "file": f["fname"], "src": f["fname"],
                                     "argv": argv, "exc": last[0].split(":")[0].strip() if tb else None, "detail": err[-1200:]})
                elif not new:
                    cli_failed = True
                    findings.append({"cfg": cfg, "kind": "cli-no-output", "file": f["fname"], "src": f["fname"], "argv": argv,
                                     "detail": "exit status 0 but no file was written to the output directory"})
            res["configs_done"].append(cfg)
            if cli_failed:
                continue
            if cfg in ("c", "cO", "cOF"):
                mh = [x for x in outputs.get(job["main"], []) if x.endswith(".h")]
                c_check(env, outdir, mh[0] if mh else None, cfg != "c", cfg, findings, stats, include_tainted)
            elif cfg == "py":
                mods: List[Tuple[str, str]] = []
                copies = py_prepare(outdir, outputs, job["files"], mods)
                if mods:
                    try:
                        p = subprocess.run([PY, env.pyprobe_path, outdir] + [m for m, _ in mods], cwd=outdir, env=env.py_env,
                                           capture_output=True, text=True, errors="replace", timeout=300)
                        _py_account(p.returncode, p.stdout, p.stderr, mods, findings, stats, copies)
                    except subprocess.TimeoutExpired:
                        timed_out(124, stats)
            elif cfg == "go":
                go_check(env, outdir, outputs, job["files"], findings, stats)
        return res
    finally:
        if not keep:
            shutil.rmtree(root, ignore_errors=True)


def py_prepare(outdir: str, outputs: Dict[str, List[str]], files: List[Dict[str, Any]], mods: List[Tuple[str, str]]) -> Dict[str, str]:
    """module list + the copies a `py.module_name` option asks the user to make; returns {copy base name: source file}"""
    copies: Dict[str, str] = {}
    for f in files:
        pys = [x for x in outputs.get(f["fname"], []) if x.endswith(".py")]
        if not pys:
            continue
        mods.append((pys[0][:-3], f["fname"]))
        target = f.get("py_copy")
        if target and target != pys[0][:-3]:
            parts = target.split(".")
            d = outdir
            for p in parts[:-1]:
                d = os.path.join(d, p)
                os.makedirs(d, exist_ok=True)
                init = os.path.join(d, "__init__.py")
                if not os.path.exists(init):
                    open(init, "w").close()
            shutil.copyfile(os.path.join(outdir, pys[0]), os.path.join(d, parts[-1] + ".py"))
            copies[os.path.join(*parts) + ".py"] = f["fname"]
    return copies


# ===================================================================== known-finding fingerprints
def norm(name: Optional[str]) -> str:
    return (name or "").replace("_", "").lower()


def schema_by_fname(p: Prog, fname: Optional[str]) -> Optional[G.Schema]:
    for s in p.files:
        if s.base() + ".bitproto" == fname:
            return s
    return None


def route(p: Prog, f: Dict[str, Any]) -> Optional[str]:
    """known-finding id when the finding has the documented failure kind AND the program has the structural predicate"""
    kind = f["kind"]
    if kind in ("py-import", "py-instantiate", "py-processor", "py-undeclared", "go-undeclared"):
        if kind in ("py-import", "py-instantiate", "py-processor") and f.get("exc") != "NameError":
            return None
        s = schema_by_fname(p, f.get("origin_src") or f.get("src"))
        if s is None:
            return None
        if any(norm(f.get("name")) == flat(d) for d in mentioned_nested(s)):
            return "KF-nested-import"
        if kind == "go-undeclared" and f.get("name") in transitive_qualifiers(s) and f.get("name") not in {(a or i.proto) for (i, a) in s.imports}:
            return "KF-go-transitive-qualifier"
        return None
    if kind == "go-unused-import":
        s = schema_by_fname(p, f.get("src"))
        if s is None:
            return None
        for (imp, as_name) in s.imports:
            if (as_name or imp.proto) == f.get("name"):
                into = [d for d in cross_refs(s) if getattr(d, "home", None) is imp]
                if not into:
                    return "KF-go-unused-import"
                if all(d.parent is not None for d in into):
                    return "KF-nested-import"  # the only mentions of the import are the unqualified nested names
        return None
    return None


KF_TEXT = {
    "KF-nested-import": "a type nested in a message of an IMPORTED file is emitted unqualified in Python and Go (NameError on import / undeclared Go identifier)",
    "KF-go-unused-import": "a Go import whose only use in the schema is a constant (or nothing) is never mentioned in the Go file (Go rejects unused imports)",
    "KF-go-transitive-qualifier": "Go: an element type of a THIRD file reached through an imported alias (top -> mid.Kinds = bs.Kind[2]) is cast in BpSetByte "
                                  "under the import name it has inside the intermediate file (`bs.Kind(b)`), which the top file never imports",
    "KF-c-flat-name": "nested message Outer.Inner and top-level message OuterInner both become `struct OuterInner` in C (gcc: redefinition); "
                      "Python keeps them apart (Outer_Inner / OuterInner)",
    "KF-include-name": "imported file whose base name differs from its proto name: #include / import use the proto name, the generated file uses the base name",
    "KF-empty-struct": "empty message: sizeof 0 in C (GNU), 1 in C++ - layout differs between the two languages",
    "KF-empty-enum": "enum without members: IndexError in the Python renderer when used as a field; `class E(IntEnum):` with empty body otherwise",
    "KF-py-vocabulary": "field named like an identifier the generated Python itself uses (`field`): the generated module does not import",
}


# ===================================================================== witnesses of the known findings
def wjob(texts: Dict[str, str], order: List[str], main: str, configs: List[str], go_imports: Optional[Dict[str, Dict[str, str]]] = None,
         protos: Optional[Dict[str, str]] = None) -> Dict[str, Any]:
    files = [{"fname": n, "proto": (protos or {}).get(n, n[:-9]), "py_copy": None, "go_imports": (go_imports or {}).get(n, {})} for n in order]
    return {"texts": texts, "files": files, "main": main, "configs": configs, "filt": None, "quiet": False}


def witnesses(run: common.Run, env: Env) -> Dict[str, bool]:
    sc = env.sc
    confirmed: Dict[str, bool] = {}
    notes: Dict[str, str] = {}

    def go(kf: str, job: Dict[str, Any], pred, include_tainted: bool = False) -> None:
        res = run_job(env, job, sc.path("w-" + kf), include_tainted=include_tainted)
        ok = res["accepted"] and pred(res["findings"])
        confirmed[kf] = bool(ok)
        if not ok:
            notes[kf] = "witness no longer fails as documented: " + json.dumps(
                [{k: str(v)[:160] for k, v in f.items() if k in ("cfg", "kind", "name", "detail")} for f in res["findings"]][:4]
                if res["accepted"] else {"rejected": res.get("reject", "")[-200:]})

    shared = "proto shared\n\nmessage Outer {\n    enum Kind : uint3 {\n        KIND_A = 0\n        KIND_B = 1\n    }\n    Kind k = 1\n}\n"
    top = 'proto top\n\nimport "shared.bitproto"\n\nmessage M {\n    shared.Outer.Kind k = 1\n    uint8 x = 2\n}\n'
    go("KF-nested-import", wjob({"shared.bitproto": shared, "top.bitproto": top}, ["shared.bitproto", "top.bitproto"], "top.bitproto", ["py", "go"],
                                {"top.bitproto": {"shared": "shared.bitproto"}}),
       lambda fs: any(f["kind"] == "py-import" and f.get("exc") == "NameError" and norm(f.get("name")) == "outerkind" for f in fs)
       and any(f["kind"] == "go-undeclared" and norm(f.get("name")) == "outerkind" for f in fs))
    go("KF-go-transitive-qualifier",
       wjob({"base.bitproto": "proto base\n\nenum Kind : uint3 {\n    KIND_A = 0\n    KIND_B = 1\n}\n",
             "mid.bitproto": 'proto mid\n\nimport bs "base.bitproto"\n\ntype Kinds = bs.Kind[2]\n',
             "top.bitproto": 'proto top\n\nimport "mid.bitproto"\n\nmessage M {\n    mid.Kinds ks = 1\n}\n'},
            ["base.bitproto", "mid.bitproto", "top.bitproto"], "top.bitproto", ["c", "py", "go"],
            {"top.bitproto": {"mid": "mid.bitproto"}, "mid.bitproto": {"bs": "base.bitproto"}}),
       lambda fs: any(f["kind"] == "go-undeclared" and f.get("name") == "bs" and f.get("src") == "top.bitproto" for f in fs)
       and not any(f["cfg"] in ("c", "py") for f in fs))
    go("KF-c-flat-name", wjob({"flat.bitproto": "proto flat\n\nmessage Outer {\n    message Inner {\n        bool a = 1\n    }\n    Inner i = 1\n}\n\n"
                                                 "message OuterInner {\n    bool b = 1\n}\n"}, ["flat.bitproto"], "flat.bitproto", ["c"]),
       lambda fs: any(f["kind"] == "gcc-error" and "redefinition of" in f["detail"] and "struct OuterInner" in f["detail"] for f in fs))
    go("KF-go-unused-import", wjob({"shared.bitproto": "proto shared\n\nconst LEN = 4\n",
                                    "top.bitproto": 'proto top\n\nimport "shared.bitproto"\n\nmessage M {\n    byte[shared.LEN] b = 1\n}\n'},
                                   ["shared.bitproto", "top.bitproto"], "top.bitproto", ["go"], {"top.bitproto": {"shared": "shared.bitproto"}}),
       lambda fs: any(f["kind"] == "go-unused-import" and f.get("name") == "shared" for f in fs))
    go("KF-include-name", wjob({"my_file.bitproto": "proto other_name\n\nmessage Inner {\n    uint8 a = 1\n}\n",
                                "top.bitproto": 'proto top\n\nimport "my_file.bitproto"\n\nmessage M {\n    other_name.Inner i = 1\n}\n'},
                               ["my_file.bitproto", "top.bitproto"], "top.bitproto", ["c", "py"], protos={"my_file.bitproto": "other_name"}),
       lambda fs: any(f["kind"] == "gcc-error" and "other_name_bp.h" in f["detail"] and "No such file" in f["detail"] for f in fs)
       and any(f["kind"] == "py-import" and f.get("exc") == "ModuleNotFoundError" and f.get("name") == "other_name_bp" for f in fs))
    go("KF-empty-struct", wjob({"empty.bitproto": "proto empty\n\nmessage E {\n}\n\nmessage M {\n    E e = 1\n    uint8 x = 2\n}\n"},
                               ["empty.bitproto"], "empty.bitproto", ["c"]),
       lambda fs: any(f["kind"] == "cxx-layout" and any("sizeof E" in a for a in f.get("asserts", [])) for f in fs), include_tainted=True)
    go("KF-empty-enum", wjob({"noenum.bitproto": "proto noenum\n\nenum E : uint3 {\n}\n\nmessage M {\n    E e = 1\n}\n",
                              "noenum2.bitproto": "proto noenum2\n\nenum E : uint3 {\n}\n\nmessage M {\n    uint8 x = 1\n}\n"},
                             ["noenum.bitproto", "noenum2.bitproto"], "noenum.bitproto", ["py"]),
       lambda fs: any(f["kind"] == "cli-internal-error" and f.get("exc") == "IndexError" and f["file"] == "noenum.bitproto" for f in fs))
    # second half of KF-empty-enum: unused empty enum -> module with an empty class body
    res = run_job(env, wjob({"noenum2.bitproto": "proto noenum2\n\nenum E : uint3 {\n}\n\nmessage M {\n    uint8 x = 1\n}\n"},
                            ["noenum2.bitproto"], "noenum2.bitproto", ["py"]), sc.path("w-KF-empty-enum-2"))
    if not (res["accepted"] and any(f["kind"] == "py-syntax" for f in res["findings"])):
        notes["KF-empty-enum(unused)"] = "unused empty enum no longer yields a module that fails to compile"
    go("KF-py-vocabulary", wjob({"vocab.bitproto": "proto vocab\n\nmessage M {\n    uint8 field = 1\n    uint8[2] xs = 2\n}\n"},
                                ["vocab.bitproto"], "vocab.bitproto", ["py"]),
       lambda fs: any(f["kind"] == "py-import" for f in fs))
    for kf, ok in confirmed.items():
        if ok:
            run.known_finding(f"{KF_TEXT[kf]} - witness replayed and re-confirmed [{kf}]")
    if notes:
        run.notes["known_finding_witness_notes"] = notes
    return confirmed


# ===================================================================== witnesses of repaired defects (must stay repaired)
FIXED_CASES = [
    ("fixed-c-helper-name (06fc623)",
     {"helper.bitproto": "proto helper\n\nmessage A1 {\n    byte[2] x = 2\n    uint3[3] z = 3\n}\n\nmessage A {\n    byte[2] y = 12\n    uint3[3] w = 13\n}\n"
                         "\nmessage B {\n    message C1 {\n        bool[2] p = 2\n    }\n    message C {\n        bool[2] q = 12\n    }\n    C1 a = 1\n    C b = 2\n}\n"},
     ["c", "cO", "py", "go"]),
]


def fixed_cases(run: common.Run, env: Env) -> None:
    """programs that used to be rejected by a toolchain and were repaired in /repo: any finding on them is a violation"""
    for title, texts, configs in FIXED_CASES:
        order = list(texts)
        job = wjob(texts, order, order[-1], configs)
        res = run_job(env, job, env.sc.path("fx-" + title.split()[0]))
        run.count("fixed-case")
        if not res["accepted"]:
            run.violation({"kind": "impl-vs-spec", "input": {"files": texts}, "observed_impl": "rejected: " + str(res.get("reject"))[-300:],
                           "expected_by_spec": "a valid schema is accepted", "case": title}, suffix=title)
            continue
        for cfg in res["configs_done"]:
            run.evaluated()
        for f in res["findings"]:
            run.count("violation:" + f["kind"])
            run.violation({"kind": "impl-vs-spec", "case": title, "input": {"files": texts, "config": f.get("cfg")},
                           "finding": {k: str(v)[:600] for k, v in f.items()},
                           "observed_impl": f.get("detail"), "expected_by_spec": "the generated code is accepted by the toolchain (this case was repaired by the named commit)"},
                          suffix=f"{title} {f.get('cfg')} {f['kind']}")


# ===================================================================== entry
def replay_of(p: Prog, f: Dict[str, Any]) -> Dict[str, Any]:
    argv = f.get("argv")
    cfg = f.get("cfg")
    cmds = []
    for s in p.files:
        fname = s.base() + ".bitproto"
        cmds.append(["python", "-m", "bitproto._main"] + cfg_argv(cfg, fname, fname == p.main.base() + ".bitproto", p.filt, p.quiet))
    expected = {
        "cli-internal-error": "the accepted program is rendered without internal error",
        "cli-refused": "the accepted program is rendered (exit status 0) in this configuration",
        "cli-no-output": "the compiler writes the generated file(s)",
        "gcc-error": "every generated .c compiles as C (gcc exit status 0): everything mentioned is declared before use, no two declarations share a name, includes name generated files",
        "c-duplicate": "no two generated declarations (helper functions included) share a name",
        "c-probe-error": "a C program including every generated header (twice) and referencing every declared API function compiles and links against the generated sources",
        "c-probe-run": "the layout probe runs",
        "cxx-error": "the generated header can be included from C++ and its API called (g++ exit status 0)",
        "cxx-layout": "every struct has the same size and member offsets in C++ as in C",
        "py-syntax": "the generated Python compiles",
        "py-import": "the generated Python module imports",
        "py-instantiate": "every message class can be instantiated with defaults",
        "py-processor": "every name the generated Python mentions is declared (bp_processor() of a default instance)",
        "py-undeclared": "every name the generated Python mentions is declared",
        "py-undeclared-attr": "every module attribute the generated Python mentions exists in the module it imports",
        "py-duplicate": "no two generated declarations share a name",
        "py-probe-crash": "the generated modules can be probed",
        "go-syntax": "balanced Go syntax", "go-unbalanced": "balanced Go syntax",
        "go-undeclared": "every Go identifier is declared in the file or qualified by an import",
        "go-undeclared-in-package": "every qualified Go identifier is declared by the package the import refers to",
        "go-unused-import": "every Go import is used", "go-duplicate": "no two generated Go declarations share a name",
    }.get(f["kind"], "property C10")
    return {
        "kind": "impl-vs-spec",
        "input": {"files": p.texts, "argv": ["python", "-m", "bitproto._main"] + argv if argv else cmds[-1], "cwd": "directory holding the files; output directory ../out_<cfg>"},
        "configuration": cfg, "all_commands_of_configuration": cmds, "check": f["kind"], "checked_file": f.get("file"),
        "follow_up": f.get("cmd"), "follow_up_source": f.get("probe"),
        "expected_by_spec": expected,
        "observed_impl": f.get("detail"),
        "shape": p.shape, "features": p.feats,
    }


def check(run: common.Run, drv: Any, rng: random.Random, tier: str) -> None:
    n = NPROGS[tier]
    run.coverage["rule"] = ("programs x {c, c -O, c -O -F, py, go}: real CLI per file, gcc/g++/python on the written files, Go static scanner; "
                            "fixed case counts")
    with R.Scratch("bpv-c10-") as sc:
        env = Env(sc)
        if env.rt_error:
            run.notes["runtime_build_error"] = env.rt_error
        try:
            confirmed = witnesses(run, env)
            fixed_cases(run, env)
            # references to types nested in a message of an imported file: rare while KF-nested-import is open (a failing import
            # masks the other Python checks of the program), frequent once its witness no longer fails
            nested_p = 0.07 if confirmed.get("KF-nested-import") else 0.5
            run.notes["nested_import_reference_probability"] = nested_p
            progs = [build_program(rng, nested_p) for _ in range(n)]
            jobs = [job_of(p) for p in progs]
            ex = concurrent.futures.ThreadPoolExecutor(WORKERS)
            try:
                futs = [ex.submit(run_job, env, job, sc.path(f"p{k}")) for k, job in enumerate(jobs)]
                for p, fut in zip(progs, futs):
                    account(run, p, fut.result(), confirmed)
            finally:
                ex.shutdown(wait=True, cancel_futures=True)
        finally:
            env.close()


def account(run: common.Run, p: Prog, res: Dict[str, Any], confirmed: Dict[str, bool]) -> None:
    if not res["accepted"]:
        run.count("program-not-accepted(skipped)")
        if res.get("reject_traceback"):
            run.count("program-check-traceback(skipped, C09 territory)")
        run.notes.setdefault("rejected_samples", [])
        if len(run.notes["rejected_samples"]) < 3:
            run.notes["rejected_samples"].append({"stderr": res.get("reject"), "files": p.texts})
        return
    run.count("programs")
    run.count("shape:" + p.shape)
    run.count("traditional" if p.traditional else "extensible-allowed")
    run.count(f"files-per-program:{len(p.files)}")
    for ft in p.feats:
        run.count("feature:" + ft)
    for k, v in res["stats"].items():
        run.count("n:" + k, v)
    for cfg in res["configs_done"]:
        run.evaluated()
        run.count("config:" + cfg)
        run.nontrivial((p.shape, p.traditional, cfg, p.feats))
    run.sample({"shape": p.shape, "configs": p.configs, "features": p.feats, "files": list(p.texts)}, limit=3)
    masked = False
    for f in res["findings"]:
        kf = route(p, f)
        if kf is not None and not confirmed.get(kf):
            run.count("fingerprint-of-" + kf + "-but-its-witness-no-longer-fails")
            kf = None  # a finding is only 'known' while its witness was re-confirmed in this run
        if kf is not None:
            run.count("routed:" + kf + ":" + f["kind"])
            if f["kind"] == "py-import":
                masked = True
            continue
        run.count("violation:" + f["kind"])
        run.violation(replay_of(p, f), suffix=f"{f['cfg']} {f['kind']} {f.get('file')}")
    if masked:
        run.count("programs-with-python-masked-by-KF-nested-import")
