"""Go-subset translator: the pure arithmetic helpers of lib/go/bitproto.go -> Gen/GoHelpers.lean.

Subset: `func name(params) type { (if cond { return e })* return e }` with integer/byte/bool
parameters, integer literals, identifiers, calls of translated functions, parentheses and the
binary operators `+ - * % << >> < > <= >= == !=`.  `byte`-typed shifts truncate to 8 bits
(`GoOp.shl8`), as Go's typed shifts do.  A function outside the subset is emitted as a marker
that makes the bridge fail to build.
"""
from __future__ import annotations

import os
import re
from typing import Any, Dict, List, Optional, Tuple

from . import common
from .translate import GEN_DIR, HEADER, write_if_changed

WANT = ["min", "getNbitsToCopy", "getMask", "smartShift", "Bool2byte", "Byte2bool"]


class Untranslatable(Exception):
    pass


TOK = re.compile(r"\s*(<<|>>|<=|>=|==|!=|[-+*/%<>()|&,]|\d+|[A-Za-z_]\w*)")
PREC = {"*": 5, "/": 5, "%": 5, "<<": 5, ">>": 5, "&": 5, "+": 4, "-": 4, "|": 4, "==": 3, "!=": 3, "<": 3, "<=": 3, ">": 3, ">=": 3}


def tokenize(s: str) -> List[str]:
    out, i = [], 0
    s = s.strip()
    while i < len(s):
        m = TOK.match(s, i)
        if not m:
            raise Untranslatable(f"token at {s[i:i+10]!r}")
        out.append(m.group(1))
        i = m.end()
    return out


class ExprParser:
    def __init__(self, toks: List[str], types: Dict[str, str], ret: str) -> None:
        self.t, self.i, self.types, self.ret = toks, 0, types, ret

    def peek(self) -> Optional[str]:
        return self.t[self.i] if self.i < len(self.t) else None

    def atom(self) -> Tuple[str, str]:
        tok = self.peek()
        if tok is None:
            raise Untranslatable("unexpected end")
        self.i += 1
        if tok == "(":
            e = self.expr(1)
            if self.peek() != ")":
                raise Untranslatable("missing )")
            self.i += 1
            return e
        if tok.isdigit():
            return f"({tok} : Int)", "int"
        if tok in ("true", "false"):
            return tok, "bool"
        if re.match(r"[A-Za-z_]\w*$", tok):
            if self.peek() == "(":
                self.i += 1
                args = []
                while self.peek() != ")":
                    args.append(self.expr(1)[0])
                    if self.peek() == ",":
                        self.i += 1
                self.i += 1
                return f"({tok} {' '.join(args)})", "int"
            return tok, self.types.get(tok, "int")
        raise Untranslatable(f"atom {tok}")

    def expr(self, p: int) -> Tuple[str, str]:
        l, lt = self.atom()
        while True:
            op = self.peek()
            if op is None or op not in PREC or PREC[op] < p:
                return l, lt
            self.i += 1
            r, rt = self.expr(PREC[op] + 1)
            if op in ("==", "!=", "<", "<=", ">", ">="):
                sym = {"==": "=", "!=": "≠", "<": "<", "<=": "≤", ">": ">", ">=": "≥"}[op]
                l, lt = f"({l} {sym} {r})", "prop"
            else:
                name = {"+": "add", "-": "sub", "*": "mul", "%": "mod", "/": "div", "<<": "shl", ">>": "shr", "&": "and", "|": "or"}[op]
                if lt == "byte" and op == "<<":
                    name = "shl8"
                l = f"(GoOp.{name} {l} {r})"


def translate_function(src: str, name: str) -> str:
    m = re.search(r"^func " + re.escape(name) + r"\(([^)]*)\) (\w+) \{\n(.*?)^\}", src, re.S | re.M)
    if not m:
        return f"-- MISSING in lib/go/bitproto.go: {name}\ndef {name}_MISSING : Int := 0\n"
    params_s, ret, body = m.group(1), m.group(2), m.group(3)
    lineno = src[: m.start()].count("\n") + 1
    try:
        # parameters: `i, j, n int` / `n byte, k int` / `b bool`
        types: Dict[str, str] = {}
        params: List[Tuple[str, str]] = []
        pending: List[str] = []
        for part in [p.strip() for p in params_s.split(",")]:
            bits = part.split()
            if len(bits) == 2:
                for q in pending + [bits[0]]:
                    params.append((q, bits[1]))
                    types[q] = bits[1]
                pending = []
            elif len(bits) == 1:
                pending.append(bits[0])
            else:
                raise Untranslatable(f"params {params_s}")
        lean_ty = lambda t: "Bool" if t == "bool" else "Int"
        stmts = [l.strip() for l in body.split("\n") if l.strip()]
        # (if cond { return e })* return e
        clauses: List[Tuple[Optional[str], str]] = []
        i = 0
        while i < len(stmts):
            s = stmts[i]
            mi = re.match(r"^if (.*) \{$", s)
            if mi:
                if i + 2 >= len(stmts) or not stmts[i + 1].startswith("return ") or stmts[i + 2] != "}":
                    raise Untranslatable("if shape")
                cond_t = tokenize(mi.group(1))
                cond, ct = ExprParser(cond_t, types, ret).expr(1)
                if ct == "bool":
                    cond = f"({cond} = true)"
                val = ExprParser(tokenize(stmts[i + 1][7:]), types, ret).expr(1)[0]
                clauses.append((cond, val))
                i += 3
            elif s.startswith("return "):
                clauses.append((None, ExprParser(tokenize(s[7:]), types, ret).expr(1)[0]))
                i += 1
            else:
                raise Untranslatable(f"statement {s!r}")
        if not clauses or clauses[-1][0] is not None:
            raise Untranslatable("no final return")
        body_l = clauses[-1][1]
        for cond, val in reversed(clauses[:-1]):
            body_l = f"if {cond} then {val} else {body_l}"
        ps = " ".join(f"({n} : {lean_ty(t)})" for n, t in params)
        return f"-- from lib/go/bitproto.go:{lineno}\ndef {name} {ps} : {lean_ty(ret)} :=\n  {body_l}\n"
    except Untranslatable as ex:
        return f"-- from lib/go/bitproto.go:{lineno}\n-- UNTRANSLATABLE: {ex}\ndef {name}_UNTRANSLATABLE : Int := 0\n"


def regenerate() -> Dict[str, Any]:
    src = open(os.path.join(common.REPO, "lib/go/bitproto.go")).read()
    out = [HEADER, "import BpModel.Model.GoOp\nnamespace Bp.Gen.GoHelpers\nopen Bp\n"]
    info: Dict[str, Any] = {"functions": {}}
    for name in WANT:
        text = translate_function(src, name)
        info["functions"][name] = "UNTRANSLATABLE" not in text and "MISSING" not in text
        out.append(text)
    out.append("end Bp.Gen.GoHelpers\n")
    info["changed"] = write_if_changed(os.path.join(GEN_DIR, "GoHelpers.lean"), "\n".join(out))
    return {"GoHelpers": info}
