"""C15 — generated API names follow the documented scheme.

Programs (single- and multi-file, any nesting depth, with and without `c.name_prefix`) whose names
follow the style guide are produced by renaming the definitions of generated programs
(tools/gen.py) from a word pool: PascalCase messages / enums / aliases (also acronym-led ones such
as `HTTPServer` and single letters), lower_snake fields, UPPER_SNAKE constants and enum members.
Each file is compiled by the REAL compiler for c, c -O, go, go -O and py.  The names DECLARED by the
generated text (C: struct / typedef / #define / prototypes / struct fields; Go: types, constants,
struct fields with JSON tags, methods; Python: classes, class attributes and methods, module
constants — read with `ast`), the symbols exported by the compiled object (`nm`, on a sample), the
attributes of the imported module (single-file programs) and the names of the written files (real
CLI, on a sample) are compared with the scheme the property documents, computed by this harness
from the abstract schema alone.

Prefix invariance: the same file is compiled with and without `option c.name_prefix`; Go and Python
output must be byte-identical, the C output must be identical after removing the PascalCase /
UPPER-CASE prefix from identifiers, and (sample) both builds must produce the same encoded bytes.

Tie of the Lean model (`Names.defName`, `pascalCase`, `upperCase`, `pyIsUpper`): the real case
converters on a stream of odd ASCII identifiers and the real formatters' definition names on every
generated definition are compared with the native driver's answers.
"""
from __future__ import annotations

import ast
import copy
import os
import random
import re
import subprocess
from typing import Any, Dict, List, Optional, Set, Tuple

from . import common
from . import gen as G
from . import real as R

WORDS = ["Zoo", "Monkey", "Pen", "Color", "Server", "Tail", "Kind", "Stamp", "Box", "Item", "Node", "Frame", "Packet", "Header",
         "Body", "Leg", "Arm", "Wing", "Http", "Id", "Ab", "Drone", "Motor", "Gps", "Status", "Flight", "Mode", "Range", "Unit"]
ACRONYMS = ["HTTP", "ID", "GPS", "IO"]
SINGLE = ["Q", "X", "K"]
FWORDS = ["age", "fur", "color", "seen", "at", "x", "y", "speed", "kind", "tail", "left", "right", "id", "state", "level", "count"]
PREFIXES = ["lib_", "my_prefix_", "qz_", "bpx_", "QV_"]


def pascal_prefix(p: str) -> str:
    """documented: `my_prefix_` -> `MyPrefix`"""
    # an ALL-CAPS part is capitalised like any other word: `GS_` -> `Gs` (the converter's documented behaviour)
    return "".join(w[:1].upper() + (w[1:].lower() if w[1:] and w[1:].isupper() else w[1:]) for w in p.split("_") if w)


def upper_snake(name: str) -> str:
    """conventional UPPER_SNAKE of a letters-only PascalCase word: a boundary before an upper-case
    letter that follows a lower-case one, and before the last upper-case letter of a run that is
    followed by a lower-case one (HTTPServer -> HTTP_SERVER)"""
    out = []
    for i, c in enumerate(name):
        if i and c.isupper():
            prev, nxt = name[i - 1], name[i + 1] if i + 1 < len(name) else ""
            if prev.islower() or (prev.isupper() and nxt.islower()):
                out.append("_")
        out.append(c.upper())
    return "".join(out)


class Namer:
    def __init__(self, rng: random.Random) -> None:
        self.rng = rng

    def type_name(self, taken: Set[str], avoid: Set[str] = frozenset()) -> str:
        r = self.rng
        for _ in range(200):
            k = r.random()
            if k < 0.07:
                n = r.choice(SINGLE)
            elif k < 0.2:
                n = r.choice(ACRONYMS) + r.choice(WORDS)
            else:
                n = "".join(r.choice(WORDS) for _ in range(r.choice([1, 1, 2, 2, 3])))
            if n not in taken and n not in avoid:
                taken.add(n)
                return n
        raise RuntimeError("name pool exhausted")

    def field_name(self, taken: Set[str]) -> str:
        r = self.rng
        for _ in range(200):
            n = "_".join(r.choice(FWORDS) for _ in range(r.choice([1, 2, 2, 3])))
            if n not in taken:
                taken.add(n)
                return n
        raise RuntimeError("field pool exhausted")


PY_RESERVED = {"bp", "json", "field", "List", "Dict", "Union", "ClassVar", "IntEnum", "unique", "dataclass"}


def rename(rng: random.Random, main: G.Schema) -> bool:
    """rename every definition of the program in place; False when the flattened names collide
    (name collisions are C10's subject)"""
    nm = Namer(rng)
    for s in main.all_files():
        flat: Set[str] = set()
        top: Set[str] = set()
        renamed: Dict[str, str] = {}

        def walk(d: Any, taken: Set[str], outer: Set[str] = frozenset()) -> bool:
            """`outer`: names declared EARLIER in the enclosing scopes — a nested definition must not shadow them
            (references are by object; the printed simple name would then resolve to the nested definition)"""
            if isinstance(d, G.ConstDef):
                base = "_".join(w.upper() for w in rng.sample(["max", "min", "size", "len", "cap", "rate", "ver", "mark"], 2))
                while base in taken:
                    base += "_" + rng.choice(["A", "B", "C"])
                taken.add(base)
                renamed[d.name] = base
                d.name = base
                return True
            d.name = nm.type_name(taken, outer)
            if isinstance(d, G.EnumDef):
                up = upper_snake(d.name)
                d.members = [(f"{up}_{w}", v) for (w, (_, v)) in zip(["UNKNOWN", "RED", "GREEN", "BLUE", "ALPHA", "BETA", "GAMMA"], d.members)]
            if isinstance(d, G.MsgDef):
                inner: Set[str] = set()
                for n in d.nested:
                    if not walk(n, inner, set(outer) | set(taken)):
                        return False
                ft: Set[str] = set()
                for f in d.fields:
                    f.name = nm.field_name(ft)
            return True

        for d in s.defs:
            if not walk(d, top):
                return False
        for t in G._all_types(s):  # array capacities written as constant names
            if isinstance(t, G.TArray) and getattr(t, "cap_text", None) in renamed:
                t.cap_text = renamed[t.cap_text]
        # flattened names must be distinct in every language (concatenation is not injective)
        for d in all_defs(s):
            if isinstance(d, G.ConstDef):
                continue
            c = "".join(G.scope_names(d))
            if c in flat or c in PY_RESERVED:
                return False
            flat.add(c)
        members: Set[str] = set()
        for d in all_defs(s):
            if isinstance(d, G.EnumDef):
                for (n, _) in d.members:
                    full = "_".join([upper_snake(x) for x in G.scope_names(d)[:-1]] + [n])
                    if full in members:
                        return False
                    members.add(full)
    return True


def all_defs(s: G.Schema) -> List[Any]:
    out: List[Any] = []

    def walk(d: Any) -> None:
        if isinstance(d, G.MsgDef):
            for n in d.nested:
                walk(n)
        out.append(d)

    for d in s.defs:
        walk(d)
    return out


def has_ext(s: G.Schema) -> bool:
    for d in all_defs(s):
        if isinstance(d, G.MsgDef) and (d.ext or any(G.has_ext(f.type) for f in d.fields)):
            return True
        if isinstance(d, G.AliasDef) and G.has_ext(d.type):
            return True
    return any(has_ext(i) for (i, _) in s.imports)


# --------------------------------------------------------------------------- the documented scheme
def squash(n: str) -> str:
    return n.replace("_", "").upper()


def ref_def(t: Any) -> Any:
    while isinstance(t, G.TArray):
        t = t.elem
    return t.d if isinstance(t, G.TRef) else None


def expected(s: G.Schema, prefix: str, prefixes: Optional[Dict[int, str]] = None) -> Dict[str, Any]:
    """prefixes: {id(file): its c.name_prefix} — a referenced definition carries the prefix of the file that DECLARES it"""
    P, U = pascal_prefix(prefix), prefix.upper()
    prefixes = prefixes or {}
    e: Dict[str, Any] = {"c_structs": {}, "c_typedefs": set(), "c_defines_exact": set(), "c_defines_loose": set(), "c_funcs": set(),
                         "c_funcs_O": set(), "go_structs": {}, "go_types_exact": set(), "go_types_loose": set(), "go_consts_exact": set(),
                         "go_consts_loose": set(), "py_classes": {}, "py_enums": {}, "py_consts": set(), "py_aliases": set(), "c_field_refs": {}}
    for d in all_defs(s):
        sc = G.scope_names(d)
        nested = len(sc) > 1
        if isinstance(d, G.ConstDef):
            e["c_defines_exact"].add(U + d.name)
            e["go_consts_exact"].add(d.name)
            e["py_consts"].add(d.name)
        elif isinstance(d, G.MsgDef):
            cn = P + "".join(sc)
            fields = sorted(d.fields, key=lambda f: f.num)  # emitted in field-number order
            e["c_structs"][cn] = [f.name for f in fields]
            e["c_field_refs"][cn] = {}
            for f in fields:
                rd = ref_def(f.type)
                if rd is not None:
                    home = getattr(rd, "home", s)
                    e["c_field_refs"][cn][f.name] = pascal_prefix(prefixes.get(id(home), prefix if home is s else "")) + "".join(G.scope_names(rd))
            for fn in ("Encode", "Decode"):
                e["c_funcs"].add(fn + cn)
                e["c_funcs_O"].add(fn + cn)
            e["c_funcs"].add("Json" + cn)
            # BYTES_LENGTH_<UPPER_SNAKE_NAME> of the C name: with a prefix that ends in `_` that is the upper-case prefix followed
            # by the upper-snake schema name; a prefix without the underscore is a word of the name (`L` + Range = LRange -> L_RANGE)
            e["c_defines_exact"].add("BYTES_LENGTH_" + (U + upper_snake("".join(sc)) if prefix.endswith("_") or not prefix
                                                        else upper_snake(P + "".join(sc))))
            e["go_structs"]["".join(sc)] = [("".join(w[:1].upper() + w[1:] for w in f.name.split("_")), f.name) for f in fields]
            e["go_consts_exact"].add("BYTES_LENGTH_" + upper_snake("".join(sc)))
            e["py_classes"]["_".join(sc)] = [f.name for f in fields]
        elif isinstance(d, G.EnumDef):
            e["c_typedefs"].add(P + "".join(sc))
            (e["go_types_loose"] if nested else e["go_types_exact"]).add("_".join(sc) if nested else d.name)
            e["py_enums"]["_".join(sc)] = []
            for (n, _) in d.members:
                if nested:
                    full = "_".join([upper_snake(x) for x in sc[:-1]] + [n])
                    e["c_defines_loose"].add(U + full)
                    e["go_consts_loose"].add(full)
                    e["py_enums"]["_".join(sc)].append((full, False))
                else:
                    e["c_defines_exact"].add(U + n)
                    e["go_consts_exact"].add(n)
                    e["py_enums"]["_".join(sc)].append((n, True))
        elif isinstance(d, G.AliasDef):
            e["c_typedefs"].add(P + "".join(sc))
            e["go_types_exact"].add(d.name)
            e["py_aliases"].add(d.name)
    return e


# --------------------------------------------------------------------------- declared names
def scan_h(text: str) -> Dict[str, Any]:
    out: Dict[str, Any] = {"structs": {}, "typedefs": set(), "defines": set(), "funcs": {}, "field_types": {}}
    cur = None
    for line in text.split("\n"):
        m = re.match(r"^struct (\w+) \{", line)
        if m:
            cur = m.group(1)
            out["structs"][cur] = []
            out["field_types"][cur] = {}
            continue
        if cur is not None:
            if line.startswith("}"):
                cur = None
                continue
            m = re.match(r"^\s+((?:struct )?[\w ]*?)\b(\w+)((?:\[\d+\])*);", line)
            if m:
                out["structs"][cur].append(m.group(2))
                out["field_types"][cur][m.group(2)] = (m.group(1).split() or [""])[-1]
            continue
        m = re.match(r"^typedef .*?\b(\w+)((?:\[\d+\])*);", line)
        if m:
            out["typedefs"].add(m.group(1))
            continue
        m = re.match(r"^#define (\w+)\b", line)
        if m and not m.group(1).startswith(("__BITPROTO__", "BITPROTO_")):  # header guard / mode marker: not schema names
            out["defines"].add(m.group(1))
            continue
        m = re.match(r"^int (\w+)\(struct (\w+) \*m, (?:unsigned )?char \*s\);", line)
        if m:
            out["funcs"][m.group(1)] = m.group(2)
    return out


def scan_c_defs(text: str) -> Set[str]:
    return set(re.findall(r"^int (\w+)\(struct \w+ \*m, (?:unsigned )?char \*s\) \{", text, re.M))


def scan_go(text: str) -> Dict[str, Any]:
    out: Dict[str, Any] = {"structs": {}, "types": set(), "consts": set(), "methods": {}}
    cur = None
    in_const = False
    for line in text.split("\n"):
        m = re.match(r"^type (\w+) struct \{", line)
        if m:
            cur = m.group(1)
            out["structs"][cur] = []
            continue
        if cur is not None:
            if line.startswith("}"):
                cur = None
                continue
            m = re.match(r'^\t(\w+) (\S+) `json:"([^"]*)"`', line)
            if m:
                out["structs"][cur].append((m.group(1), m.group(3)))
            continue
        m = re.match(r"^type (\w+) ", line)
        if m:
            out["types"].add(m.group(1))
            continue
        if line.startswith("const ("):
            in_const = True
            continue
        if in_const:
            if line.startswith(")"):
                in_const = False
                continue
            m = re.match(r"^\t(\w+)\b", line)
            if m:
                out["consts"].add(m.group(1))
            continue
        m = re.match(r"^const (\w+) ", line)
        if m:
            out["consts"].add(m.group(1))
            continue
        m = re.match(r"^func \(m \*(\w+)\) (\w+)\(", line)
        if m:
            out["methods"].setdefault(m.group(1), set()).add(m.group(2))
    return out


def scan_py(text: str) -> Dict[str, Any]:
    tree = ast.parse(text)
    out: Dict[str, Any] = {"classes": {}, "enums": {}, "assigned": set()}
    for node in tree.body:
        if isinstance(node, ast.ClassDef):
            bases = [ast.unparse(b) for b in node.bases]
            attrs, methods = [], set()
            for b in node.body:
                if isinstance(b, ast.AnnAssign) and isinstance(b.target, ast.Name):
                    attrs.append(b.target.id)
                elif isinstance(b, ast.Assign):
                    attrs.extend(t.id for t in b.targets if isinstance(t, ast.Name))
                elif isinstance(b, ast.FunctionDef):
                    methods.add(b.name)
            if "IntEnum" in bases:
                out["enums"][node.name] = attrs
            else:
                out["classes"][node.name] = (attrs, methods, bases)
        elif isinstance(node, ast.AnnAssign) and isinstance(node.target, ast.Name):
            out["assigned"].add(node.target.id)
        elif isinstance(node, ast.Assign):
            out["assigned"].update(t.id for t in node.targets if isinstance(t, ast.Name))
    return out


# --------------------------------------------------------------------------- one compiled file
def render_all(path: str, ext_free: bool) -> Dict[str, Any]:
    from bitproto.renderer.impls import renderer_registry

    res: Dict[str, Any] = {}
    proto = R.parse_file(path)
    configs = [("c", False), ("go", False), ("py", False)]
    for (lang, opt) in configs:
        for cls in renderer_registry[lang]:
            r = cls(proto, outdir=None, optimization_mode=opt)
            res[(lang, opt, r.file_extension())] = (r.out_filename, r.render_string())
    if ext_free:
        proto_t = R.parse_file(path, traditional=True)
        for lang in ("c", "go"):
            for cls in renderer_registry[lang]:
                r = cls(proto_t, outdir=None, optimization_mode=True)
                res[(lang, True, r.file_extension())] = (r.out_filename, r.render_string())
    res["proto"] = proto
    return res


def compare_names(run: common.Run, rep: Dict[str, Any], s: G.Schema, prefix: str, res: Dict[str, Any], prefixes: Optional[Dict[int, str]] = None) -> None:
    e = expected(s, prefix, prefixes)
    base = s.base()

    def bad(lang: str, what: str, got: Any, want: Any) -> None:
        run.violation(dict(rep, kind="impl-vs-spec", language=lang, what=what, observed_impl=_js(got), expected_by_spec=_js(want)))

    for opt in (False, True):
        if ("c", opt, ".h") not in res:
            continue
        tag = "c -O" if opt else "c"
        hname, htext = res[("c", opt, ".h")]
        cname, ctext = res[("c", opt, ".c")]
        if (hname, cname) != (f"{base}_bp.h", f"{base}_bp.c"):
            bad(tag, "output file names", [hname, cname], [f"{base}_bp.h", f"{base}_bp.c"])
        h = scan_h(htext)
        run.nontrivial(("c", opt, len(h["structs"]), len(h["typedefs"]), len(h["defines"]), bool(prefix)))
        if h["structs"] != e["c_structs"]:
            bad(tag, "struct names and field names", h["structs"], e["c_structs"])
        else:
            got_refs = {st: {f: h["field_types"][st].get(f) for f in refs} for st, refs in e["c_field_refs"].items()}
            if got_refs != e["c_field_refs"]:
                bad(tag, "type names of fields that refer to a named definition (prefix of the DECLARING file)", got_refs, e["c_field_refs"])
        if h["typedefs"] != e["c_typedefs"]:
            bad(tag, "typedef names (enums, aliases)", sorted(h["typedefs"]), sorted(e["c_typedefs"]))
        # macros: constants, top-level enum members and size constants exactly; nested enum members modulo `_`
        loose_want = {squash(x) for x in e["c_defines_loose"]}
        exact_got = {d for d in h["defines"] if d in e["c_defines_exact"]}
        rest = h["defines"] - exact_got
        if exact_got != e["c_defines_exact"] or {squash(x) for x in rest} != loose_want:
            bad(tag, "macro names (constants, enum members, BYTES_LENGTH_<UPPER_SNAKE_NAME>)", sorted(h["defines"]),
                {"exact": sorted(e["c_defines_exact"]), "nested enum members (modulo underscores)": sorted(e["c_defines_loose"])})
        want_f = e["c_funcs_O"] if opt else e["c_funcs"]
        if set(h["funcs"]) != want_f:
            bad(tag, "Encode<Name> / Decode<Name> / Json<Name> prototypes", sorted(h["funcs"]), sorted(want_f))
        else:
            for fn, st in h["funcs"].items():
                if not fn.endswith(st):
                    bad(tag, "function takes the struct it is named after", {fn: st}, "struct name = function name without its verb")
        if scan_c_defs(ctext) != want_f:
            bad(tag, "functions defined in the .c file", sorted(scan_c_defs(ctext)), sorted(want_f))
    for opt in (False, True):
        if ("go", opt, ".go") not in res:
            continue
        tag = "go -O" if opt else "go"
        gname, gtext = res[("go", opt, ".go")]
        if gname != f"{base}_bp.go":
            bad(tag, "output file name", gname, f"{base}_bp.go")
        g = scan_go(gtext)
        run.nontrivial(("go", opt, len(g["structs"]), len(g["types"]), len(g["consts"])))
        if g["structs"] != e["go_structs"]:
            bad(tag, "struct names, PascalCase field names and JSON tags", g["structs"], e["go_structs"])
        exact_t = {t for t in g["types"] if t in e["go_types_exact"]}
        if exact_t != e["go_types_exact"] or {squash(t) for t in g["types"] - exact_t} != {squash(t) for t in e["go_types_loose"]}:
            bad(tag, "type names (enums, aliases)", sorted(g["types"]), {"exact": sorted(e["go_types_exact"]), "nested (modulo underscores)": sorted(e["go_types_loose"])})
        exact_c = {c for c in g["consts"] if c in e["go_consts_exact"]}
        if exact_c != e["go_consts_exact"] or {squash(c) for c in g["consts"] - exact_c} != {squash(c) for c in e["go_consts_loose"]}:
            bad(tag, "constant names (constants, enum members, BYTES_LENGTH_<UPPER_SNAKE_NAME>)", sorted(g["consts"]),
                {"exact": sorted(e["go_consts_exact"]), "nested (modulo underscores)": sorted(e["go_consts_loose"])})
        for st in e["go_structs"]:
            if not {"Encode", "Decode", "Size"} <= g["methods"].get(st, set()):
                bad(tag, f"methods Encode / Decode / Size of {st}", sorted(g["methods"].get(st, set())), ["Encode", "Decode", "Size"])
    pname, ptext = res[("py", False, ".py")]
    if pname != f"{base}_bp.py":
        bad("py", "output file name", pname, f"{base}_bp.py")
    p = scan_py(ptext)
    run.nontrivial(("py", len(p["classes"]), len(p["enums"])))
    got_classes = {k: [a for a in v[0] if a != "BYTES_LENGTH" and not a.startswith("_enum_field_proxy__")] for k, v in p["classes"].items()}
    if got_classes != e["py_classes"]:
        bad("py", "message class names and field names", got_classes, e["py_classes"])
    for k, (attrs, methods, bases) in p["classes"].items():
        # to_json / to_dict / from_json / from_dict are inherited from bp.MessageBase
        if "BYTES_LENGTH" not in attrs or not {"encode", "decode"} <= methods or "bp.MessageBase" not in bases:
            bad("py", f"class {k}: BYTES_LENGTH, encode, decode (to_json / to_dict from bp.MessageBase)", [attrs, sorted(methods), bases], "present")
    if set(p["enums"]) != set(e["py_enums"]):
        bad("py", "enum class names", sorted(p["enums"]), sorted(e["py_enums"]))
    else:
        for k, members in e["py_enums"].items():
            got = p["enums"][k]
            ok = len(got) == len(members) and all((g_ == w) if exact else (squash(g_) == squash(w)) for g_, (w, exact) in zip(got, members))
            if not ok:
                bad("py", f"members of enum {k}", got, [w for w, _ in members])
    if not (e["py_consts"] | e["py_aliases"]) <= p["assigned"]:
        bad("py", "module-level constants and alias names", sorted(p["assigned"]), sorted(e["py_consts"] | e["py_aliases"]))


def _js(x: Any) -> Any:
    if isinstance(x, (set, frozenset)):
        return sorted(_js(v) for v in x)
    if isinstance(x, dict):
        return {str(k): _js(v) for k, v in x.items()}
    if isinstance(x, (list, tuple)):
        return [_js(v) for v in x]
    return x


def strip_prefix(text: str, prefix: Any) -> str:
    if not isinstance(prefix, str):
        for p in sorted(prefix, key=len, reverse=True):
            text = strip_prefix(text, p)
        return text
    if not prefix:
        return text
    P, U = pascal_prefix(prefix), prefix.upper()
    text = re.sub(re.escape(P) + r"(?=[A-Z])", "", text)
    return text.replace(U, "")


def compare_prefix(run: common.Run, rep: Dict[str, Any], with_p: Dict[str, Any], without: Dict[str, Any], prefix: Any) -> None:
    for key, val in with_p.items():
        if key == "proto" or key not in without:
            continue
        name, text = val
        lang, opt, ext = key
        other = without[key][1]
        if lang != "c":
            if text != other or name != without[key][0]:
                run.violation(dict(rep, kind="impl-vs-spec", language=lang, what="the C name prefix changed the output of another language",
                                   observed_impl=_first_diff(text, other), expected_by_spec="byte-identical output"))
            continue
        if strip_prefix(text, prefix) != other:
            run.violation(dict(rep, kind="impl-vs-spec", language="c -O" if opt else "c", what=f"{ext}: c.name_prefix changed more than type / function / macro names",
                               observed_impl=_first_diff(strip_prefix(text, prefix), other),
                               expected_by_spec="identical text after removing the PascalCase / UPPER-CASE prefix from identifiers"))
    run.count("prefix_pairs")


def _first_diff(a: str, b: str) -> Any:
    la, lb = a.split("\n"), b.split("\n")
    for i, (x, y) in enumerate(zip(la, lb)):
        if x != y:
            return {"line": i + 1, "with": x, "without": y}
    return {"lines": [len(la), len(lb)]}


# --------------------------------------------------------------------------- model tie
def kind_of(d: Any) -> str:
    from bitproto import _ast as A

    if isinstance(d, A.Message):
        return "message"
    if isinstance(d, A.Enum):
        return "enum"
    if isinstance(d, A.Alias):
        return "alias"
    return "constant"


def tie_defnames(run: common.Run, drv: common.Driver, proto, prefix: str, rep: Dict[str, Any]) -> None:
    """real formatters' definition names vs Names.defName"""
    from bitproto import _ast as A
    from bitproto.renderer.impls.c.formatter import CFormatter
    from bitproto.renderer.impls.go.formatter import GoFormatter
    from bitproto.renderer.impls.py.formatter import PyFormatter

    fm = {"c": CFormatter(), "go": GoFormatter(), "py": PyFormatter()}
    reqs, reals = [], []

    def walk(scope, scopes: List[str]) -> None:
        for name, d in scope.members.items():
            if isinstance(d, (A.Message, A.Enum, A.Alias, A.Constant)):
                for lang, f in fm.items():
                    reqs.append({"op": "names.def", "lang": lang, "kind": kind_of(d), "prefix": prefix if lang == "c" else "", "scopes": scopes, "name": d.name})
                    reals.append(f.format_definition_name(d))
                if isinstance(d, A.Message):
                    walk(d, scopes + [d.name])

    walk(proto, [])
    for q, real, ans in zip(reqs, reals, drv.batch(reqs)):
        run.count("tie_defname")
        if ans.get("ok") != real:
            run.notes.setdefault("model_disagreements", []).append(dict(rep, request=q, observed_impl=real, model_answer=ans))


ODD = ["", "_", "__", "a", "A", "aB", "Ab", "AB", "ABC", "ABc", "aBC", "a_b", "A_B", "a__b", "_a", "a_", "Zoo_Monkey", "zooMonkey", "HTTPServer",
       "HTTP_server", "http_SERVER", "Q", "QX", "Q_X", "x1", "X1", "A1B", "A_1", "_1", "lib_Zoo", "my_prefix_PenBox", "XyZoo", "ZOO", "Zoo", "zOO"]


def tie_converters(run: common.Run, drv: common.Driver, rng: random.Random, n: int) -> None:
    from bitproto.utils import pascal_case, upper_case

    words = list(ODD)
    alphabet = "abzABZ_019"
    for _ in range(n):
        words.append("".join(rng.choice(alphabet) for _ in range(rng.randint(0, 9))))
    reqs = []
    for w in words:
        reqs += [{"op": "names.pascal", "s": w}, {"op": "names.upper", "s": w}, {"op": "names.isupper", "s": w}]
    ans = drv.batch(reqs)
    for i, w in enumerate(words):
        real = [pascal_case(w), upper_case(w), w.isupper()]
        got = [a.get("ok") for a in ans[3 * i:3 * i + 3]]
        run.count("tie_converter")
        if real != got:
            run.notes.setdefault("model_disagreements", []).append({"input": w, "observed_impl": real, "model_answer": got, "what": "pascal_case / upper_case / str.isupper"})


# --------------------------------------------------------------------------- main loop
def make_program(rng: random.Random, allow_ext: bool) -> Optional[G.Schema]:
    po = G.ProgOpts(n_imports=(0, 2), options=False, gen=G.GenOpts(max_depth=3, max_fields=4, allow_ext=allow_ext, max_bits=1500, big_prob=0.0))
    main = G.ProgramGen(rng, po).program()
    if not rename(rng, main):
        return None
    protos = set()
    for k, s in enumerate(main.all_files()):
        s.proto = "_".join(rng.sample(["pen", "zoo", "drone", "link", "ctl", "nav", "log", "cfg"], rng.choice([1, 2])))
        if s.proto in protos:
            s.proto += "_" + "abcdefgh"[k % 8]
        protos.add(s.proto)
    if rng.random() < 0.3:
        # the output is named after the FILE (base name up to the last extension), not after the proto
        main.filename = main.proto + rng.choice([".v2", ".rev.b", "-x", "_file"])
    return main


def check(run: common.Run, drv: common.Driver, rng: random.Random, tier: str) -> None:
    n = {"quick": 90, "thorough": 1100}[tier]
    so_budget = {"quick": 6, "thorough": 80}[tier]
    cli_budget = {"quick": 6, "thorough": 60}[tier]
    tie_converters(run, drv, rng, 300 if tier == "quick" else 5000)
    with R.Scratch() as sc:
        for k in range(n):
            allow_ext = rng.random() < 0.5
            main = make_program(rng, allow_ext)
            if main is None:
                run.count("renamed_program_rejected_for_flat_name_collision")
                continue
            files = main.all_files()
            # every file gets its OWN prefix (or none): a referenced definition carries the prefix of its declaring file
            chosen = rng.sample(PREFIXES + [""], len(files)) if len(files) <= len(PREFIXES) + 1 else [rng.choice(PREFIXES) for _ in files]
            pfx = {id(s): p for s, p in zip(files, chosen)}
            # a prefix that is itself the beginning of one of the file's names (`ZZ_` with const ZZ_TOP, `RANGE_` with enum member
            # RANGE_RED): the prefix is still put in front of EVERY name.  The textual prefix-removal comparison cannot be used then.
            echo_prefix = False
            if rng.random() < 0.3:
                # documented prefixes end in `_`; such a prefix can only echo UPPER_SNAKE names: constants and enum members
                uppers = [x.name for x in main.defs if isinstance(x, G.ConstDef) and "_" in x.name]
                uppers += [n for x in main.defs if isinstance(x, G.EnumDef) for (n, _) in x.members if "_" in n]
                # (a one-letter prefix runs into a following capital: `X_` + GPSHeader = XGPSHeader, whose upper-snake form is the
                #  converter's business, not the documented scheme's: at least two letters)
                cand = sorted({u.split("_")[0] + "_" for u in uppers if u.split("_")[0].isalpha() and len(u.split("_")[0]) >= 2})
                if cand:
                    pfx[id(main)] = rng.choice(cand)
                    chosen = [pfx[id(s)] for s in files]
                    echo_prefix = True
                    run.count("prefix_is_the_beginning_of_a_name")
            d = sc.path(f"p{k}")
            os.makedirs(d)
            dn = sc.path(f"p{k}n")
            os.makedirs(dn)
            for s in files:
                s.options = []
            texts_n = G.program_files(main, None)
            # same text in both variants but for the option line
            texts = {}
            for s in files:
                fn = f"{s.base()}.bitproto"
                lines = texts_n[fn].split("\n")
                at = max([i for i, l in enumerate(lines) if l.startswith("import ")] + [0]) + 1
                opt = [f'option c.name_prefix = "{pfx[id(s)]}"'] if pfx[id(s)] else []
                texts[fn] = "\n".join(lines[:at] + opt + lines[at:])
            for fn in texts:
                open(os.path.join(d, fn), "w").write(texts[fn])
                open(os.path.join(dn, fn), "w").write(texts_n[fn])
            for s in files:
                run.evaluated()
                prefix = pfx[id(s)]
                rep = {"input": {"files": texts, "compiled": f"{s.base()}.bitproto", "prefix": prefix}}
                ext_free = not has_ext(s)
                try:
                    with_p = render_all(os.path.join(d, f"{s.base()}.bitproto"), ext_free)
                    without = render_all(os.path.join(dn, f"{s.base()}.bitproto"), ext_free)
                except Exception as ex:  # the generated program must be accepted: C08/C09's business otherwise
                    run.count("program_not_accepted:" + type(ex).__name__)
                    run.notes.setdefault("not_accepted", []).append(str(ex)[:200])
                    break
                run.count("files_compiled")
                run.count("prefix:" + (prefix or "none"))
                run.count("depth=%d" % max([len(G.scope_names(x)) for x in all_defs(s)] + [0]))
                compare_names(run, rep, s, prefix, with_p, pfx)
                compare_names(run, dict(rep, prefix=""), s, "", without, {})
                if not echo_prefix:
                    compare_prefix(run, rep, with_p, without, [p for p in chosen if p])
                tie_defnames(run, drv, with_p["proto"], prefix, rep)
                tie_defnames(run, drv, without["proto"], "", rep)
                if k % 15 == 0:
                    run.sample({"file": texts[f"{s.base()}.bitproto"][:600], "c_structs": sorted(expected(s, prefix)["c_structs"])}, limit=2)
                if so_budget > 0 and not s.imports:
                    so_budget -= 1
                    exported(run, rep, sc, s, prefix, with_p, f"p{k}")
                if cli_budget > 0 and s is main:
                    cli_budget -= 1
                    cli_files(run, rep, d, s)


def exported(run: common.Run, rep: Dict[str, Any], sc: R.Scratch, s: G.Schema, prefix: str, res: Dict[str, Any], tag: str) -> None:
    """symbols exported by the compiled object; attributes of the imported Python module"""
    from . import creal

    e = expected(s, prefix)
    d = sc.path(tag + "_obj")
    os.makedirs(d, exist_ok=True)
    (hname, htext), (cname, ctext) = res[("c", False, ".h")], res[("c", False, ".c")]
    open(os.path.join(d, hname), "w").write(htext)
    open(os.path.join(d, cname), "w").write(ctext)
    ok, err = creal.run_gcc(["-c", "-w", "-I", creal.LIBC_DIR, "-I", d, cname, "-o", "x.o"], d)
    if not ok:
        run.count("gcc_failed_on_generated_code(C10's subject)")
        return
    p = subprocess.run(["nm", "--defined-only", "-g", "x.o"], cwd=d, capture_output=True, text=True)
    syms = {l.split()[-1] for l in p.stdout.splitlines() if " T " in l}
    api = {x for x in syms if not x.startswith("Bp")}  # Bp*: internal helpers, documented as not part of the API
    run.count("objects_inspected")
    if api != e["c_funcs"]:
        run.violation(dict(rep, kind="impl-vs-spec", language="c", what="symbols exported by the compiled object",
                           observed_impl=sorted(api), expected_by_spec=sorted(e["c_funcs"])))
    mod = R.load_py_module(res[("py", False, ".py")][1], "c15")
    try:
        for cls, fields in e["py_classes"].items():
            c = getattr(mod, cls, None)
            want = ["encode", "decode", "to_json", "to_dict", "BYTES_LENGTH"] + fields
            missing = [a for a in want if c is None or not hasattr(c() if a in fields else c, a)]
            if missing:
                run.violation(dict(rep, kind="impl-vs-spec", language="py", what=f"attributes of class {cls} of the imported module",
                                   observed_impl={"missing": missing}, expected_by_spec=want))
        for name in e["py_consts"] | set(e["py_enums"]) | e["py_aliases"]:
            if not hasattr(mod, name):
                run.violation(dict(rep, kind="impl-vs-spec", language="py", what="attribute of the imported module", observed_impl=f"{name} missing",
                                   expected_by_spec=name))
        run.count("modules_imported")
    finally:
        R.unload(mod)


def cli_files(run: common.Run, rep: Dict[str, Any], d: str, s: G.Schema) -> None:
    base = s.base()
    for lang, want in (("c", {f"{base}_bp.h", f"{base}_bp.c"}), ("go", {f"{base}_bp.go"}), ("py", {f"{base}_bp.py"})):
        out = os.path.join(d, "out_" + lang)
        os.makedirs(out, exist_ok=True)
        p = subprocess.run([common.PY, "-m", "bitproto._main", lang, f"{base}.bitproto", "out_" + lang, "-q"], cwd=d, capture_output=True, text=True,
                           env={**os.environ, "PYTHONPATH": f"{common.REPO}/compiler:{common.REPO}/lib/py", "PYTHONDONTWRITEBYTECODE": "1"})
        got = set(os.listdir(out))
        run.count("cli_runs")
        if p.returncode != 0 or got != want:
            run.violation(dict(rep, kind="impl-vs-spec", language=lang, what="names of the written files",
                               observed_impl={"exit": p.returncode, "files": sorted(got), "stderr": p.stderr[-300:]}, expected_by_spec=sorted(want)))
    # the schema reached through a symbolic link, a relative path with `..`, and an absolute path: the output is named after
    # the base name of the path the user GAVE (`<schema file base name>_bp`), the included header likewise
    if not s.imports:
        store = os.path.join(d, "store_q")
        work = os.path.join(d, "work_q")
        os.makedirs(store, exist_ok=True)
        os.makedirs(work, exist_ok=True)
        src = os.path.join(store, "telemetry_v2.bitproto")
        if not os.path.exists(src):
            import shutil
            shutil.copy(os.path.join(d, f"{base}.bitproto"), src)
            os.symlink(os.path.join("..", "store_q", "telemetry_v2.bitproto"), os.path.join(work, "current.bitproto"))
        for lang, spelled, stem in (("c", "current.bitproto", "current"), ("py", os.path.join("..", "work_q", "current.bitproto"), "current"),
                                    ("go", os.path.join(work, "current.bitproto"), "current"), ("c", os.path.join("..", "store_q", "telemetry_v2.bitproto"), "telemetry_v2")):
            out = os.path.join(work, f"out_{lang}_{stem}")
            os.makedirs(out, exist_ok=True)
            p = subprocess.run([common.PY, "-m", "bitproto._main", lang, spelled, out, "-q"], cwd=work, capture_output=True, text=True,
                               env={**os.environ, "PYTHONPATH": f"{common.REPO}/compiler:{common.REPO}/lib/py", "PYTHONDONTWRITEBYTECODE": "1"})
            want = {"c": {f"{stem}_bp.h", f"{stem}_bp.c"}, "go": {f"{stem}_bp.go"}, "py": {f"{stem}_bp.py"}}[lang]
            got = set(os.listdir(out))
            run.count("cli_runs_through_link_or_relative_path")
            included_ok = True
            if lang == "c" and f"{stem}_bp.c" in got:
                included_ok = f'#include "{stem}_bp.h"' in open(os.path.join(out, f"{stem}_bp.c")).read()
            if p.returncode != 0 or got != want or not included_ok:
                run.violation(dict(rep, kind="impl-vs-spec", language=lang, what="names of the written files (schema given as " + spelled + ", a symbolic link to ../store_q/telemetry_v2.bitproto)",
                                   observed_impl={"exit": p.returncode, "files": sorted(got), "stderr": p.stderr[-300:], "c file includes its own header": included_ok},
                                   expected_by_spec=sorted(want)))
