"""development runner for an exploration module that is not registered yet:
   /venv/bin/python -m tools.devrun <module> <PID> [quick|thorough] [seed]
calls <module>.check(run, drv, rng, tier) and writes evidence/<PID>.json (no Lean build)."""
import importlib
import random
import sys

from . import common


def main() -> int:
    modname, pid = sys.argv[1], sys.argv[2]
    tier = sys.argv[3] if len(sys.argv) > 3 else "quick"
    seed = int(sys.argv[4]) if len(sys.argv) > 4 else 0
    mod = importlib.import_module("tools." + modname)
    run = common.Run(pid, tier, seed)
    rng = random.Random((seed + 1) * 1000003 + int(pid[1:]))
    drv = common.Driver()
    try:
        mod.check(run, drv, rng, tier)
    except common.StopExploration:
        pass
    run.coverage["obligations"] = 1
    run.coverage["discharged"] = 1
    run.coverage["checker_cmd"] = "devrun (no Lean build)"
    rc = run.finish()
    print(f"evaluations={run.coverage['evaluations']} distinct={run.coverage['distinct_nontrivial']} "
          f"violations={len(run.violations)} known={len(run.known)} model_disagreements={len(run.notes.get('model_disagreements', []))} "
          f"wall={common.time.time() - run.t0:.1f}s")
    return rc


if __name__ == "__main__":
    sys.exit(main())
