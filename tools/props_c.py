"""Correspondence / failing-input search for the C runtime properties (C03, C06, C07, C14)."""
from __future__ import annotations

import ctypes
import random
import re
from typing import Any, Dict, List, Optional, Tuple

from . import common
from . import creal as C
from . import gen as G
from . import real as R
from .props_wire import shape_key

U8P = ctypes.POINTER(ctypes.c_ubyte)


def _buf(data: bytes, guard: int = C.GUARD):
    raw = b"\xA5" * guard + data + b"\xA5" * guard
    b = (ctypes.c_ubyte * len(raw))(*raw)
    return b, ctypes.cast(ctypes.addressof(b) + guard, U8P)


def _unbuf(b, n: int, guard: int = C.GUARD) -> Tuple[bytes, bool]:
    raw = bytes(b)
    return raw[guard:guard + n], raw[:guard] == b"\xA5" * guard and raw[guard + n:] == b"\xA5" * guard


def rand_bytes(rng: random.Random, n: int) -> bytes:
    k = rng.random()
    if k < 0.2:
        return bytes(n)
    if k < 0.3:
        return b"\xff" * n
    return bytes(rng.randrange(256) for _ in range(n))


# ===================================================================== direct copier calls
def check_copier(run: common.Run, drv: common.Driver, rng: random.Random, sc: R.Scratch, n_calls: int,
                 be: bool, flags: Tuple[str, ...], pid: str) -> None:
    lib = C.runtime_lib(sc, flags + (("-DBP_BIG_ENDIAN",) if be else ()))
    fn = lib.BpCopyBufferBits
    fn.argtypes = [ctypes.c_int, U8P, U8P, ctypes.c_int, ctypes.c_int]
    fn.restype = None
    cases = []
    for _ in range(n_calls):
        n = rng.choice([1, 2, 7, 8, 9, 15, 16, 17, 24, 25, 31, 32, 33, 40, 63, 64, 65, 100, 128]) if rng.random() < 0.5 else rng.randint(0, 140)
        di = 0 if rng.random() < 0.4 else rng.randint(0, 7) if rng.random() < 0.8 else rng.randint(0, 40)
        si = rng.randint(0, 7) if rng.random() < 0.8 else rng.randint(0, 40)
        dlen = (di + n + 7) // 8
        slen = (si + n + 7) // 8
        # destination: clean at and above di (documented use) or, sometimes, arbitrary
        dst = bytearray(rand_bytes(rng, dlen))
        if rng.random() < 0.8:
            for p in range(di, 8 * dlen):
                dst[p // 8] &= ~(1 << (p % 8)) & 0xFF
        src = rand_bytes(rng, slen)
        db, dp = _buf(bytes(dst))
        sb, spp = _buf(src)
        fn(n, dp, spp, di, si)
        got, gok = _unbuf(db, dlen)
        _, sok = _unbuf(sb, slen)
        cases.append((n, di, si, bytes(dst), src, got, gok and sok))
    reqs = [{"op": "c.copybits", "be": be, "n": n, "di": di, "si": si, "dst": d.hex(), "src": s.hex()}
            for (n, di, si, d, s, _, _) in cases]
    ans = drv.batch(reqs)
    for k, ((n, di, si, d, s, got, gok), a) in enumerate(zip(cases, ans)):
        run.evaluated()
        path = "w32" if (not be and di % 8 == 0 and n + si % 8 >= 32) else "w16" if (not be and di % 8 == 0 and n + si % 8 >= 16) else \
            "b8" if (di % 8 == 0 and n + si % 8 >= 8) else "sub" if di % 8 == 0 else "or"
        run.count(f"copier_first_path:{path}")
        run.nontrivial(("copy", be, min(n, 70), di % 8, si % 8))
        if k < 1:
            run.sample({"request": reqs[k], "model": a, "real": got.hex()}, limit=4)
        # specification of the copier: bits [di, di+n) of dst = bits [si, si+n) of src, OR-ed onto a
        # clean destination; nothing outside the destination bytes touched
        D = int.from_bytes(d, "little")
        S = int.from_bytes(s, "little")
        clean = all(not (D >> p) & 1 for p in range(di, 8 * len(d)))
        exp = (D | (((S >> si) & ((1 << n) - 1)) << di)).to_bytes(len(d), "little") if clean else None
        rep = {"input": {"call": "BpCopyBufferBits", "be_build": be, "n": n, "di": di, "si": si, "dst": d.hex(), "src": s.hex()},
               "observed_impl": {"dst": got.hex(), "guards_intact": gok}, "model_answer": a,
               "expected_by_spec": exp.hex() if exp else None}
        if not gok or (exp is not None and got != exp):
            run.violation(dict(rep, kind="impl-vs-spec"))
        elif a.get("ok") != got.hex():
            run.notes.setdefault("model_disagreements", []).append(rep)


# ===================================================================== direct base-type calls
def kind_list() -> List[Tuple[str, int, bool]]:
    ks = [("bool", 1, False), ("byte", 8, False)]
    ks += [("uint", n, False) for n in range(1, 65)] + [("int", n, True) for n in range(1, 65)]
    return ks


def storage_size(n: int) -> int:
    return 1 if n <= 8 else 2 if n <= 16 else 4 if n <= 32 else 8


def basis_values(n: int, signed: bool, rng: random.Random, extra: int = 2) -> List[int]:
    if signed:
        lo, hi = -(1 << (n - 1)), (1 << (n - 1)) - 1
        vals = {0, -1, lo, hi} | {1 << k for k in range(n - 1)} | {-(1 << k) for k in range(n)}
    else:
        lo, hi = 0, (1 << n) - 1
        vals = {0, hi} | {1 << k for k in range(n)}
    vals = {v for v in vals if lo <= v <= hi}
    for _ in range(extra):
        vals.add(rng.randint(lo, hi))
    return sorted(vals)


def check_basetype_grid(run: common.Run, drv: common.Driver, rng: random.Random, sc: R.Scratch, be: bool,
                        flags: Tuple[str, ...], fraction: float, pid: str) -> None:
    """BpEndecodeBaseType / BpEndecodeInt through ctypes for every (kind, offset) x basis values:
    encode onto a zeroed wire, decode into a zeroed cell; big-endian build gets byte-reversed cells."""
    lib = C.runtime_lib(sc, flags + (("-DBP_BIG_ENDIAN",) if be else ()))
    base = lib.BpEndecodeBaseType
    base.argtypes = [ctypes.c_int, ctypes.POINTER(C.ProcCtx), ctypes.c_void_p]
    base.restype = None
    fint = lib.BpEndecodeInt
    fint.argtypes = [ctypes.c_int, ctypes.c_int, ctypes.POINTER(C.ProcCtx), ctypes.c_void_p]
    fint.restype = None
    for (kname, n, signed) in kind_list():
        size = storage_size(n)
        for off in range(8):
            if rng.random() > fraction:
                continue
            for x in basis_values(n, signed, rng):
                run.evaluated()
                run.nontrivial((pid, "base", be, kname, n, off))
                run.count(f"basetype:{'be' if be else 'le'}:{kname}")
                pat = x & ((1 << (8 * size)) - 1)
                cell = pat.to_bytes(size, "big" if be else "little")
                wlen = (off + n + 7) // 8
                # encode
                cb, cp = _buf(cell)
                wb, wp = _buf(bytes(wlen))
                ctx = C.ProcCtx(True, off, wp)
                if signed:
                    fint(size, n, ctypes.byref(ctx), cp)
                else:
                    base(n, ctypes.byref(ctx), cp)
                wire, wok = _unbuf(wb, wlen)
                exp_wire = (((x & ((1 << n) - 1)) << off)).to_bytes(wlen, "little")
                rep = {"input": {"call": "BpEndecodeInt" if signed else "BpEndecodeBaseType", "be_build": be, "nbits": n,
                                 "bit_offset": off, "value": x, "cell": cell.hex()}}
                if wire != exp_wire or not wok or ctx.i != off + n:
                    run.violation(dict(rep, kind="impl-vs-spec", observed_impl={"wire": wire.hex(), "guards": wok, "i": ctx.i},
                                       expected_by_spec={"wire": exp_wire.hex(), "i": off + n}))
                    continue
                # decode into a zeroed cell
                cb2, cp2 = _buf(bytes(size))
                wb2, wp2 = _buf(exp_wire)
                ctx2 = C.ProcCtx(False, off, wp2)
                if be and signed and n not in (8, 16, 32, 64):
                    # BpHandleIntSignAfterEndecode reads a native integer: on this little-endian host the
                    # reversed cell cannot be sign-fixed natively (emulation artefact, DESIGN.md C06):
                    # copy with the big-endian build, fix the sign on the integer the cell holds
                    base(n, ctypes.byref(ctx2), cp2)
                    got, cok = _unbuf(cb2, size)
                    u = int.from_bytes(got, "big")
                    if (u >> (n - 1)) & 1:
                        u |= ((1 << (8 * size)) - (1 << n))
                    got = u.to_bytes(size, "big")
                elif signed:
                    fint(size, n, ctypes.byref(ctx2), cp2)
                    got, cok = _unbuf(cb2, size)
                else:
                    base(n, ctypes.byref(ctx2), cp2)
                    got, cok = _unbuf(cb2, size)
                if got != cell or not cok:
                    run.violation(dict(rep, kind="impl-vs-spec", observed_impl={"cell_after_decode": got.hex(), "guards": cok},
                                       expected_by_spec={"cell_after_decode": cell.hex()}))


# ===================================================================== compiled schemas
def traditional_opts() -> G.GenOpts:
    o = G.GenOpts()
    o.allow_ext = False
    o.twin_scopes = 0.4  # same simple name, other scope, other width: the code generators look types up by name in places
    o.shared_nested_names = 0.3
    return o


def schema_has_nonstd_signed(t) -> bool:
    if isinstance(t, G.TInt):
        return t.n not in (8, 16, 32, 64)
    if isinstance(t, G.TArray):
        return schema_has_nonstd_signed(t.elem)
    if isinstance(t, G.TRef):
        d = t.d
        if isinstance(d, G.AliasDef):
            return schema_has_nonstd_signed(d.type)
        if isinstance(d, G.MsgDef):
            return any(schema_has_nonstd_signed(f.type) for f in d.fields)
    return False


def overdrive(rng: random.Random, t, v):
    """replace integer leaves by arbitrary 64-bit patterns (C07)"""
    if isinstance(t, (G.TUint, G.TInt)):
        return rng.choice([rng.getrandbits(64), -rng.getrandbits(63) - 1, (1 << t.n), -1, (1 << 64) - 1]) if rng.random() < 0.7 else v
    if isinstance(t, G.TArray):
        return [overdrive(rng, t.elem, x) for x in v]
    if isinstance(t, G.TRef):
        d = t.d
        if isinstance(d, G.AliasDef):
            return overdrive(rng, d.type, v)
        if isinstance(d, G.MsgDef):
            return {f.num: overdrive(rng, f.type, v[f.num]) for f in d.fields}
    return v


def storage_reduce(t, v):
    """what a C cell of the field's storage type holds after assigning v (truncation)"""
    if isinstance(t, (G.TUint, G.TInt)):
        w = 8 * storage_size(t.n)
        u = v & ((1 << w) - 1)
        if isinstance(t, G.TInt) and (u >> (w - 1)) & 1:
            u -= 1 << w
        return u
    if isinstance(t, G.TArray):
        return [storage_reduce(t.elem, x) for x in v]
    if isinstance(t, G.TRef):
        d = t.d
        if isinstance(d, G.AliasDef):
            return storage_reduce(d.type, v)
        if isinstance(d, G.MsgDef):
            return {f.num: storage_reduce(f.type, v[f.num]) for f in d.fields}
    return v


def check_compiled(run: common.Run, drv: common.Driver, rng: random.Random, sc: R.Scratch, n_schemas: int, n_values: int,
                   configs: List[Dict[str, Any]], pid: str, opts: Optional[G.GenOpts] = None, overdriven: bool = False,
                   prefill_dirty: bool = False) -> None:
    """generated C (standard mode) built per config; Encode/Decode vs spec.* and the CRt model"""
    for k in range(n_schemas):
        g = G.SchemaGen(rng, opts or G.GenOpts(enum_zero_first=False))
        s = g.schema()
        text = G.schema_text(s, rng)
        base = f"{pid.lower()}s{k}_{rng.randrange(1 << 30)}"
        mods = []
        try:
            for cfg in configs:
                mods.append((cfg, C.CModule(sc, s, text, base, cflags=cfg.get("cflags", ("-O2",)), single_tu=cfg.get("single_tu", False),
                                            rt_flags=cfg.get("rt_flags"))))
        except Exception as e:
            run.violation({"kind": "compile-failed", "input": {"files": {"main.bitproto": text}},
                           "observed_impl": f"{type(e).__name__}: {str(e)[:800]}",
                           "expected_by_spec": "generated C for a valid schema compiles"})
            continue
        jobs = []
        for m in s.messages():
            for _ in range(n_values):
                v = G.rand_msg_value(rng, m)
                if overdriven:
                    v = overdrive(rng, G.TRef(m), v)
                jobs.append((m, v))
        reqs = []
        for (m, v) in jobs:
            ty = G.msg_ty_json(m)
            val = G.msg_val_json(m, v)
            reqs.append({"op": "spec.encode", "ty": ty, "val": val})
            reqs.append({"op": "c.encode", "be": False, "ty": ty, "val": val})
        ans = drv.batch(reqs)
        reqs2 = []
        for j, (m, v) in enumerate(jobs):
            reqs2.append({"op": "c.decode", "be": False, "ty": G.msg_ty_json(m), "bytes": ans[2 * j].get("ok", "")})
        ans2 = drv.batch(reqs2)
        for j, (m, v) in enumerate(jobs):
            spec, model, mdec = ans[2 * j], ans[2 * j + 1], ans2[j]
            for (cfg, mod) in mods:
                run.evaluated()
                for t in shape_key(m):
                    run.nontrivial((pid, cfg.get("name", ""), t))
                run.count(f"config:{cfg.get('name', '')}")
                rep = {"input": {"files": {"main.bitproto": text}, "message": G.c_name(m), "ty": G.msg_ty_json(m),
                                 "val": G.msg_val_json(m, v), "config": cfg.get("name", "")}}
                if j < 1 and cfg is configs[0]:
                    run.sample({"request": reqs[2 * j + 1], "spec": spec, "model": model}, limit=2)
                try:
                    got, sok, bok = mod.encode(m, v)
                except Exception as e:
                    run.violation(dict(rep, kind="impl-vs-spec", observed_impl=f"{type(e).__name__}: {e}"))
                    continue
                if "ok" not in spec or got.hex() != spec["ok"] or not sok or not bok:
                    run.violation(dict(rep, kind="impl-vs-spec", expected_by_spec=spec, model_answer=model,
                                       observed_impl={"bytes": got.hex(), "struct_guards_intact": sok, "buffer_guards_intact": bok}))
                    continue
                if model.get("ok") != got.hex():
                    run.notes.setdefault("model_disagreements", []).append(dict(rep, observed_impl=got.hex(), model_answer=model))
                # decode the specified bytes into a zeroed struct
                dv, dok = mod.decode(m, bytes.fromhex(spec["ok"]))
                exp = storage_reduce(G.TRef(m), v) if overdriven else v
                if overdriven:
                    # overdriven cells: decode returns the value reduced to its width (sign-extended)
                    exp = None
                if not dok or (exp is not None and dv != exp):
                    run.violation(dict(rep, kind="impl-vs-spec", expected_by_spec={"decode": exp},
                                       observed_impl={"decode": dv, "struct_guards_intact_and_no_read_beyond_the_buffer": dok,
                                                      "decode_rc": {0: "ok", 1: "guard zone around the struct damaged",
                                                                    2: "fault: the decoder touched memory beyond the message's bytes"}.get(
                                                                        getattr(mod, "last_decode_rc", 0), "?")}, model_answer=mdec))
                    continue
                if exp is not None and ("ok" not in mdec or G.msg_val_from_json(m, mdec["ok"]) != dv):
                    run.notes.setdefault("model_disagreements", []).append(dict(rep, observed_impl=dv, model_answer=mdec))
        del mods


# ===================================================================== size constants (C07)
def size_constants(text_h: str, text_go: str, text_py: str) -> Dict[str, Dict[str, int]]:
    out: Dict[str, Dict[str, int]] = {"c": {}, "go": {}, "py": {}}
    for m in re.finditer(r"#define\s+(BYTES_LENGTH_\w+)\s+(\d+)", text_h):
        out["c"][m.group(1)] = int(m.group(2))
    for m in re.finditer(r"(BYTES_LENGTH_\w+)\s+\w+\s*=\s*(\d+)", text_go):
        out["go"][m.group(1)] = int(m.group(2))
    cur = None
    for line in text_py.splitlines():
        mm = re.match(r"class (\w+)\(bp\.MessageBase\)", line)
        if mm:
            cur = mm.group(1)
        mm = re.match(r"\s+BYTES_LENGTH: ClassVar\[int\] = (\d+)", line)
        if mm and cur:
            out["py"][cur] = int(mm.group(1))
    return out


def upper_snake(name: str) -> str:
    return re.sub(r"(?<!^)(?=[A-Z])", "_", name).upper()


def check_size_constants(run: common.Run, drv: common.Driver, rng: random.Random, sc: R.Scratch, n_schemas: int) -> None:
    for k in range(n_schemas):
        g = G.SchemaGen(rng)
        s = g.schema()
        text = G.schema_text(s, rng)
        path = sc.write(f"sz{k}.bitproto", text)
        try:
            proto = R.parse_file(path)
            h = R.render_strings(proto, "c")[".h"]
            go = R.render_strings(proto, "go")[".go"]
            py = R.render_strings(proto, "py")[".py"]
        except Exception as e:
            run.violation({"kind": "compile-failed", "input": {"files": {"main.bitproto": text}}, "observed_impl": f"{type(e).__name__}: {e}"})
            continue
        sc_ = size_constants(h, go, py)
        ans = drv.batch([{"op": "spec.nbits", "ty": G.msg_ty_json(m)} for m in s.messages()])
        for m, a in zip(s.messages(), ans):
            run.evaluated()
            nb = (a["ok"] + 7) // 8
            run.nontrivial(("size", a["ok"]))
            got = {"c": sc_["c"].get("BYTES_LENGTH_" + upper_snake(G.c_name(m))), "go": None, "py": sc_["py"].get(G.py_name(m))}
            # Go: nested messages are concatenated for the constant name like C
            got["go"] = sc_["go"].get("BYTES_LENGTH_" + upper_snake(G.c_name(m)))
            if got["c"] != nb or got["py"] != nb or got["go"] != nb or a["ok"] != G.msg_nbits(m):
                run.violation({"kind": "impl-vs-spec", "input": {"files": {"main.bitproto": text}, "message": G.c_name(m)},
                               "observed_impl": got, "expected_by_spec": {"nbits": a["ok"], "nbytes": nb},
                               "all_constants": sc_})


# ===================================================================== Python side of C07 / C14
def check_py_overdrive(run: common.Run, drv: common.Driver, rng: random.Random, n_schemas: int, n_values: int) -> None:
    with R.Scratch() as sc:
        jobs = []
        for k in range(n_schemas):
            g = G.SchemaGen(rng, G.GenOpts())
            s = g.schema()
            text = G.schema_text(s, rng)
            path = sc.write(f"od{k}.bitproto", text)
            try:
                proto = R.parse_file(path)
                mod = R.load_py_module(R.render_strings(proto, "py")[".py"], f"od{k}")
            except Exception as e:
                run.violation({"kind": "compile-failed", "input": {"files": {"main.bitproto": text}}, "observed_impl": f"{type(e).__name__}: {e}"})
                continue
            for m in s.messages():
                for _ in range(n_values):
                    v = overdrive(rng, G.TRef(m), G.rand_msg_value(rng, m))
                    try:
                        got = ("ok", bytes(R.py_build(mod, m, v).encode()).hex())
                    except Exception as e:
                        got = ("exc", type(e).__name__)
                    jobs.append((text, m, v, got))
            R.unload(mod)
    reqs = []
    for (text, m, v, got) in jobs:
        reqs.append({"op": "spec.encode", "ty": G.msg_ty_json(m), "val": G.msg_val_json(m, v)})
        reqs.append({"op": "py.encode", "ty": G.msg_ty_json(m), "val": G.msg_val_json(m, v)})
    ans = drv.batch(reqs)
    for j, (text, m, v, got) in enumerate(jobs):
        spec, model = ans[2 * j], ans[2 * j + 1]
        run.evaluated()
        run.count("py_overdriven_messages")
        for t in shape_key(m):
            run.nontrivial(("pyod", t))
        rep = {"input": {"files": {"main.bitproto": text}, "message": G.py_name(m), "ty": G.msg_ty_json(m), "val": G.msg_val_json(m, v)}}
        if got != ("ok", spec.get("ok")):
            run.violation(dict(rep, kind="impl-vs-spec", observed_impl=got, expected_by_spec=spec, model_answer=model,
                               note="out-of-range integer fields must change no bit outside their own field"))
        elif model.get("ok") != got[1]:
            run.notes.setdefault("model_disagreements", []).append(dict(rep, observed_impl=got, model_answer=model))


def frame_schema(kname: str, n: int) -> Tuple[G.Schema, List[Tuple[G.MsgDef, int, int]]]:
    """one file per kind: 8 offsets x 4 positions (scalar, array element, alias, array of alias)"""
    t = {"bool": G.TBool(), "byte": G.TByte()}.get(kname) or (G.TUint(n) if kname == "uint" else G.TInt(n))
    al = G.AliasDef("Al", t)
    defs: List[Any] = [al]
    msgs = []
    for off in range(8):
        for pos in range(4):
            ft = [t, G.TArray(t, 3, False), G.TRef(al), G.TArray(G.TRef(al), 2, False)][pos]
            m = G.MsgDef(f"F{chr(97 + off)}P{chr(97 + pos)}", False)  # letters only: pascal_case("F7P3") is "F7p3"
            if off:
                m.fields.append(G.Field("pad", 1, G.TUint(off)))
            m.fields.append(G.Field("x", 2, ft))
            defs.append(m)
            msgs.append((m, off, pos))
    return G.Schema(f"k{kname}{n}", defs), msgs


def frame_values(kname: str, n: int, signed: bool, rng: random.Random):
    if kname in ("uint", "int"):
        return basis_values(n, signed, rng, extra=1)
    return [0, 1] if kname == "bool" else [0, 1, 128, 255, 0x55]


def frame_value(pos: int, off: int, x: int, vals: List[int], rng: random.Random) -> Dict[int, Any]:
    xv = [x, [x, vals[0], vals[-1]], x, [x, x]][pos]
    v: Dict[int, Any] = {2: xv}
    if off:
        v[1] = (1 << off) - 1 if rng.random() < 0.5 else 0
    return v


def check_c14_python(run: common.Run, drv: common.Driver, rng: random.Random, fraction: float) -> None:
    with R.Scratch() as sc:
        for (kname, n, signed) in kind_list():
            if rng.random() > fraction:
                continue
            s, msgs = frame_schema(kname, n)
            text = G.schema_text(s)
            path = sc.write(f"{s.proto}.bitproto", text)
            try:
                proto = R.parse_file(path)
                mod = R.load_py_module(R.render_strings(proto, "py")[".py"], s.proto)
            except Exception as e:
                run.violation({"kind": "compile-failed", "input": {"files": {"main.bitproto": text}}, "observed_impl": f"{type(e).__name__}: {e}"})
                continue
            jobs = []
            vals = frame_values(kname, n, signed, rng)
            for (m, off, pos) in msgs:
                for x in vals:
                    v = frame_value(pos, off, x, vals, rng)
                    try:
                        b = bytes(R.py_build(mod, m, v).encode())
                        o = getattr(mod, G.py_name(m))()
                        o.decode(bytearray(b))
                        got = ("ok", b.hex(), R.py_read(m, o))
                    except Exception as e:
                        got = ("exc", type(e).__name__, None)
                    jobs.append((m, off, pos, v, got))
            ans = drv.batch([{"op": "spec.encode", "ty": G.msg_ty_json(m), "val": G.msg_val_json(m, v)} for (m, off, pos, v, got) in jobs])
            for (m, off, pos, v, got), a in zip(jobs, ans):
                run.evaluated()
                run.nontrivial(("c14py", kname, n, off, pos))
                run.count(f"py_frames:{kname}")
                if got[0] != "ok" or got[1] != a.get("ok") or got[2] != v:
                    run.violation({"kind": "impl-vs-spec", "input": {"files": {"main.bitproto": text}, "message": m.name,
                                                                      "ty": G.msg_ty_json(m), "val": G.msg_val_json(m, v)},
                                   "observed_impl": got, "expected_by_spec": {"bytes": a, "decode": v}})
            R.unload(mod)


# ===================================================================== direct BpEndecodeArray calls
class BpType(ctypes.Structure):
    _fields_ = [("flag", ctypes.c_int), ("nbits", ctypes.c_int), ("size", ctypes.c_int),
                ("processor", ctypes.c_void_p), ("json_formatter", ctypes.c_void_p), ("to_flag", ctypes.c_int)]


class BpArrayDescriptor(ctypes.Structure):
    _fields_ = [("extensible", ctypes.c_bool), ("cap", ctypes.c_int), ("element_type", BpType)]


FLAGS = {"bool": 1, "int": 2, "uint": 3, "byte": 4, "enum": 5}


def check_array_grid(run: common.Run, drv: common.Driver, rng: random.Random, sc: R.Scratch, be: bool,
                     flags: Tuple[str, ...], fraction: float, pid: str) -> None:
    """BpEndecodeArray through ctypes with hand-built descriptors: arrays of every scalar kind at
    every bit offset (the little-endian batch path for 8/16/32/64-bit integer elements, the
    per-element loop otherwise and always on the big-endian build)."""
    lib = C.runtime_lib(sc, flags + (("-DBP_BIG_ENDIAN",) if be else ()))
    fn = lib.BpEndecodeArray
    fn.argtypes = [ctypes.POINTER(BpArrayDescriptor), ctypes.POINTER(C.ProcCtx), ctypes.c_void_p]
    fn.restype = None
    kinds = kind_list() + [("enum", n, False) for n in (3, 8, 16, 24, 32, 64)]
    for (kname, n, signed) in kinds:
        size = storage_size(n)
        for off in range(8):
            if rng.random() > fraction:
                continue
            for cap in (1, 2, 3, 5, 8, 9):
                for ext in ((False,) if be else (False, True)):
                    run.evaluated()
                    run.nontrivial((pid, "arr", be, kname, n, off, cap, ext))
                    run.count(f"array:{'be' if be else 'le'}:{'batch' if (not be and n in (8, 16, 32, 64) and kname != 'bool') else 'loop'}")
                    rnd = [rng.choice(basis_values(n, signed, rng, 1)) if kname != "bool" else rng.randint(0, 1) for _ in range(cap)]
                    top = 1 if kname == "bool" else ((1 << n) - 1 if not signed else -(1 << (n - 1)))
                    # besides random cells: everything zero but the LAST element (a decoder that looks at the first bytes only
                    # and skips the rest would pass with uniformly filled arrays), and everything zero but the first
                    patterns = [rnd] + ([[0] * (cap - 1) + [top], [top] + [0] * (cap - 1)] if cap > 1 else [])
                    for vals in patterns:
                        cells = b"".join((x & ((1 << (8 * size)) - 1)).to_bytes(size, "big" if be else "little") for x in vals)
                        desc = BpArrayDescriptor(ext, cap, BpType(FLAGS[kname], n, size, None, None, 0))
                        nb = (16 if ext else 0) + cap * n
                        wlen = (off + nb + 7) // 8
                        cb, cp = _buf(cells)
                        wb, wp = _buf(bytes(wlen))
                        ctx = C.ProcCtx(True, off, wp)
                        fn(ctypes.byref(desc), ctypes.byref(ctx), cp)
                        wire, wok = _unbuf(wb, wlen)
                        W = 0
                        pos = off
                        if ext:
                            W |= cap << pos
                            pos += 16
                        for x in vals:
                            W |= (x & ((1 << n) - 1)) << pos
                            pos += n
                        exp = W.to_bytes(wlen, "little")
                        rep = {"input": {"call": "BpEndecodeArray", "be_build": be, "kind": kname, "nbits": n, "size": size, "cap": cap,
                                         "extensible": ext, "bit_offset": off, "values": vals}}
                        if wire != exp or not wok or ctx.i != off + nb:
                            run.violation(dict(rep, kind="impl-vs-spec", observed_impl={"wire": wire.hex(), "guards": wok, "i": ctx.i},
                                               expected_by_spec={"wire": exp.hex(), "i": off + nb}))
                            continue
                        if be and signed and n not in (8, 16, 32, 64):
                            continue  # sign fix-up reads native integers: not emulable on this host (DESIGN.md C06)
                        cb2, cp2 = _buf(bytes(len(cells)))
                        wb2, wp2 = _buf(exp)
                        ctx2 = C.ProcCtx(False, off, wp2)
                        fn(ctypes.byref(desc), ctypes.byref(ctx2), cp2)
                        got, cok = _unbuf(cb2, len(cells))
                        if got != cells or not cok or ctx2.i != off + nb:
                            run.violation(dict(rep, kind="impl-vs-spec", observed_impl={"cells_after_decode": got.hex(), "guards": cok, "i": ctx2.i},
                                               expected_by_spec={"cells_after_decode": cells.hex(), "i": off + nb}))


# ===================================================================== big-endian detection (C06_detect)
DETECT_BUILDS = [
    # (name, extra compiler flags, expected: behaves as the big-endian build)
    ("none", (), False),
    ("BP_BIG_ENDIAN", ("-DBP_BIG_ENDIAN",), True),
    ("__BYTE_ORDER__", ("-U__BYTE_ORDER__", "-D__BYTE_ORDER__=__ORDER_BIG_ENDIAN__"), True),
    ("__ARM_BIG_ENDIAN", ("-D__ARM_BIG_ENDIAN",), True),
    ("__big_endian__", ("-D__big_endian__",), True),
    ("__BIG_ENDIAN__", ("-D__BIG_ENDIAN__",), True),
    ("__LITTLE_ENDIAN__=0", ("-D__LITTLE_ENDIAN__=0",), True),
    ("__LITTLE_ENDIAN__=1", ("-D__LITTLE_ENDIAN__=1",), False),
    # a unity build / precompiled prefix header: libc headers (and with them <endian.h>, whose __BIG_ENDIAN / __LITTLE_ENDIAN /
    # BIG_ENDIAN are byte-order CONSTANTS defined on every host) are seen before the runtime's detection block
    ("libc-headers-first", ("-include", "stdlib.h", "-include", "sys/types.h", "-include", "endian.h"), False),
]


def check_detection(run: common.Run, drv: common.Driver, rng: random.Random, sc: R.Scratch, flags: Tuple[str, ...]) -> None:
    """every documented way of telling the runtime that the host is big-endian must select ALL big-endian paths:
    the runtime is built with each macro in turn and probed through BpEndecodeBaseType and BpEndecodeArray (the
    batch-copy path) on big-endian laid-out cells; the wire must be the little-endian one.  A build that is NOT
    told so must behave as the little-endian build (same probe on little-endian cells)."""
    for (name, extra, want_be) in DETECT_BUILDS:
        try:
            lib = C.runtime_lib(sc, flags + extra)
        except Exception as e:  # a macro combination the sources reject (#error) is not this probe's subject
            run.count(f"detect:{name}:build-refused")
            run.notes.setdefault("detect_build_refused", []).append(f"{name}: {str(e)[-200:]}")
            continue
        fa = lib.BpEndecodeArray
        fa.argtypes = [ctypes.POINTER(BpArrayDescriptor), ctypes.POINTER(C.ProcCtx), ctypes.c_void_p]
        fa.restype = None
        fb = lib.BpEndecodeBaseType
        fb.argtypes = [ctypes.c_int, ctypes.POINTER(C.ProcCtx), ctypes.c_void_p]
        fb.restype = None
        for (n, size) in ((16, 2), (32, 4), (64, 8), (8, 1)):
            for cap in (2, 3):
                vals = [rng.randrange(1, 1 << n) | (0x12 << (n - 8)) for _ in range(cap)]
                order = "big" if want_be else "little"
                cells = b"".join(v.to_bytes(size, order) for v in vals)
                exp = b"".join(v.to_bytes(size, "little") for v in vals)
                run.evaluated()
                run.nontrivial(("C06", "detect", name, n, cap))
                run.count(f"detect:{name}")
                # array (batch path on a little-endian build, element loop on a big-endian one)
                desc = BpArrayDescriptor(False, cap, BpType(FLAGS["uint"], n, size, None, None, 0))
                cb, cp = _buf(cells)
                wb, wp = _buf(bytes(len(exp)))
                ctx = C.ProcCtx(True, 0, wp)
                fa(ctypes.byref(desc), ctypes.byref(ctx), cp)
                wire, ok = _unbuf(wb, len(exp))
                rep = {"input": {"build_macro": name, "flags": list(flags + extra), "call": "BpEndecodeArray", "nbits": n, "cap": cap,
                                 "values": vals, "cells_layout": order}}
                if wire != exp or not ok:
                    run.violation(dict(rep, kind="impl-vs-spec", observed_impl={"wire": wire.hex(), "guards": ok},
                                       expected_by_spec={"wire": exp.hex(), "note": f"build must behave as the {'big' if want_be else 'little'}-endian build"}))
                    continue
                # decode back
                cb2, cp2 = _buf(bytes(len(cells)))
                wb2, wp2 = _buf(exp)
                ctx2 = C.ProcCtx(False, 0, wp2)
                fa(ctypes.byref(desc), ctypes.byref(ctx2), cp2)
                got, ok2 = _unbuf(cb2, len(cells))
                if got != cells or not ok2:
                    run.violation(dict(rep, kind="impl-vs-spec", observed_impl={"cells_after_decode": got.hex(), "guards": ok2},
                                       expected_by_spec={"cells_after_decode": cells.hex()}))
                    continue
                # single base type
                cb3, cp3 = _buf(cells[:size])
                wb3, wp3 = _buf(bytes(size))
                ctx3 = C.ProcCtx(True, 0, wp3)
                fb(n, ctypes.byref(ctx3), cp3)
                w3, ok3 = _unbuf(wb3, size)
                if w3 != exp[:size] or not ok3:
                    run.violation(dict(rep, call="BpEndecodeBaseType", kind="impl-vs-spec", observed_impl={"wire": w3.hex(), "guards": ok3},
                                       expected_by_spec={"wire": exp[:size].hex()}))
