"""C16 - JSON output is valid JSON that states the message's values: failing-input search.

What is compared with what
--------------------------
For every generated program (abstract schema built here or by tools/gen.py, printed by gen's own
printer, compiled by the REAL compiler from the working tree) and every in-range value:

  expected   an ordered JSON value computed from the ABSTRACT schema and the value only
             (`expected_msg`): object keyed by the field names in field-number order, bool ->
             true/false, byte/uint/int/enum -> number (negative when the signed value is), arrays
             (byte arrays too) -> lists, messages -> objects.  Nothing of bitproto is used for it.
  python     `to_json()` text (default, and with indent / separators) parsed by `json.loads` with an
             `object_pairs_hook` (key ORDER and duplicate keys are visible) and `to_dict()` (dict
             insertion order, bytearray read as a list of numbers, IntEnum read as its number), for
             (a) a message whose fields were assigned, (b) the message obtained by decoding the
             encoding of (a), (c) a fresh message; for (b)/(c) the expectation is computed from the
             values the message HOLDS (read back field by field), so decoder defects (other
             properties) are not reported here.
  C          the text written by the generated `Json<Msg>()` in standard mode, produced by a small
             generated driver program (own process: a crash is an observation, not the end of the
             run).  The struct sits between guard zones, is pre-filled with 0x00 or 0xFF (padding
             and neighbouring bytes must not leak into the numbers) and every leaf is assigned; the
             same for a struct obtained by Encode+Decode.  The expectation is computed from the leaf
             values read back from the struct.  Observed: the C string, the returned length
             (`bitproto.h`: "number of bytes formatted"), the guard zones of the output buffer.
  python==C  the two parsed values for the same abstract message are compared with each other.

Comparison is on parsed JSON VALUES with strict types (true is not 1, 1.0 is not 1), never on
white space or on the wording of anything.  Programs the compiler rejects, generated C that gcc
rejects and generated Python that does not import are other properties' subjects: they are counted
and skipped - but a run in which more than half of the programs are unusable (or nothing was
evaluated) raises instead of passing.  No known finding is routed here (the former to_json /
byte-array TypeError is fixed in the tree; it would now be reported as a violation).

Inputs: structured families aimed at what the property quantifies over - every integer width
1..64 signed and unsigned as field / array element / alias (printf conversion classes, values
>= 2^31, >= 2^32, >= 2^63, negative 64 bit), arrays of every element kind incl. byte arrays, 2-d
arrays through aliases, arrays of (empty) messages, long field names, up to 255 field numbers
declared out of order, nesting depth up to 8, enums of every width class declared at top level /
inside messages, messages WITHOUT enum fields containing messages WITH enum fields (directly, in
arrays, two levels down, across an import), several live instances of one class, `c.name_prefix`,
imports with and without `as`, plus random schemas of tools/gen.py.
"""
from __future__ import annotations

import concurrent.futures as cf
import json
import os
import random
import subprocess
import sys
import time
from typing import Any, Callable, Dict, List, Optional, Tuple

from . import common
from . import creal as C
from . import gen as G
from . import real as R

GUARD = 64


# ===================================================================== oracle (independent of bitproto)
class Obj:
    """ordered JSON object: list of (key, value) pairs"""

    __slots__ = ("pairs",)

    def __init__(self, pairs) -> None:
        self.pairs = list(pairs)

    def __repr__(self) -> str:
        return "Obj(%r)" % (self.pairs,)


class Bad:
    """something that is not a JSON value of the kinds the property allows"""

    def __init__(self, what: str) -> None:
        self.what = what

    def __repr__(self) -> str:
        return "Bad(%s)" % self.what


def expected_value(t, v) -> Any:
    if isinstance(t, G.TBool):
        return bool(v)
    if isinstance(t, (G.TByte, G.TUint, G.TInt)):
        return int(v)
    if isinstance(t, G.TArray):
        return [expected_value(t.elem, x) for x in v]
    if isinstance(t, G.TRef):
        d = t.d
        if isinstance(d, G.EnumDef):
            return int(v)
        if isinstance(d, G.AliasDef):
            return expected_value(d.type, v)
        if isinstance(d, G.MsgDef):
            return expected_msg(d, v)
    raise TypeError(t)


def expected_msg(m: G.MsgDef, v: Dict[int, Any]) -> Obj:
    return Obj((f.name, expected_value(f.type, v[f.num])) for f in sorted(m.fields, key=lambda f: f.num))


def _no_constant(name: str):
    raise ValueError("non-JSON constant " + name)


def parse_json_text(text: str) -> Tuple[Optional[Any], Optional[str]]:
    """(value, None) or (None, reason).  RFC 8259 reader of the standard library; NaN/Infinity
    rejected; objects keep their pair order; trailing garbage is an error."""
    try:
        return json.loads(text, object_pairs_hook=Obj, parse_constant=_no_constant), None
    except (ValueError, RecursionError) as e:
        return None, "%s: %s" % (type(e).__name__, e)


def from_python(x) -> Any:
    """`to_dict()` result as an ordered JSON value; bytearray -> list of numbers (that is how a
    byte array is held), int subclasses (IntEnum) -> their number"""
    if isinstance(x, dict):
        return Obj((k, from_python(v)) for k, v in x.items())
    if isinstance(x, (bytes, bytearray)):
        return [int(b) for b in x]
    if isinstance(x, (list, tuple)):
        return [from_python(e) for e in x]
    if isinstance(x, bool):
        return x
    if isinstance(x, int):
        return int(x)
    return Bad(type(x).__name__)


def diff(exp, got, path: str = "$") -> Optional[str]:
    """first difference between two ordered JSON values, None if equal (types are strict)"""
    if isinstance(exp, Obj):
        if not isinstance(got, Obj):
            return f"{path}: expected an object, got {_short(got)}"
        ek = [k for k, _ in exp.pairs]
        gk = [k for k, _ in got.pairs]
        if ek != gk:
            return f"{path}: expected keys {ek}, got keys {gk}"
        for (k, a), (_, b) in zip(exp.pairs, got.pairs):
            d = diff(a, b, f"{path}.{k}")
            if d:
                return d
        return None
    if isinstance(exp, list):
        if type(got) is not list:
            return f"{path}: expected a list, got {_short(got)}"
        if len(exp) != len(got):
            return f"{path}: expected {len(exp)} elements, got {len(got)}"
        for k, (a, b) in enumerate(zip(exp, got)):
            d = diff(a, b, f"{path}[{k}]")
            if d:
                return d
        return None
    if isinstance(exp, bool):
        if type(got) is not bool or got != exp:
            return f"{path}: expected {json.dumps(exp)}, got {_short(got)}"
        return None
    if isinstance(exp, int):
        if type(got) is not int or got != exp:
            return f"{path}: expected {exp}, got {_short(got)}"
        return None
    return f"{path}: unexpected expectation {exp!r}"


def _short(x) -> str:
    if isinstance(x, Obj):
        return "object"
    if type(x) is list:
        return "list"
    if type(x) is bool:
        return json.dumps(x)
    return repr(x)[:60]


def dump(x) -> str:
    """compact JSON text of an ordered value (for replays)"""
    if isinstance(x, Obj):
        return "{" + ",".join(json.dumps(k) + ":" + dump(v) for k, v in x.pairs) + "}"
    if type(x) is list:
        return "[" + ",".join(dump(e) for e in x) + "]"
    if isinstance(x, Bad):
        return "<" + x.what + ">"
    return json.dumps(x)


def clip(s: str, n: int = 4000) -> str:
    return s if len(s) <= n else s[:n] + f"...(+{len(s) - n} chars)"


# ===================================================================== values
def walk_value(t, leaf: Callable[[Any], int]) -> Any:
    if isinstance(t, G.TArray):
        return [walk_value(t.elem, leaf) for _ in range(t.cap)]
    if isinstance(t, G.TRef):
        d = t.d
        if isinstance(d, G.AliasDef):
            return walk_value(d.type, leaf)
        if isinstance(d, G.MsgDef):
            return {f.num: walk_value(f.type, leaf) for f in d.fields}
    return leaf(t)


def leaf_range(t) -> Tuple[int, int]:
    if isinstance(t, G.TBool):
        return 0, 1
    if isinstance(t, G.TByte):
        return 0, 255
    if isinstance(t, G.TUint):
        return 0, (1 << t.n) - 1
    if isinstance(t, G.TInt):
        return -(1 << (t.n - 1)), (1 << (t.n - 1)) - 1
    raise TypeError(t)


def is_enum(t) -> bool:
    return isinstance(t, G.TRef) and isinstance(t.d, G.EnumDef)


EDGES = [(1 << 7) - 1, 1 << 7, (1 << 8) - 1, 1 << 8, (1 << 15) - 1, 1 << 15, (1 << 16) - 1, 1 << 16, (1 << 31) - 1, 1 << 31,
         (1 << 32) - 1, 1 << 32, (1 << 53) + 1, (1 << 63) - 1, 1 << 63, (1 << 64) - 1]


def pattern_value(m: G.MsgDef, kind: str, rng: random.Random) -> Dict[int, Any]:
    """one value of message m; `kind` picks what every leaf holds"""
    k = [0]

    def leaf(t):
        k[0] += 1
        if is_enum(t):
            vals = [v for _, v in t.d.members]
            if kind == "min":
                return min(vals)
            if kind in ("max", "neg1"):
                return max(vals)
            if kind == "alt":
                return max(vals) if k[0] % 2 else min(vals)
            if kind == "alt2":
                return min(vals) if k[0] % 2 else max(vals)
            if kind == "rot":
                return vals[k[0] % len(vals)]
            return rng.choice(vals)
        lo, hi = leaf_range(t)
        if kind == "min":
            return lo
        if kind == "max":
            return hi
        if kind == "neg1":
            return -1 if lo < 0 else hi
        if kind == "alt":
            return hi if k[0] % 2 else lo
        if kind == "alt2":
            return lo if k[0] % 2 else hi
        if kind in ("edge", "rot"):
            c = rng.choice(EDGES)
            if lo < 0 and rng.random() < 0.6:
                c = -c - rng.choice([0, 1])
            if lo <= c <= hi:
                return c
            return rng.choice([lo, hi, lo + 1 if lo + 1 <= hi else lo, hi - 1 if hi - 1 >= lo else hi])
        if kind == "small":
            return max(lo, min(hi, rng.randint(-3, 3)))
        return G.rand_scalar(rng, lo, hi)

    return walk_value(G.TRef(m), leaf)


PATTERNS_QUICK = ["min", "max", "neg1", "alt", "alt2", "edge", "rand", "rot"]


# ===================================================================== what a case exercises (for the evidence)
def wclass(n: int) -> str:
    return "8" if n <= 8 else "16" if n <= 16 else "32" if n <= 32 else "64"


class Shape:
    """structural features of a message type (computed once per message)"""

    def __init__(self, m: G.MsgDef) -> None:
        self.feats: set = set()
        self.widths: set = set()
        self.depth = 0
        self.maxname = 0
        self.namelens: set = set()
        self.nkeys = 0
        self._msg(m, 1, False, True)

    def _msg(self, m: G.MsgDef, depth: int, in_array: bool, top: bool) -> bool:
        """returns True if m (transitively) has an enum leaf"""
        self.depth = max(self.depth, depth)
        own_enum = any(is_enum(f.type) for f in m.fields)
        sub_enum = False
        if not m.fields:
            self.feats.add("empty-msg" if not top else "empty-top")
        if m.ext:
            self.feats.add("ext-msg")
        nums = [f.num for f in m.fields]
        if nums != sorted(nums):
            self.feats.add("declared-out-of-number-order")
        if len(m.fields) == 1:
            self.feats.add("single-field-msg")
        if len(m.fields) >= 128:
            self.feats.add("keys>=128")
        if sum(1 for f in m.fields if is_enum(f.type)) >= 2:
            self.feats.add("two-enum-fields-in-one-msg")
        if in_array and not m.fields:
            self.feats.add("empty-msg-in-array")
        by_num = sorted(m.fields, key=lambda f: f.num)
        for k, f in enumerate(by_num):
            if isinstance(f.type, G.TRef) and isinstance(f.type.d, G.MsgDef) and len(by_num) > 1:
                self.feats.add("nested-msg-" + ("first" if k == 0 else "last" if k == len(by_num) - 1 else "middle") + "-by-number")
        for f in m.fields:
            self.nkeys += 1
            self.maxname = max(self.maxname, len(f.name))
            self.namelens.add(len(f.name))
            if self._type(f.type, depth, False, "field"):
                sub_enum = True
        if sub_enum and not own_enum:
            self.feats.add("enumless-msg-containing-enum-msg")
        if own_enum:
            self.feats.add("enum-field-nested" if not top else "enum-field-top")
        return own_enum or sub_enum

    def _type(self, t, depth: int, in_array: bool, pos: str) -> bool:
        """records features; returns True if a MESSAGE below holds an enum scalar field"""
        if isinstance(t, G.TBool):
            self.feats.add(f"bool@{pos}")
        elif isinstance(t, G.TByte):
            self.feats.add(f"byte@{pos}")
        elif isinstance(t, G.TUint):
            self.feats.add(f"u{wclass(t.n)}@{pos}")
            self.widths.add(("uint", t.n, pos))
        elif isinstance(t, G.TInt):
            self.feats.add(f"i{wclass(t.n)}@{pos}")
            self.widths.add(("int", t.n, pos))
        elif isinstance(t, G.TArray):
            if t.ext:
                self.feats.add("ext-array")
            if in_array:
                self.feats.add("array-2d")
            if t.cap >= 200:
                self.feats.add("big-array")
            if t.cap >= 9000:
                self.feats.add("huge-array")
            if isinstance(t.elem, G.TByte):
                self.feats.add("byte-array")
                if depth > 1:
                    self.feats.add("byte-array-in-nested-msg")
                if in_array:
                    self.feats.add("byte-array-2d")
            return self._type(t.elem, depth, True, "elem" if pos != "alias" else "alias-elem")
        elif isinstance(t, G.TRef):
            d = t.d
            if isinstance(d, G.EnumDef):
                self.feats.add(f"enum{wclass(d.nbits)}@{pos}")
                self.widths.add(("enum", d.nbits, pos))
                if d.parent is not None:
                    self.feats.add("enum-declared-in-msg")
                if getattr(d, "home", None) is not None and getattr(d, "imported", False):
                    self.feats.add("imported-enum")
            elif isinstance(d, G.AliasDef):
                self.feats.add("alias-array" if isinstance(d.type, G.TArray) else "alias-scalar")
                if in_array:
                    self.feats.add("array-of-alias")
                return self._type(d.type, depth, in_array, "alias" if not in_array else "alias-elem")
            elif isinstance(d, G.MsgDef):
                if in_array:
                    self.feats.add("array-of-msg")
                if getattr(d, "imported", False):
                    self.feats.add("imported-msg")
                return self._msg(d, depth + 1, in_array, False)
        return False


def value_flags(m: G.MsgDef, v) -> set:
    out: set = set()

    def w(t, x):
        if isinstance(t, G.TArray):
            for e in x:
                w(t.elem, e)
        elif isinstance(t, G.TRef) and isinstance(t.d, G.AliasDef):
            w(t.d.type, x)
        elif isinstance(t, G.TRef) and isinstance(t.d, G.MsgDef):
            for f in t.d.fields:
                w(f.type, x[f.num])
        else:
            x = int(x)
            if x < 0:
                out.add("neg")
                if x < -(1 << 31):
                    out.add("lt-2^31")
                if x == -(1 << 63):
                    out.add("min64")
            if x >= 1 << 63:
                out.add("ge2^63")
            elif x >= 1 << 32:
                out.add("ge2^32")
            elif x >= 1 << 31:
                out.add("ge2^31")
            if is_enum(t) and x != 0:
                out.add("enum-nonzero")

    w(G.TRef(m), v)
    return out


# ===================================================================== schema families
_uid = [0]


def letters(n: int, width: int = 3) -> str:
    s = ""
    for _ in range(width):
        s = chr(97 + n % 26) + s
        n //= 26
    return s


def fresh_proto(prefix: str = "pj") -> str:
    _uid[0] += 1
    return prefix + letters(_uid[0], 4)


WORDS = ["alpha", "bravo", "speed", "level", "count", "value", "angle", "power", "state", "index", "total", "delta",
         "gamma", "omega", "pitch", "roll", "yaw", "temp", "volt", "amp", "lat", "lon", "alt", "mode", "flag", "crc",
         "seq", "ts", "x", "y", "z", "k", "id"]
SHORT_SAFE = ["a", "b", "c", "x", "y", "z", "k", "q", "ab", "xy", "zz", "aa", "foo", "bar", "baz", "abc"]


class SB:
    """builder of abstract schemas (tools/gen.py data classes) with unique, style-conforming names
    that are keywords in no target language"""

    def __init__(self, rng: random.Random) -> None:
        self.r = rng
        self.defs: List[Any] = []
        self.k = 0
        _uid[0] += 1
        self.tag = letters(_uid[0], 2).capitalize()  # varies the names between schemas of one process

    def _name(self, kind: str) -> str:
        self.k += 1
        s = letters(self.k, 2)
        return f"{kind}{self.tag}{s[0].upper()}{s[1]}"

    def _add(self, d, parent):
        if parent is None:
            self.defs.append(d)
        else:
            parent.nested.append(d)
        return d

    def enum(self, nbits: int, vals: List[int], parent: Optional[G.MsgDef] = None) -> G.EnumDef:
        name = self._name("En")
        up = "".join(("_" + c if c.isupper() and i else c) for i, c in enumerate(name)).upper()
        e = G.EnumDef(name, nbits, [(f"{up}_V{chr(65 + i)}", v) for i, v in enumerate(vals)], parent)
        return self._add(e, parent)

    def rand_enum(self, nbits: Optional[int] = None, parent: Optional[G.MsgDef] = None) -> G.EnumDef:
        r = self.r
        n = nbits or r.choice([1, 2, 3, 7, 8, 9, 15, 16, 17, 31, 32, 33, 63, 64])
        lim = 1 << n
        k = r.randint(1, min(5, lim))
        vals: List[int] = []
        pool = [lim - 1, lim // 2, 1, 0, lim - 2 if lim > 2 else 0, r.randrange(lim), r.randrange(lim), r.randrange(min(lim, 300))]
        r.shuffle(pool)
        for c in pool:
            if c not in vals and len(vals) < k:
                vals.append(c)
        if lim - 1 not in vals and r.random() < 0.6:
            vals[-1] = lim - 1  # the largest value of the width (>= 2^63 for uint64)
        if r.random() < 0.6:
            # first member 0 (python's decoder is only right for such enums: KF-py-enum-default of C02)
            if 0 in vals:
                vals.remove(0)
            elif len(vals) > 1 or lim == 1:
                vals.pop(0)
            vals.insert(0, 0)
        return self.enum(n, vals, parent)

    def alias(self, t) -> G.AliasDef:
        a = G.AliasDef(self._name("Al"), t, None)
        self.defs.append(a)
        return a

    def msg(self, parent: Optional[G.MsgDef] = None, ext: Optional[bool] = None) -> G.MsgDef:
        m = G.MsgDef(self._name("Msg"), self.r.random() < 0.3 if ext is None else ext, parent=parent)
        return self._add(m, parent)

    def fname(self, i: int, target: Optional[int], taken: set) -> str:
        """unique field name; `target` = wanted length (None: word + suffix)"""
        r = self.r
        sfx = letters(i, 2)
        if target is not None and target <= 3:
            pool = [n for n in SHORT_SAFE if len(n) == target and n not in taken]
            if pool:
                return r.choice(pool)
            target = 5
        if target is None:
            # words that are ordinary identifiers in C and Go and only SOFT keywords in Python (valid attribute names): the key is
            # the schema's field name like any other
            soft = [n for n in ("match", "type") if n not in taken]
            if soft and r.random() < 0.08:
                return r.choice(soft)
            return f"{r.choice(WORDS)}_{sfx}"
        parts: List[str] = []
        while len("_".join(parts + [sfx])) < target:
            parts.append(r.choice(WORDS) + (str(r.randrange(10)) if r.random() < 0.2 else ""))
        s = "_".join(parts + [sfx])
        if len(s) > target:
            s = s[len(s) - target:].lstrip("_0123456789")  # keep the unique tail, a letter first
            while len(s) < target:
                s = "q" + s
        return s

    def fields(self, m: G.MsgDef, types: List[Any], numbering: Optional[str] = None, name_lens: Optional[List[int]] = None) -> None:
        """append fields; numbers are drawn so that declaration order != number order most of the time"""
        r = self.r
        n = len(types)
        numbering = numbering or r.choice(["sparse", "dense-shuffled", "dense", "reverse"])
        used = {f.num for f in m.fields}
        free = [x for x in range(1, 256) if x not in used]
        if numbering == "sparse":
            nums = r.sample(free, n)
        elif numbering == "dense-shuffled":
            nums = free[:n]
            r.shuffle(nums)
        elif numbering == "reverse":
            nums = list(reversed(free[:n]))
        else:
            nums = free[:n]
        names = {f.name for f in m.fields}
        for i, (t, num) in enumerate(zip(types, nums)):
            nm = self.fname(len(m.fields), name_lens[i] if name_lens else None, names)
            assert nm not in names, nm
            names.add(nm)
            m.fields.append(G.Field(nm, num, t))

    def schema(self) -> G.Schema:
        return G.Schema(fresh_proto(), self.defs)


class WidthCursor:
    """hands out integer widths so that a run covers 1..64 in every position"""

    def __init__(self, rng: random.Random) -> None:
        self.order = list(range(1, 65))
        rng.shuffle(self.order)
        self.i = 0

    def next(self) -> int:
        w = self.order[self.i % 64]
        self.i += 1
        return w


def chunks(xs: List[Any], n: int) -> List[List[Any]]:
    return [xs[i:i + n] for i in range(0, len(xs), n)]


_width_variant = [0]
WIDTH_VARIANTS = ["scalar", "array-elem", "alias", "alias-array", "enum"]


def fam_widths(rng: random.Random, wc: WidthCursor) -> Tuple[G.Schema, List[str]]:
    """every width 1..64, unsigned and signed, in ONE position per program (rotating): scalar field /
    array element / alias / alias to array (also as array element) / enum underlying width;
    bool/byte fields interleaved so struct offsets vary; a container that nests the parts"""
    sb = SB(rng)
    variant = WIDTH_VARIANTS[_width_variant[0] % len(WIDTH_VARIANTS)]
    _width_variant[0] += 1
    parts = []
    kinds = ("enum",) if variant == "enum" else (False, True)
    for signed in kinds:
        ws = list(range(1, 65))
        rng.shuffle(ws)
        for ch in chunks(ws, rng.choice([8, 16, 16, 32])):
            ts: List[Any] = []
            for w in ch:
                base: Any = None if signed == "enum" else (G.TInt(w) if signed else G.TUint(w))
                if variant == "scalar":
                    ts.append(base)
                elif variant == "array-elem":
                    ts.append(G.TArray(base, rng.choice([1, 2, 3]), rng.random() < 0.3))
                elif variant == "alias":
                    al = sb.alias(base)
                    ts.append(G.TRef(al) if rng.random() < 0.6 else G.TArray(G.TRef(al), rng.choice([1, 2]), False))
                elif variant == "alias-array":
                    al = sb.alias(G.TArray(base, rng.choice([1, 2, 3]), rng.random() < 0.3))
                    ts.append(G.TRef(al) if rng.random() < 0.6 else G.TArray(G.TRef(al), 2, False))
                else:
                    en = sb.rand_enum(w)
                    ts.append(G.TRef(en) if rng.random() < 0.6 else G.TArray(G.TRef(en), rng.choice([1, 2, 3]), False))
            for _ in range(rng.randint(0, 3)):
                ts.insert(rng.randrange(len(ts) + 1), rng.choice([G.TBool(), G.TByte()]))
            m = sb.msg()
            sb.fields(m, ts)
            parts.append(m)
    top = sb.msg()
    pick = rng.sample(parts, min(len(parts), 4))
    ts = [G.TRef(p) for p in pick] + [G.TArray(G.TRef(rng.choice(parts)), 2, rng.random() < 0.3)]
    rng.shuffle(ts)
    sb.fields(top, ts)
    return sb.schema(), ["widths", "widths-" + variant]


def small_msg(sb: SB, rng: random.Random, wc: WidthCursor, with_enum: Optional[G.EnumDef] = None, parent=None) -> G.MsgDef:
    m = sb.msg(parent=parent)
    ts: List[Any] = [G.TInt(wc.next()), G.TUint(wc.next())]
    if rng.random() < 0.5:
        ts.append(G.TBool())
    if with_enum is not None:
        ts.insert(rng.randrange(len(ts) + 1), G.TRef(with_enum))
    sb.fields(m, ts)
    return m


def fam_arrays(rng: random.Random, wc: WidthCursor) -> Tuple[G.Schema, List[str]]:
    """arrays of every element kind between scalar sentinels; aliases (scalar, array, 2-d)"""
    sb = SB(rng)
    en = sb.rand_enum()
    inner_e = small_msg(sb, rng, wc, with_enum=en)
    inner = small_msg(sb, rng, wc)
    empty = sb.msg()
    elems: List[Any] = [G.TBool(), G.TByte(), G.TRef(en), G.TRef(inner), G.TRef(inner_e), G.TRef(empty)]
    for _ in range(4):
        elems.append(G.TUint(wc.next()))
        elems.append(G.TInt(wc.next()))
    a_s = [sb.alias(G.TInt(wc.next())), sb.alias(G.TUint(wc.next())), sb.alias(G.TBool()), sb.alias(G.TByte())]
    a_arr = [sb.alias(G.TArray(rng.choice([G.TInt(wc.next()), G.TUint(wc.next()), G.TByte(), G.TBool(), G.TRef(en), G.TRef(inner)]),
                               rng.choice([1, 2, 3, 4, 7]), rng.random() < 0.3)) for _ in range(3)]
    a_2d = sb.alias(G.TArray(G.TRef(rng.choice(a_arr)), rng.choice([1, 2, 3]), rng.random() < 0.3))
    elems += [G.TRef(a) for a in a_s + a_arr]
    rng.shuffle(elems)
    for ch in chunks(elems, rng.choice([5, 8, 12])):
        m = sb.msg()
        ts: List[Any] = []
        for e in ch:
            cap = rng.choice(G.BOUNDARY_CAPS) if rng.random() < 0.8 else rng.randint(1, 20)
            ts.append(G.TArray(e, cap, rng.random() < 0.3))
            if rng.random() < 0.6:
                ts.append(rng.choice([G.TUint(8), G.TInt(16), G.TBool(), G.TInt(wc.next()), G.TRef(en)]))
        # aliases used directly as fields
        ts += [G.TRef(a) for a in rng.sample(a_s, 2)]
        ts.append(G.TRef(rng.choice(a_arr + [a_2d])))
        rng.shuffle(ts)
        sb.fields(m, ts)
        while G.msg_nbits(m) > 60000 and m.fields:
            m.fields.pop()
    if rng.random() < 0.06:
        # a JSON text of several hundred kilobytes
        huge = sb.msg()
        sb.fields(huge, [G.TArray(rng.choice([G.TBool(), G.TUint(1), G.TInt(2), G.TUint(3)]), rng.choice([9000, 16384, 20000]), False), G.TInt(8)])
    if rng.random() < 0.35:
        big = sb.msg()
        e = rng.choice([G.TUint(64), G.TInt(64), G.TByte(), G.TInt(33), G.TUint(17)])
        cap = rng.choice([255, 256, 300, 1000])
        while cap * G.nbits(e) > 60000:
            cap //= 2
        sb.fields(big, [G.TUint(8), G.TArray(e, cap, rng.random() < 0.3), G.TInt(8)])
    return sb.schema(), ["arrays"]


def fam_names(rng: random.Random, wc: WidthCursor) -> Tuple[G.Schema, List[str]]:
    """field names of 1..48 characters, many fields, sparse numbers up to 255"""
    sb = SB(rng)
    en = sb.rand_enum()
    inner = small_msg(sb, rng, wc)
    lens_pool = [1, 2, 3, 8, 15, 16, 17, 24, 31, 32, 33, 39, 40, 41, 47, 48]
    for _ in range(rng.randint(2, 4)):
        m = sb.msg()
        n = rng.choice([1, 3, 8, 20, 40, 64]) if rng.random() < 0.7 else rng.randint(1, 100)
        if rng.random() < 0.08:
            n = rng.choice([127, 128, 129, 200, 254, 255])  # as many keys as there are field numbers
        ts: List[Any] = []
        lens: List[int] = []
        cap_len = rng.choice([3, 16, 24, 32, 33, 40, 41, 48])
        for _ in range(n):
            k = rng.random()
            if k < 0.5:
                ts.append(rng.choice([G.TUint(wc.next()), G.TInt(wc.next()), G.TBool(), G.TByte()]))
            elif k < 0.65:
                ts.append(G.TRef(en))
            elif k < 0.8:
                ts.append(G.TArray(rng.choice([G.TByte(), G.TInt(wc.next()), G.TBool()]), rng.choice([1, 2, 3]), False))
            else:
                ts.append(G.TRef(inner))
            lens.append(rng.choice([x for x in lens_pool if x <= cap_len]))
        sb.fields(m, ts, numbering=rng.choice(["sparse", "dense-shuffled", "reverse"]), name_lens=lens)
    return sb.schema(), ["names"]


def fam_nesting(rng: random.Random, wc: WidthCursor) -> Tuple[G.Schema, List[str]]:
    """chains of messages up to depth 8, declared at top level or inside each other, the nested field
    first / in the middle / last by number, arrays of messages and empty messages on the way"""
    sb = SB(rng)
    depth = rng.choice([2, 3, 4, 5, 6, 8])
    en = sb.rand_enum() if rng.random() < 0.5 else None
    declared_inside = rng.random() < 0.4

    def level(d: int, parent: Optional[G.MsgDef]) -> G.MsgDef:
        # declared-inside: the inner message is a nested definition of the outer one
        if d == depth:
            leaf = sb.msg(parent=parent)
            if rng.random() < 0.75:
                ts: List[Any] = [G.TInt(wc.next()), G.TBool()]
                if en is not None and rng.random() < 0.7:
                    ts.append(G.TRef(en))
                sb.fields(leaf, ts)
            return leaf
        if declared_inside:
            m = sb.msg(parent=parent)
            inner = level(d + 1, m)
        else:
            inner = level(d + 1, None)
            m = sb.msg(parent=None)
        shape = rng.choice(["first", "middle", "last", "only", "array", "twice"])
        ref: Any = G.TRef(inner)
        if shape == "array":
            ref = G.TArray(G.TRef(inner), rng.choice([1, 2, 3]), rng.random() < 0.3)
        before = [rng.choice([G.TUint(wc.next()), G.TInt(wc.next()), G.TBool(), G.TByte()]) for _ in range(rng.randint(1, 2))]
        after = [rng.choice([G.TUint(wc.next()), G.TInt(wc.next()), G.TArray(G.TByte(), 2, False)]) for _ in range(rng.randint(1, 2))]
        if shape == "first":
            ts2 = [ref] + after
        elif shape == "last":
            ts2 = before + [ref]
        elif shape == "only":
            ts2 = [ref]
        elif shape == "twice":
            ts2 = [ref] + before + [G.TRef(inner)]
        else:
            ts2 = before + [ref] + after
        # numbers ascending in this order, declaration order shuffled
        nums = sorted(rng.sample(range(1, 256), len(ts2)))
        decl = list(zip(ts2, nums))
        rng.shuffle(decl)
        for i, (t, num) in enumerate(decl):
            m.fields.append(G.Field(sb.fname(i, None, set()), num, t))
        return m

    level(1, None)
    return sb.schema(), ["nesting", f"depth{depth}", "declared-inside" if declared_inside else "declared-top"]


def fam_enums(rng: random.Random, wc: WidthCursor) -> Tuple[G.Schema, List[str]]:
    """enums of every width class, declared at top level and inside messages; messages without enum
    fields that contain messages with enum fields (directly / array / two levels down); enum arrays;
    two fields of one enum type"""
    sb = SB(rng)
    e_top = sb.rand_enum(rng.choice([1, 3, 8, 9, 16, 17, 32, 33, 63, 64]))
    holder = sb.msg()  # declares an enum and a message inside
    e_in = sb.rand_enum(rng.choice([2, 7, 8, 12, 16, 31, 32, 64]), parent=holder)
    deep = sb.msg(parent=holder)
    e_deep = sb.rand_enum(parent=deep)
    sb.fields(deep, [G.TRef(e_deep), G.TInt(wc.next())])
    sb.fields(holder, [G.TRef(e_in), G.TUint(wc.next()), G.TRef(deep)])
    inner = sb.msg()  # message WITH enum fields
    its = [G.TRef(e_top), G.TRef(e_in), G.TUint(wc.next())]
    if rng.random() < 0.5:
        its.append(G.TRef(e_top))  # two fields of one enum type
    if rng.random() < 0.5:
        its.append(G.TArray(G.TRef(e_deep), rng.choice([1, 2, 4]), rng.random() < 0.3))
    rng.shuffle(its)
    sb.fields(inner, its)
    shapes = ["direct", "array", "two-levels", "only-enum-arrays", "own-and-nested", "alias-enum-array", "deep-declared"]
    rng.shuffle(shapes)
    tags = ["enums"]
    for shape in shapes[: rng.randint(3, len(shapes))]:
        tags.append("enum-" + shape)
        if shape == "direct":
            o = sb.msg()
            sb.fields(o, [G.TUint(wc.next()), G.TRef(inner), G.TBool()])
        elif shape == "array":
            o = sb.msg()
            sb.fields(o, [G.TArray(G.TRef(inner), rng.choice([1, 2, 3]), rng.random() < 0.3), G.TInt(wc.next())])
        elif shape == "two-levels":
            mid = sb.msg()
            sb.fields(mid, [G.TInt(wc.next()), G.TRef(inner)])
            o = sb.msg()
            sb.fields(o, [G.TRef(mid), G.TByte()] if rng.random() < 0.5 else [G.TArray(G.TRef(mid), 2, False)])
        elif shape == "only-enum-arrays":
            o = sb.msg()
            sb.fields(o, [G.TArray(G.TRef(e_top), rng.choice([1, 3, 8]), rng.random() < 0.3), G.TArray(G.TRef(e_in), 2, False), G.TUint(8)])
        elif shape == "own-and-nested":
            o = sb.msg()
            ts = [G.TRef(e_deep), G.TRef(inner), G.TRef(e_top)]
            rng.shuffle(ts)
            sb.fields(o, ts)
        elif shape == "alias-enum-array":
            al = sb.alias(G.TArray(G.TRef(e_top), rng.choice([1, 2, 5]), rng.random() < 0.3))
            o = sb.msg()
            sb.fields(o, [G.TRef(al), G.TInt(wc.next()), G.TArray(G.TRef(al), 2, False)])
        elif shape == "deep-declared":
            o = sb.msg()
            sb.fields(o, [G.TRef(deep), G.TRef(holder)])
    return sb.schema(), tags


def fam_random(rng: random.Random, wc: WidthCursor) -> Tuple[G.Schema, List[str]]:
    o = G.GenOpts(enum_zero_first=False, max_bits=rng.choice([600, 2000, 4000]), big_prob=0.01,
                  max_depth=rng.choice([1, 2, 3]), max_fields=rng.choice([4, 6, 10]))
    g = SchemaGen2(rng, o)
    s = g.schema()
    s.proto = fresh_proto("pr")
    return s, ["random"]


class SchemaGen2(G.SchemaGen):
    """tools/gen.py generator; never consumes the shared corpus queue"""

    def schema(self, ntop: Optional[int] = None) -> G.Schema:
        saved, G.SchemaGen.corpus_queue = G.SchemaGen.corpus_queue, []
        try:
            return super().schema(ntop)
        finally:
            G.SchemaGen.corpus_queue = saved


def fam_imports(rng: random.Random, wc: WidthCursor) -> Tuple[G.Schema, List[str]]:
    """main file whose messages hold top-level enums / aliases / messages of an imported file
    (with or without `as`); the importing messages have no enum field of their own"""
    lb = SB(rng)
    le = lb.rand_enum()
    la = lb.alias(rng.choice([G.TInt(wc.next()), G.TArray(G.TByte(), 3, False), G.TArray(G.TInt(wc.next()), 2, False)]))
    lm = lb.msg()
    l_in = lb.rand_enum(parent=lm)
    lb.fields(lm, [G.TRef(le), G.TInt(wc.next()), G.TRef(l_in), G.TArray(G.TByte(), 2, False)])
    lib = lb.schema()
    lib.proto = fresh_proto("lj")
    G.set_home(lib)
    for d in (le, la, lm, l_in):
        d.imported = True
    sb = SB(rng)
    own_e = sb.rand_enum()
    m1 = sb.msg()
    sb.fields(m1, [G.TRef(lm), G.TUint(wc.next()), G.TRef(la)])
    m2 = sb.msg()
    sb.fields(m2, [G.TArray(G.TRef(lm), 2, rng.random() < 0.3), G.TRef(le), G.TArray(G.TRef(le), 3, False), G.TRef(own_e)])
    m3 = sb.msg()
    sb.fields(m3, [G.TRef(m1), G.TInt(wc.next()), G.TArray(G.TRef(la), 2, False)])
    main = sb.schema()
    as_name = rng.choice([None, "lib" + letters(rng.randrange(26 * 26), 2)])
    main.imports.append((lib, as_name))
    G.set_home(main)
    return main, ["imports", "import-as" if as_name else "import-plain"]


FAMILIES: Dict[str, Callable[[random.Random, WidthCursor], Tuple[G.Schema, List[str]]]] = {
    "widths": fam_widths, "arrays": fam_arrays, "names": fam_names, "nesting": fam_nesting,
    "enums": fam_enums, "imports": fam_imports, "random": fam_random,
}


# ===================================================================== the real compiler
class Program:
    """one generated program compiled by the real compiler (in-process), both languages"""

    def __init__(self, sc: R.Scratch, idx: int, main: G.Schema, tags: List[str], rng: random.Random, prefix: str = "") -> None:
        self.idx = idx
        self.main = main
        self.tags = tags
        self.prefix = prefix
        if prefix:
            main.options = [o for o in main.options if o[0] != "c.name_prefix"] + [("c.name_prefix", prefix)]
        self.files = G.program_files(main, rng)
        self.dir = sc.path(f"p{idx}")
        os.makedirs(self.dir, exist_ok=True)
        self.c_out: Dict[str, str] = {}
        self.py_out: Dict[str, str] = {}  # module name -> text
        self.main_py = ""
        for fs in main.all_files():
            name = f"{fs.base()}.bitproto"
            with open(os.path.join(self.dir, name), "w") as f:
                f.write(self.files[name])
        for fs in main.all_files():
            proto = R.parse_file(os.path.join(self.dir, f"{fs.base()}.bitproto"))
            out = R.render_strings(proto, "c")
            self.c_out[f"{fs.base()}_bp.h"] = out[".h"]
            self.c_out[f"{fs.base()}_bp.c"] = out[".c"]
            py = R.render_strings(proto, "py")[".py"]
            if fs is main:
                self.main_py = py
            else:
                self.py_out[f"{fs.proto}_bp"] = py
        self.messages = main.messages()
        self.shapes = {id(m): Shape(m) for m in self.messages}

    def replay_input(self) -> Dict[str, Any]:
        return {"files": self.files, "argv": ["bitproto", "c|py", f"{self.main.base()}.bitproto", "out/"],
                "families": self.tags}


# ===================================================================== C: generated driver program
def c_driver_source(p: Program) -> str:
    s = p.main
    # the shim assigns leaf by leaf (straight-line code gcc optimises very slowly): the driver itself is always
    # compiled -O0; the flag set under test applies to the generated code and to bitproto.c
    src = ['#pragma GCC optimize ("O0")', C.shim_source(s, f"{s.base()}_bp.h", p.prefix, json=False)]
    src.append("#include <stdio.h>\n#include <stdlib.h>\ntypedef unsigned long long u64;")
    maxleaves = 1
    for k, m in enumerate(p.messages):
        cn = p.prefix + G.c_name(m)
        st = C.c_struct(m, p.prefix)
        nb = (G.msg_nbits(m) + 7) // 8
        maxleaves = max(maxleaves, G.leaf_count(G.TRef(m)))
        src.append(f"""
static int c16_{k}(int mode, int fill, const u64 *v, u64 *back, char *out, int *guard) {{
  static unsigned char blob[G + sizeof({st}) + G + 16] __attribute__((aligned(16)));
  static unsigned char blob2[G + sizeof({st}) + G + 16] __attribute__((aligned(16)));
  static unsigned char wire[{nb} + 16];
  memset(blob, 0xA5, sizeof blob);
  {st} *m = ({st} *)(blob + G);
  memset(m, fill, sizeof({st}));
  set_{cn}(m, v);
  {st} *src = m;
  if (mode == 1) {{
    memset(wire, 0, sizeof wire);
    Encode{cn}(m, wire);
    memset(blob2, 0xA5, sizeof blob2);
    {st} *d = ({st} *)(blob2 + G);
    memset(d, 0, sizeof({st}));
    Decode{cn}(d, wire);
    src = d;
  }}
  int n = Json{cn}(src, out);
  get_{cn}(src, back);
  *guard = 0;
  for (int k = 0; k < G; k++) if (blob[k] != 0xA5 || blob[G + sizeof({st}) + k] != 0xA5) *guard = 1;
  return n;
}}""")
    src.append("""
int main(int argc, char **argv) {
  if (argc < 3) return 2;
  FILE *f = fopen(argv[1], "r");
  if (!f) return 2;
  long outcap = atol(argv[2]);
  char *obuf = (char *)malloc(G + outcap + G);
  u64 *v = (u64 *)malloc(sizeof(u64) * (MAXLEAVES + 1));
  u64 *back = (u64 *)malloc(sizeof(u64) * (MAXLEAVES + 1));
  int idx, mode, fill, nl;
  while (fscanf(f, "%d %d %d %d", &idx, &mode, &fill, &nl) == 4) {
    if (nl > MAXLEAVES) return 3;
    for (int k = 0; k < nl; k++) if (fscanf(f, "%llx", &v[k]) != 1) return 3;
    memset(obuf, '#', G + outcap + G);
    char *out = obuf + G;
    int guard = 0, n = -1;
    switch (idx) {
CASES
      default: return 3;
    }
    size_t sl = strnlen(out, outcap);
    int og = 0;
    for (int k = 0; k < G; k++) if (obuf[k] != '#') og = 1;
    for (long k = (long)sl + 1; k < outcap + G; k++) if (out[k] != '#') { og = 1; break; }
    printf("%d %zu %d %d %d\\n", n, sl, guard, og, nl);
    for (int k = 0; k < nl; k++) printf("%llx ", back[k]);
    printf("\\n");
    fwrite(out, 1, sl, stdout);
    printf("\\n");
    fflush(stdout);
  }
  return 0;
}
""".replace("CASES", "\n".join(f"      case {k}: n = c16_{k}(mode, fill, v, back, out, &guard); break;" for k in range(len(p.messages))))
               .replace("MAXLEAVES", str(maxleaves)))
    return "\n".join(src)


class CCase:
    __slots__ = ("mi", "vi", "mode", "fill")

    def __init__(self, mi: int, vi: int, mode: int, fill: int) -> None:
        self.mi, self.vi, self.mode, self.fill = mi, vi, mode, fill


def c_build_and_run(p: Program, sc: R.Scratch, cflags: Tuple[str, ...], cases: List[CCase], values: List[List[Dict[int, Any]]],
                    outcap: int) -> Dict[str, Any]:
    """runs in a worker thread: write files, gcc, run the driver on all cases; returns raw observations"""
    d = p.dir
    for name, text in p.c_out.items():
        with open(os.path.join(d, name), "w") as f:
            f.write(text)
    with open(os.path.join(d, "driver.c"), "w") as f:
        f.write(c_driver_source(p))
    lines = []
    for c in cases:
        m = p.messages[c.mi]
        flat: List[int] = []
        C.flat_values(G.TRef(m), values[c.mi][c.vi], flat)
        lines.append(" ".join([str(c.mi), str(c.mode), str(c.fill), str(len(flat))] + ["%x" % x for x in flat]))
    with open(os.path.join(d, "cases.txt"), "w") as f:
        f.write("\n".join(lines) + "\n")
    csrc = [n for n in p.c_out if n.endswith(".c")]
    args = list(cflags) + ["-w", "-I", C.LIBC_DIR, "-I", d] + csrc + ["driver.c", C.runtime_object(sc, cflags), "-o", "drv"]
    tg = time.time()
    ok, err = C.run_gcc(args, d)
    tg = time.time() - tg
    if not ok:
        return {"build_error": err}
    tr = time.time()
    try:
        pr = subprocess.run([os.path.join(d, "drv"), "cases.txt", str(outcap)], cwd=d, capture_output=True, timeout=300)
    except subprocess.TimeoutExpired:
        return {"timeout": True, "records": []}
    data = pr.stdout
    recs = []
    pos = 0
    try:
        while pos < len(data):
            e = data.index(b"\n", pos)
            hdr = data[pos:e].split()
            n, sl, guard, og, nl = (int(x) for x in hdr)
            pos = e + 1
            e = data.index(b"\n", pos)
            back = [int(x, 16) for x in data[pos:e].split()]
            pos = e + 1
            text = data[pos:pos + sl]
            if len(text) != sl or len(back) != nl:
                break
            pos += sl + 1
            recs.append({"n": n, "slen": sl, "guard": guard, "og": og, "back": back, "text": text})
    except ValueError:
        pass
    return {"rc": pr.returncode, "stderr": pr.stderr[-500:].decode("latin-1"), "records": recs,
            "gcc_s": round(tg, 2), "driver_s": round(time.time() - tr, 2), "driver_c_lines": None}


# ===================================================================== Python: generated module
class PyModule:
    def __init__(self, p: Program) -> None:
        self.p = p
        self.extra: List[str] = []
        self.mod = None
        if p.py_out:
            for name, text in p.py_out.items():
                with open(os.path.join(p.dir, name + ".py"), "w") as f:
                    f.write(text)
                self.extra.append(name)
            sys.path.insert(0, p.dir)
        try:
            self.mod = R.load_py_module(p.main_py, p.main.proto)
        finally:
            if p.py_out:
                sys.path.remove(p.dir)

    def close(self) -> None:
        if self.mod is not None:
            R.unload(self.mod)
        for name in self.extra:
            sys.modules.pop(name, None)


    def module_of(self, d) -> Any:
        home = getattr(d, "home", None)
        if home is None or home is self.p.main:
            return self.mod
        return sys.modules[f"{home.proto}_bp"]

    def build(self, m: G.MsgDef, v: Dict[int, Any]):
        """generated message object holding abstract value v (classes of imported messages come
        from the imported module)"""
        obj = getattr(self.module_of(m), G.py_name(m))()
        for f in m.fields:
            setattr(obj, f.name, self._set(f.type, v[f.num]))
        return obj

    def _set(self, t, v):
        if isinstance(t, G.TBool):
            return bool(v)
        if isinstance(t, G.TArray):
            if isinstance(t.elem, G.TByte):
                return bytearray(v)
            return [self._set(t.elem, x) for x in v]
        if isinstance(t, G.TRef):
            d = t.d
            if isinstance(d, G.AliasDef):
                return self._set(d.type, v)
            if isinstance(d, G.MsgDef):
                return self.build(d, v)
        return int(v)


# ===================================================================== the check
def tier_plan(tier: str) -> Dict[str, Any]:
    if tier == "quick":
        return {"programs": {"widths": 5, "arrays": 14, "names": 8, "nesting": 14, "enums": 16, "imports": 6, "random": 48},
                "rand_values": 2, "batch": 28}
    return {"programs": {"widths": 40, "arrays": 160, "names": 90, "nesting": 160, "enums": 190, "imports": 60, "random": 600},
            "rand_values": 4, "batch": 48}


CFLAG_SETS: List[Tuple[str, ...]] = [("-O0",), ("-O2",), ("-O1",), ("-Os",)]


def values_for(m: G.MsgDef, rng: random.Random, n_rand: int) -> Tuple[List[Dict[int, Any]], List[str]]:
    nl = G.leaf_count(G.TRef(m))
    kinds = list(PATTERNS_QUICK) + ["rand"] * n_rand
    if nl == 0:
        kinds = ["min"]
    elif nl > 1500:
        kinds = ["alt", "neg1", "rand"]
    return [pattern_value(m, k, rng) for k in kinds], kinds


def check(run: common.Run, drv: common.Driver, rng: random.Random, tier: str) -> None:
    plan = tier_plan(tier)
    run.coverage["rule"] = ("fixed counts: programs per family %s; per message %d value patterns + %d random values; "
                            "python: assigned / decoded / fresh message x to_json (3 formats) + to_dict; "
                            "C: Json<Msg> of an assigned struct pre-filled 0x00 and 0xFF and of an Encode+Decode'd struct, "
                            "gcc flag sets %s" % (plan["programs"], len(PATTERNS_QUICK), plan["rand_values"], [" ".join(f) for f in CFLAG_SETS]))
    run.coverage["trusted_base"] = ["json.loads (CPython) as the JSON reader", "gcc 12 / glibc vsprintf on x86-64 LP64",
                                    "tools/gen.py printer", "tools/creal.py set_/get_ shim (documented C names)"]
    run.assumptions.append("C observed on x86-64 LP64 only (bitproto.c carries a FIXME about 32-bit printf conversions)")
    wc = WidthCursor(rng)
    order: List[str] = []
    for fam, n in plan["programs"].items():
        order += [fam] * n
    rng.shuffle(order)
    # the first program of a run is always the full width grid
    order.remove("widths")
    order.insert(0, "widths")
    widths_seen: Dict[str, set] = {}
    _reported.clear()
    _uid[0] = 0
    _width_variant[0] = 0
    timing: Dict[str, Any] = {"generate_compile_values": 0.0, "python_checks": 0.0, "waiting_for_gcc_and_driver": 0.0, "c_checks": 0.0,
                              "slowest_program": (0.0, "", 0, "", "", "")}
    state: Dict[str, Any] = {"py_c_equal": 0, "compile_errors": [], "namelens": set()}
    with R.Scratch("bpv-c16-") as sc, cf.ThreadPoolExecutor(16) as pool:
        for flags in CFLAG_SETS:
            C.runtime_object(sc, flags)
        idx = 0
        for b0 in range(0, len(order), plan["batch"]):
            batch = order[b0:b0 + plan["batch"]]
            jobs = []
            t0 = time.time()
            for fam in batch:
                idx += 1
                schema, tags = FAMILIES[fam](rng, wc)
                prefix = ""
                if fam != "imports" and rng.random() < 0.12:
                    prefix = rng.choice(["Xy", "Lib", "Zq"])
                    tags = tags + ["c.name_prefix"]
                try:
                    p = Program(sc, idx, schema, tags, rng, prefix)
                except Exception as e:  # the generated program was rejected: not this property's business
                    run.count("skipped:compiler-rejected-program")
                    if len(state["compile_errors"]) < 5:
                        state["compile_errors"].append({"family": fam, "error": f"{type(e).__name__}: {e}"[:300],
                                                        "files": G.program_files(schema, None)})
                    continue
                values: List[List[Dict[int, Any]]] = []
                kinds: List[List[str]] = []
                cases: List[CCase] = []
                longest = 64
                for mi, m in enumerate(p.messages):
                    vs, ks = values_for(m, rng, plan["rand_values"])
                    values.append(vs)
                    kinds.append(ks)
                    for vi, v in enumerate(vs):
                        cases.append(CCase(mi, vi, 0, 0x00))
                        cases.append(CCase(mi, vi, 0, 0xFF))
                        if vi % 3 == 0 or ks[vi] == "rand":
                            cases.append(CCase(mi, vi, 1, 0x00))
                        longest = max(longest, len(dump(expected_msg(m, v))))
                cflags = rng.choice(CFLAG_SETS)
                outcap = 2 * longest + 4096
                fut = pool.submit(c_build_and_run, p, sc, cflags, cases, values, outcap)
                jobs.append((p, values, kinds, cases, cflags, fut))
            timing["generate_compile_values"] += time.time() - t0
            for (p, values, kinds, cases, cflags, fut) in jobs:
                t1 = time.time()
                for sh in p.shapes.values():
                    state["namelens"] |= sh.namelens
                py_parsed = check_python(run, p, values, kinds, rng, widths_seen)
                t2 = time.time()
                res = fut.result()
                t3 = time.time()
                check_c(run, p, values, kinds, cases, cflags, res, py_parsed, state)
                t4 = time.time()
                timing["python_checks"] += t2 - t1
                timing["waiting_for_gcc_and_driver"] += t3 - t2
                timing["c_checks"] += t4 - t3
                timing["slowest_program"] = max(timing["slowest_program"], (round(t4 - t1, 2), p.tags[0], p.idx, " ".join(cflags),
                                                                            f"gcc {res.get('gcc_s')}s driver {res.get('driver_s')}s",
                                                                            f"{sum(G.leaf_count(G.TRef(m)) for m in p.messages)} leaves, {len(cases)} C cases"))
    dist0 = run.coverage.get("distribution", {})
    unusable = sum(dist0.get(k, 0) for k in ("skipped:compiler-rejected-program", "skipped:generated-c-does-not-compile",
                                               "skipped:python-module-does-not-load"))
    if state["compile_errors"]:
        run.notes["compiler_rejected_programs"] = state["compile_errors"]
    if run.coverage["evaluations"] == 0 or unusable * 2 > len(order):
        # nothing (or too little) could be observed: that is a failure of the check, not a pass
        first = (state["compile_errors"] or run.notes.get("c_build_errors") or run.notes.get("python_load_errors") or [{}])[0]
        raise RuntimeError(f"C16 exploration could not observe the property: {unusable} of {len(order)} generated programs were unusable "
                           f"(compiler rejected / gcc failed / python module did not load); first: {str({k: v for k, v in first.items() if k != 'files'})[:400]}")
    cov = {}
    for k, ws in widths_seen.items():
        cov[k] = {"count": len(ws), "missing": [w for w in range(1, 65) if w not in ws]}
    run.notes["width_coverage"] = cov
    run.notes["python_equals_c_cases"] = state["py_c_equal"]
    dist = run.coverage.get("distribution", {})
    run.notes["features_not_hit_in_this_run"] = [f for f in EXPECTED_EVERY_RUN if "feature:" + f not in dist]
    run.notes["field_name_lengths_hit"] = sorted(state["namelens"])
    run.notes["timing_s"] = {k: (round(v, 1) if isinstance(v, float) else v) for k, v in timing.items()}


def note_case(run: common.Run, p: Program, m: G.MsgDef, v, lang: str, mode: str, extra: Tuple = ()) -> None:
    sh = p.shapes[id(m)]
    vf = value_flags(m, v)
    run.evaluated()
    run.nontrivial((lang, mode, sorted(sh.feats), sorted(vf), min(sh.depth, 9), min(sh.maxname // 8, 6), extra))


EXPECTED_EVERY_RUN = [
    "byte-array", "byte-array-in-nested-msg", "byte-array-2d", "two-enum-fields-in-one-msg", "empty-msg", "empty-top", "empty-msg-in-array",
    "single-field-msg", "nested-msg-first-by-number", "nested-msg-middle-by-number", "nested-msg-last-by-number",
    "enumless-msg-containing-enum-msg", "enum-declared-in-msg", "imported-enum", "imported-msg", "array-2d", "array-of-msg", "array-of-alias",
    "alias-scalar", "alias-array", "big-array", "declared-out-of-number-order", "ext-msg", "ext-array",
    "bool@alias", "byte@alias", "bool@elem", "bool@field", "byte@field", "enum8@field", "enum16@field", "enum32@field", "enum64@field",
    "enum8@elem", "enum16@elem", "enum32@elem", "enum64@elem",
]


def record_distribution(run: common.Run, p: Program, m: G.MsgDef, widths_seen: Dict[str, set]) -> None:
    sh = p.shapes[id(m)]
    for f in sh.feats:
        run.count("feature:" + f)
    for (k, n, pos) in sh.widths:
        widths_seen.setdefault(f"{k}@{pos}", set()).add(n)
    run.count(f"depth:{min(sh.depth, 9)}")
    run.count("longest_field_name:%s" % ("<=8" if sh.maxname <= 8 else "<=16" if sh.maxname <= 16 else "<=32" if sh.maxname <= 32 else "<=40" if sh.maxname <= 40 else ">40"))
    run.count("keys_per_message:%s" % ("0" if sh.nkeys == 0 else "<=8" if sh.nkeys <= 8 else "<=32" if sh.nkeys <= 32 else "<=100" if sh.nkeys <= 100 else ">100"))


def plain_value(t, v) -> Any:
    """value with field NAMES as keys (readable replays)"""
    if isinstance(t, G.TArray):
        return [plain_value(t.elem, x) for x in v]
    if isinstance(t, G.TRef):
        d = t.d
        if isinstance(d, G.AliasDef):
            return plain_value(d.type, v)
        if isinstance(d, G.MsgDef):
            return {f"{f.name}={f.num}": plain_value(f.type, v[f.num]) for f in d.fields}
    return int(v)


_reported: set = set()


def violation(run: common.Run, p: Program, m: G.MsgDef, v, lang: str, what: str, expected, observed, extra: Dict[str, Any]) -> None:
    # one replay per (program, language): the remaining checks of a broken program repeat the same defect
    if (p.idx, lang) in _reported:
        run.count("note:further-mismatch-in-a-program-already-reported")
        return
    _reported.add((p.idx, lang))
    rep = {"kind": "impl-vs-spec", "language": lang, "what": what,
           "input": dict(p.replay_input(), message=(G.py_name(m) if lang == "python" else p.prefix + G.c_name(m)),
                         value={"by 'name=number'": plain_value(G.TRef(m), v)}, **extra),
           "expected_by_spec": clip(dump(expected)) if expected is not None else None,
           "observed_impl": observed}
    rep["summary"] = f"{lang}: {what}"[:300]
    run.violation(rep)


def check_python(run: common.Run, p: Program, values, kinds, rng: random.Random, widths_seen) -> Dict[Tuple[int, int], Any]:
    """python side of one program; returns {(message index, value index): parsed to_json of the assigned message}"""
    parsed: Dict[Tuple[int, int], Any] = {}
    for t in p.tags:
        run.count("family:" + t)
    try:
        pm = PyModule(p)
    except Exception as e:
        # generated Python that does not import is C10's subject; say so and go on
        run.count("skipped:python-module-does-not-load")
        run.notes.setdefault("python_load_errors", []).append({"files": p.files, "error": f"{type(e).__name__}: {e}"[:300]})
        return parsed
    try:
        for mi, m in enumerate(p.messages):
            record_distribution(run, p, m, widths_seen)
            cls = getattr(pm.mod, G.py_name(m))
            nleaves = G.leaf_count(G.TRef(m))
            # all instances of the class are alive before the first is serialised
            objs = []
            for v in values[mi]:
                try:
                    objs.append(pm.build(m, v))
                except Exception as e:
                    objs.append(e)
            for vi, (v, obj) in enumerate(zip(values[mi], objs)):
                if isinstance(obj, Exception):
                    run.count("skipped:python-assignment-raised")
                    continue
                exp = expected_msg(m, v)
                try:
                    held = R.py_read(m, obj)
                except Exception:
                    held = None
                if held != v:
                    # assignment goes through generated code (enum properties): the JSON is still compared
                    # with the value that was SET (the property's observation point)
                    run.count("note:python-message-reads-back-other-values-than-assigned")
                note_case(run, p, m, v, "python", "assigned", (kinds[mi][vi],))
                run.count("case:python-assigned")
                got = py_observe(run, p, m, v, obj, exp, "assigned", full=(vi < 2 or kinds[mi][vi] == "rand"))
                if got is not None:
                    parsed[(mi, vi)] = got
                if vi == 0 and got is not None:
                    run.sample({"language": "python", "message": G.py_name(m), "to_json": clip(dump(got), 300)}, limit=2)
                # decoded message: expectation from what it holds
                if (vi % 2 == 0 or kinds[mi][vi] == "rand") and nleaves <= 1500:
                    try:
                        o2 = cls()
                        o2.decode(obj.encode())
                        held2 = R.py_read(m, o2)
                    except Exception:
                        run.count("skipped:python-decode-or-read-raised")
                        continue
                    if held2 != v:
                        run.count("note:python-decoded-differs-from-encoded (other properties)")
                    note_case(run, p, m, held2, "python", "decoded", (kinds[mi][vi],))
                    run.count("case:python-decoded")
                    py_observe(run, p, m, held2, o2, expected_msg(m, held2), "decoded", full=False)
            # a fresh message
            try:
                o3 = cls()
                held3 = R.py_read(m, o3)
            except Exception:
                run.count("skipped:python-fresh-message-unreadable")
                continue
            note_case(run, p, m, held3, "python", "fresh")
            run.count("case:python-fresh")
            py_observe(run, p, m, held3, o3, expected_msg(m, held3), "fresh", full=False)
    finally:
        pm.close()
    return parsed


def py_observe(run: common.Run, p: Program, m: G.MsgDef, v, obj, exp: Obj, mode: str, full: bool) -> Optional[Any]:
    """to_json / to_dict of one object against the expectation; returns the parsed default to_json"""
    result = None
    calls: List[Tuple[str, Callable[[], Any]]] = [("to_json()", lambda: obj.to_json())]
    if full:
        calls.append(("to_json(indent=2)", lambda: obj.to_json(indent=2)))
        calls.append(("to_json(separators=(',', ':'))", lambda: obj.to_json(separators=(",", ":"))))
    for name, fn in calls:
        try:
            text = fn()
        except Exception as e:
            violation(run, p, m, v, "python", f"{name} raised {type(e).__name__} ({mode} message)", exp,
                      f"{type(e).__name__}: {e}"[:400], {"call": name, "message_state": mode})
            continue
        if not isinstance(text, str):
            violation(run, p, m, v, "python", f"{name} did not return text", exp, repr(text)[:300], {"call": name, "message_state": mode})
            continue
        val, err = parse_json_text(text)
        if err is not None:
            violation(run, p, m, v, "python", f"{name} is not well-formed JSON: {err}", exp, clip(text), {"call": name, "message_state": mode})
            continue
        d = diff(exp, val)
        if d is not None:
            violation(run, p, m, v, "python", f"{name} states other values: {d}", exp, clip(text),
                      {"call": name, "message_state": mode, "note": "all value patterns of a message are assigned to separate live "
                       "instances of the class (in the order min,max,neg1,alt,alt2,edge,rand,rot,rand..) before the first is serialised"})
            continue
        if name == "to_json()":
            result = val
    try:
        dct = obj.to_dict()
    except Exception as e:
        violation(run, p, m, v, "python", f"to_dict() raised {type(e).__name__} ({mode} message)", exp, f"{type(e).__name__}: {e}"[:400],
                  {"call": "to_dict()", "message_state": mode})
        return result
    d = diff(exp, from_python(dct)) if isinstance(dct, dict) else "$: to_dict() did not return a dict"
    if d is not None:
        violation(run, p, m, v, "python", f"to_dict() states other values: {d}", exp, clip(repr(dct)), {"call": "to_dict()", "message_state": mode})
    return result


def check_c(run: common.Run, p: Program, values, kinds, cases: List[CCase], cflags, res: Dict[str, Any],
            py_parsed: Dict[Tuple[int, int], Any], state: Dict[str, Any]) -> None:
    if "build_error" in res:
        # generated C that does not compile is C10/C15's subject
        run.count("skipped:generated-c-does-not-compile")
        run.notes.setdefault("c_build_errors", []).append({"files": p.files, "cflags": list(cflags), "gcc": res["build_error"][-600:]})
        return
    recs = res["records"]
    for ci, c in enumerate(cases):
        m = p.messages[c.mi]
        v = values[c.mi][c.vi]
        extra = {"cflags": list(cflags), "struct_prefill": "0x%02X" % c.fill,
                 "message_state": "assigned" if c.mode == 0 else "Encode+Decode of the assigned struct"}
        if ci >= len(recs):
            what = "the driver program timed out" if res.get("timeout") else \
                f"Json{p.prefix + G.c_name(m)} did not return (driver exit status {res.get('rc')}, stderr {res.get('stderr', '')[-200:]!r})"
            violation(run, p, m, v, "c", what, expected_msg(m, v), None, extra)
            return
        r = recs[ci]
        held = C.unflat_values(G.TRef(m), iter(r["back"]))
        if c.mode == 0 and held != normalise(m, v):
            run.count("skipped:c-struct-does-not-hold-assigned-value")
            continue
        mode = "assigned" if c.mode == 0 else "decoded"
        note_case(run, p, m, held, "c", mode, (kinds[c.mi][c.vi], c.fill, cflags[0]))
        run.count(f"case:c-{mode}-prefill{c.fill:02X}")
        run.count("cflags:" + " ".join(cflags))
        exp = expected_msg(m, held)
        text = r["text"].decode("latin-1")
        if ci == 0:
            run.sample({"language": "c", "message": p.prefix + G.c_name(m), "json": clip(text, 300)}, limit=4)
        if r["slen"] > 65535:
            run.count("c-text-longer-than-64KiB")
        if r["guard"] or r["og"]:
            violation(run, p, m, held, "c", "Json wrote outside the text it returned (guard zone of %s overwritten)" %
                      ("the struct" if r["guard"] else "the output buffer"), exp, clip(text), extra)
            continue
        if r["n"] != r["slen"]:
            violation(run, p, m, held, "c", f"Json returned {r['n']} but wrote a text of {r['slen']} characters", exp, clip(text), extra)
            continue
        val, err = parse_json_text(text)
        if err is not None:
            violation(run, p, m, held, "c", f"Json text is not well-formed JSON: {err}", exp, clip(text), extra)
            continue
        d = diff(exp, val)
        if d is not None:
            violation(run, p, m, held, "c", f"Json text states other values: {d}", exp, clip(text), extra)
            continue
        if c.mode == 0 and c.fill == 0 and (c.mi, c.vi) in py_parsed:
            d2 = diff(py_parsed[(c.mi, c.vi)], val)
            if d2 is not None:
                violation(run, p, m, held, "python-vs-c", f"python and C state different values for one message: {d2}", exp,
                          {"c": clip(text), "python": clip(dump(py_parsed[(c.mi, c.vi)]))}, extra)
            else:
                state["py_c_equal"] += 1
    if res.get("rc") not in (0, None) and len(recs) >= len(cases):
        run.count("note:driver-nonzero-exit-after-all-cases")


def normalise(m: G.MsgDef, v) -> Dict[int, Any]:
    """assigned value with every leaf as int (bools are 0/1), the form creal.unflat_values returns"""
    return walk_copy(G.TRef(m), v)


def walk_copy(t, v):
    if isinstance(t, G.TArray):
        return [walk_copy(t.elem, x) for x in v]
    if isinstance(t, G.TRef):
        d = t.d
        if isinstance(d, G.AliasDef):
            return walk_copy(d.type, v)
        if isinstance(d, G.MsgDef):
            return {f.num: walk_copy(f.type, v[f.num]) for f in sorted(d.fields, key=lambda f: f.num)}
    return int(v)
