"""Writes MANIFEST.json from the registry (run after changing the set of claimed properties)."""
import json
import os

from . import registry
from .common import VERIF

ALL = [f"C{n:02d}" for n in range(1, 21)]

TRUST = 'trusted: Lean 4.33.0 kernel (leanchecker re-check in the thorough tier); axioms propext / Quot.sound / Classical.choice only (audited by #print axioms on every run, no sorry / native_decide / own axioms); the translators tools/translate*.py; the correspondence harness and the compiled driver bpdrv; '

LEVEL_TEXT = {
    "C01": "Lean 4 theorems: the model of bp.py + generated accessors (PyRt.encode) returns exactly Spec.encode for every type tree and every value of its shape, with length, bit placement, zero padding, N = leaf widths + 16 per extensible node, ascending field order; model tied to /repo by regenerated helper definitions (bridge lemmas re-proved each run) and by executing the real generated Python against py.encode/spec.encode.",
    "C02": "Lean 4 theorems for every type tree and in-range value: PyRt.decode(Spec.encode v) into a fresh message = v and re-encoding reproduces the bytes, signed fields sign-extended (C02_roundtrip_partial, under enumZero: every enum's first declared member is 0). The full statement is false of the unchanged code outside that hypothesis: KF_py_enum_default_witness proves the negation on a concrete input, which the check replays on the real generated Python (KNOWN-FINDING). Two further defects were repaired by fix: commits and the model follows the repaired code.",
    "C03": "Lean 4 theorems for every well-formed type tree and in-range value: the model of lib/c/bitproto.c + generated descriptors (CRt.encode / CRt.decode, little-endian host) writes exactly Spec.encode into a zeroed buffer and decodes it into a zeroed struct to exactly the values (sign handling for widths other than 8/16/32/64, batch path = element loop, every path of the bit copier), hence C <-> Python interoperate. Tied by executing the real C (gcc, ctypes, generated shim) and the generated Python against the model and the specification; storage-size rule tied by the translator.",
    "C04": "Lean 4 theorems for every traditional type tree: the compile-time copy plan (OpMode.planLeaf) covers each leaf's bits exactly once, and executing the emitted items in each dialect (C little-endian pointer items, C big-endian value items, Go items) encodes to Spec.encode and decodes back — the same bytes as standard mode. Tie: every generated -O program of a run is parsed back into items and compared with the plan; generated C -O is executed (LE, and BE emulation); Go cannot be compiled here (no toolchain): generated Go -O statements are tied structurally and additionally executed by an interpreter of their statement subset (tools/gointerp.py) against the specification.",
    "C05": "Lean 4 theorems: for every pair of schemas related by Evo (append fields to extensible messages, grow extensible arrays, any depth, any chain — reflexive-transitive closure proved), every in-range value of the newer schema decodes under the older one (Spec, Python model, C model) to the projection of the value, and the cursor lands exactly after the sender's data. The array part was false of the unchanged runtimes (skip formula); repaired by a fix: commit, the old formula's failure is kept as a proved witness.",
    "C06": "Lean 4 theorems: the big-endian build of the C runtime model (staging through BpHostToLittleEndian / value-shift items, byte-reversed cells) produces and consumes exactly the same wire bytes as the little-endian build for every well-formed type and in-range value; the bit copier is build-independent; the -O endian selection emits the right items. Tie: the real runtime compiled with -DBP_BIG_ENDIAN on byte-reversed storage (the property's own emulation) executed against the model. A real big-endian CPU is outside the model.",
    "C07": "Lean 4 theorems: the size constant is ceil(N/8); encoding an over-range value equals encoding its reduction modulo 2^width (no neighbouring bit changes) in the specification, the Python model and the C model; with a buffer of exactly ceil(N/8) bytes and cells of exactly their storage size no modelled access leaves its object (the models raise on any out-of-range index). Tie: real Python and C executed with over-range values, guard zones around buffers and structs, decoders (standard and -O) reading from a buffer that ends exactly at an inaccessible page (a read beyond ceil(N/8) bytes faults and is reported), and the -O masks parsed from generated text.",
    "C08": "Lean 4 theorems about an executable reference of the documented rules (Front.checkProgram): acceptance implies well-formedness of every elaborated message (the hypothesis of C01-C07; C08_text_accept_wf states it for every source TEXT the modelled pipeline accepts), per-rule boundary statements, numeric limits tied to the validators' source by the translator. The iff against the real compiler is established by correspondence: generated valid programs and single-violation mutants (about 28 kinds, boundary values on both sides) must get the same verdict, rule family, file and line from bitproto.parser.parse, the CLI and the reference. Since the text-level model exists (Lex.lex: PLY's rule order, boundaries, lazy errors; Parse.parseText: a predictive parser from grammars.py) the same comparison runs on arbitrary TEXT (repo files and generated programs under character / token mutations, random token sequences, truncations): acceptance always, rule and line unless one side reports a syntactic stop. PLY's automaton itself is not modelled, hence partial.",
    "C09": "Partial. Lean 4 theorems for the places where totality is not by construction: the lexer's index-driven escape loop never raises IndexError nor runs out of steps on anything the token regular expression matches; the expression parser, tokenizer and import recursion never exhaust their fuel (answers independent of fuel beyond 2|tokens|+2, |text|, |files|+1); evaluation ends in a value or one of four parser-error kinds; the text-level models (lexer of the whole token language, grammar) terminate on every text — no fuel bound is ever hit — and number lines correctly; PLY's LALR automaton and the renderers as a whole are not modelled: their totality is explored (five input streams incl. stress inputs, worker pool under an interval timer, real CLI), not proved.",
    "C10": "Partial. What a theorem can carry is the declaration discipline of the output, not gcc's verdict: Lean 4 theorems that the emission order (children first, siblings in declaration order) emits every definition exactly once, nested definitions before their parent and earlier siblings before later ones — with C08/C11 this is declared-before-use. The toolchains (gcc, g++ with sizeof/offsetof asserts, Python import + instantiate, static Go discipline; no Go toolchain here) run on every generated program as correspondence. Seven known findings of the unchanged tree are listed (each witness re-confirmed in every run); three defects repaired.",
    "C11": "Lean 4 theorems about the reference resolver (Front.resolve / lookupPath): a simple name resolves to the innermost enclosing scope that declares it, searching outward, only among definitions that closed earlier; dotted paths descend through messages and imports; elaboration uses exactly the resolved definition. Tie: for every generated program with shadowing, dotted paths and imports the elaborated type of every message must agree three ways (real AST, Lean reference, the generator's own resolver).",
    "C12": "Lean 4 theorems: Spec.encode depends only on the normalised type — reordering fields, introducing or eliminating aliases, order-preserving renumbering and their compositions leave the bytes unchanged for every value; field numbers are not on the wire. Tie: rewrite pairs of real programs (reorder, alias in/out, rename, unnest, renumber, const folding incl. negative division) compiled by the real compiler must produce identical bytes in Python and C.",
    "C13": "Lean 4 theorems: the expression parser inverts the printer with minimal parentheses for every expression tree (precedence, left associativity), evaluation is ordinary integer arithmetic with floor division and division by zero a parser error; the emitted integer / boolean / string literals denote the value in the target language's literal grammar (escape is inverted by unescape for every string). Tie: real parser + renderers on generated expression texts and strings over the lexer alphabet; tables tied by the translator. Two defects repaired by fix: commits.",
    "C14": "Lean 4 theorem C14: for every frame (width 1..64, bit offset 0..7, signedness, neighbours) the Python and C models encode exactly the specification and decode back; the frame family is proved well-formed and the batch predicate tabulated. Tie: the full width x offset x signedness grid executed on the real Python and C runtimes and the -O code, boundary values -2^(n-1), -1, 0, 2^(n-1)-1, 2^n-1.",
    "C15": "Lean 4 theorems about the model of name composition (Names.defName: prefix + enclosing names + own name, joined by _, case-converted per language and kind): for style-conforming names, top-level definitions keep their schema name in C, Go and Python; nested ones are the enclosing names followed by their own at any depth (concatenated in C and for Go messages, joined by _ in Python and for Go enums); the C prefix contributes its PascalCase / upper-case form in front and changes nothing else. snake_case is not modelled: size-constant, enum-member and Go field names, file names and API function names are tied by correspondence (declared names in generated text, nm symbols, module attributes, CLI file names; prefix invariance by text comparison). One defect repaired.",
    "C16": "Lean 4 theorems about the JSON value model (Spec.json / Spec.ofJson): one key per field and nothing else, in ascending field-number order, every leaf stated with its value, and reading the JSON back yields the value (faithful) for every type tree. Tie: Spec.json vs the generated Python to_dict(), and the real Json<Msg>() C output / Python to_json() parsed by a strict JSON parser and compared with the values. json.dumps, asdict and vsprintf as libraries are outside the model. One defect repaired.",
    "C17": "Lean 4 theorems about the model of the CLI decision logic (Cli.main) and the -F filter: -O with an extensible marker, -O for a language without optimization mode and -F without -O are refused with no output; -F emits exactly the listed messages' functions, each identical to the unfiltered one, a sublist of the unfiltered output. Tie: Cli.main vs the real bitproto._main.main on an option grid, Cli.emitted vs real c -O -F output, and a CLI-level differential harness (exit status, stderr, files, function texts).",
    "C18": "Partial. A Lean function is deterministic by construction, so the theorems name what could make the compiler depend on history: conditional memoisation is transparent over any query history and any prior table satisfying the invariant, and generated files do not depend on the lint flag. Hash randomisation, id() reuse and process state are runtime effects no model can exhibit; they are executed by the correspondence: sha256 of all outputs across hash seeds, working directories, path spellings, -q, and one-process schedules (interleaved, repeated, kept trees, failing compiles in between).",
    "C19": "Lean 4 theorems about the Go runtime helpers regenerated from lib/go/bitproto.go by a Go-subset translator: getMask, getNbitsToCopy, smartShift, min, Bool2byte/Byte2bool equal the specification helpers (hence the Python ones) for all arguments; integer storage is the smallest of 8/16/32/64; the generated sign-extension pair is correct exactly when needed. Go cannot be compiled here: the generated Go is parsed structurally (field order, types, processors, constants) and compared with the Python output's description of the same messages, and the runtime helpers are evaluated with Go's precedence and byte wrap-around on their whole argument grid against the Python helpers.",
    "C20": "Lean 4 theorems about the lint rules as the linter states them (names are fixed points of pascal_case / satisfy isupper; an enum needs a 0 member): conforming names produce no warning, clearly violating ones do; lint never changes acceptance or output; check-only mode exits non-zero exactly on an error or a warning. Tie: the real rule classes vs the model on odd identifiers, Cli.main vs _main.main, and a CLI harness comparing warnings, exit status and the line / column of every definition and reference with positions computed from the source text. One known finding (column base on the first line).",
}
NOTE = {
    "C01": TRUST + "CPython integer / bytearray semantics as modelled (PyInt, PyOp); accessor dispatch of generated classes abstracted and tied by execution.",
    "C02": TRUST + "CPython semantics as modelled; hypothesis enumZero (outside it: KNOWN-FINDING KF-py-enum-default, replayed on the real code every run).",
    "C03": TRUST + "C semantics of the modelled subset (fixed-width unsigned arithmetic, byte arrays, type-punned word access on a little-endian host); documented usage (zeroed buffer and struct) as hypothesis; the C compiler itself (optimisation levels, TU layout) is executed as validation only.",
    "C04": TRUST + "item semantics per dialect written from the language definitions; Go -O code is never executed (no Go toolchain) — tied structurally by parsing generated statements into items.",
    "C05": TRUST + "as C02/C03; the evolution relation Evo is the documented one (append with larger numbers / grow capacity of extensible nodes).",
    "C06": TRUST + "big-endian host emulated (BP_BIG_ENDIAN build on byte-reversed storage): valid for the byte-moving code; a real big-endian CPU and its compiler are outside the model.",
    "C07": TRUST + "bounds are about modelled accesses; memory outside the modelled objects is observed by guard zones and an inaccessible page after the decode buffer (validation).",
    "C08": TRUST + "the abstract surface syntax (items with lines) printed by the harness' printer; lexer and PLY automaton outside the model (partial).",
    "C09": TRUST + "PLY and the renderers are not modelled; a hang is 20 s wall clock in a worker; three known findings of the unchanged tree (empty enum, constants beyond 4300 digits at render time, nesting deeper than about 490 levels).",
    "C10": TRUST + "gcc / g++ / CPython as oracles for acceptance; Go discipline checked statically (no toolchain); known findings listed in known_findings.json.",
    "C11": TRUST + "abstract surface syntax; the generator's own resolver as third opinion.",
    "C12": TRUST + "as C01/C03 for the executed side; rewrites are those of tools/props_c12.py.",
    "C13": TRUST + "literal grammars of C / Go / Python restricted to the common subset the compiler emits; PLY's LALR(1) conflict resolution assumed to be the precedence-climbing parser (tied by execution).",
    "C14": TRUST + "as C02/C03; the grid is finite for width/offset but the proof covers all neighbour values.",
    "C15": TRUST + "snake_case not modelled; style-guide names are letters-only in the correspondence.",
    "C16": TRUST + "json.dumps, dataclasses.asdict and vsprintf as libraries are outside the model.",
    "C17": TRUST + "World record (parser / linter / renderer answers) measured on the real components.",
    "C18": TRUST + "runtime effects (hashing, id(), dict order, process state) are outside any model: executed only.",
    "C19": TRUST + "Go-subset translator (expression functions only); Go integer semantics as modelled (GoOp); Go code is never executed.",
    "C20": TRUST + "snake_case not modelled (field-name rule tied by execution); one known finding (KF-col-first-line).",
}
TECH = {k: "Lean 4 proof + translator bridge + differential correspondence" for k in LEVEL_TEXT}
TECH.update({
    "C01": "Lean 4 proof (induction over type tree, Nat.testBit extensionality) + translator bridge + differential correspondence",
    "C05": "Lean 4 proof (refinement of a prefix-honouring decoder along an inductive evolution relation) + differential correspondence",
    "C09": "Lean 4 proof of fuel adequacy / checked-index totality (partial) + five-stream differential fuzzing as correspondence",
    "C10": "Lean 4 proof of emission discipline (partial) + toolchain acceptance as correspondence",
    "C18": "Lean 4 proof of memoisation transparency (partial) + environment-grid differential execution",
    "C19": "Lean 4 proof over helpers regenerated from Go source by a translator + structural parsing of generated Go",
})
NOT_YET = "not claimed yet: model and theorems for this property are still under construction (see DESIGN.md §10 staging); the technique applies"


def main() -> None:
    checks = []
    for pid in ALL:
        if pid not in registry.PROPS:
            continue
        checks.append({
            "property_id": pid,
            "quick_cmd": f"./check.sh {pid} quick",
            "thorough_cmd": f"./check.sh {pid} thorough",
            "evidence_file": f"evidence/{pid}.json",
            "replay_cmd_template": f"./check.sh {pid} --replay {{path}}",
            "engine": "lean4-bpmodel",
            "level_claimed": {"category": "proof", "text": LEVEL_TEXT.get(pid, ""), "design_ref": f"DESIGN.md §5 {pid}"},
            "level_note": NOTE.get(pid, ""),
            "technique": TECH.get(pid, "Lean 4 proof + checked correspondence"),
        })
    man = {
        "version": 1,
        "setup_cmd": "./setup.sh",
        "hooks": {
            "guard": "HIT9_BITPROTO_VERIF",
            "enable": "export HIT9_BITPROTO_VERIF=1 (set by check.sh; no hook is currently needed: every observable is reachable through public entry points)",
            "baseline_off_cmd": "cd /repo && env -u HIT9_BITPROTO_VERIF /venv/bin/python -m pytest -ra -q -p no:cacheprovider --timeout=900 --continue-on-collection-errors",
            "source_commits": [],
            "add_only": True,
        },
        "engines": [{
            "name": "lean4-bpmodel",
            "path": "lean/",
            "serves_properties": [c["property_id"] for c in checks],
            "kind_free_text": "Lean 4 model + theorems (lake project BpModel), native driver bpdrv, Python correspondence harness tools/",
        }],
        "checks": checks,
        "not_applicable": [{"property_id": p, "reason": NOT_YET} for p in ALL if p not in registry.PROPS],  # empty when every property is claimed
        "notes": "All checks: ./check.sh <id> quick|thorough. See DESIGN.md.",
    }
    with open(os.path.join(VERIF, "MANIFEST.json"), "w") as f:
        json.dump(man, f, indent=1)


if __name__ == "__main__":
    main()
