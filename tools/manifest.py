"""Writes MANIFEST.json from the registry (run after changing the set of claimed properties)."""
import json
import os

from . import registry
from .common import VERIF

ALL = [f"C{n:02d}" for n in range(1, 21)]

LEVEL_TEXT = {
    "C01": "Lean 4 theorems: the model of bp.py + generated accessors (PyRt.encode) returns exactly Spec.encode for every type tree and every value of its shape, with length, bit placement, zero padding, N = leaf widths + 16 per extensible node, ascending field order; model tied to /repo by regenerated helper definitions (bridge lemmas re-proved each run) and by executing the real generated Python against py.encode/spec.encode.",
}
NOTE = {
    "C01": "trusted: Lean kernel; axioms propext/Classical.choice/Quot.sound; translator; correspondence harness; CPython semantics as modelled; accessor dispatch abstracted (tied by execution).",
}
TECH = {
    "C01": "Lean 4 proof (induction over type tree, Nat.testBit extensionality) + translator bridge + differential correspondence",
}
NOT_YET = "not claimed yet: model and theorems for this property are still under construction (see DESIGN.md §10 staging); the technique applies"


def main() -> None:
    checks = []
    for pid in ALL:
        if pid not in registry.PROPS:
            continue
        checks.append({
            "property_id": pid,
            "quick_cmd": f"./check.sh {pid} quick",
            "thorough_cmd": f"./check.sh {pid} thorough",
            "evidence_file": f"evidence/{pid}.json",
            "replay_cmd_template": f"./check.sh {pid} --replay {{path}}",
            "engine": "lean4-bpmodel",
            "level_claimed": {"category": "proof", "text": LEVEL_TEXT.get(pid, ""), "design_ref": f"DESIGN.md §5 {pid}"},
            "level_note": NOTE.get(pid, ""),
            "technique": TECH.get(pid, "Lean 4 proof + checked correspondence"),
        })
    man = {
        "version": 1,
        "setup_cmd": "./setup.sh",
        "hooks": {
            "guard": "HIT9_BITPROTO_VERIF",
            "enable": "export HIT9_BITPROTO_VERIF=1 (set by check.sh; no hook is currently needed: every observable is reachable through public entry points)",
            "baseline_off_cmd": "cd /repo && env -u HIT9_BITPROTO_VERIF /venv/bin/python -m pytest -ra -q -p no:cacheprovider --timeout=900 --continue-on-collection-errors",
            "source_commits": [],
            "add_only": True,
        },
        "engines": [{
            "name": "lean4-bpmodel",
            "path": "lean/",
            "serves_properties": [c["property_id"] for c in checks],
            "kind_free_text": "Lean 4 model + theorems (lake project BpModel), native driver bpdrv, Python correspondence harness tools/",
        }],
        "checks": checks,
        "not_applicable": [{"property_id": p, "reason": NOT_YET} for p in ALL if p not in registry.PROPS],
        "notes": "All checks: ./check.sh <id> quick|thorough. See DESIGN.md.",
    }
    with open(os.path.join(VERIF, "MANIFEST.json"), "w") as f:
        json.dump(man, f, indent=1)


if __name__ == "__main__":
    main()
