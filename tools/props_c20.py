"""C20 - lint is advisory and diagnostics point at the right line.

What is compared with what
--------------------------
Programs (1-4 files, imports with/without `as`, files in sub-directories, imports placed in the
middle of a file, constants used as array capacities / in expressions / as option values, nested
messages and enums, dotted references) come from tools/gen.py and are printed by THIS module's own
printer, which records while printing - independently of the compiler - the line and the 0-based
offset of the name of every definition and of every reference, and the places where one more
statement could be inserted.  Name classes (conforming / clearly violating / grey) are this
module's own character-class predicates (DESIGN.md Appendix B.4).

 (a) advisory    CLI `<lang> main out [-O]` with and without `-q` (c, go, py): same exit status and
                 byte-identical set of generated files; conforming, name-perturbed and badly
                 indented variants, enums with the zero member at any position / values in any order.
 (b) clean       style-conforming layout (4 spaces per level; blank lines, comment lines, trailing
                 comments, `;`, CRLF as free variation) + conforming names + a zero member in every
                 enum  =>  `-c` prints no warning and no error and exits 0.
 (c) warns       name-perturbed variants (1 or several definitions of the main file renamed to a
                 clearly violating form, zero members removed): the multiset of (file, line, token)
                 of the warnings equals the multiset computed from the abstract schema.
 (d) right line  every warning of a randomly indented / packed layout cites (file, line, token) of a
                 definition that stands there; every single-violation invalid program (60+ kinds of
                 violating statement inserted at a random statement boundary of a random file of the
                 program, global / message / enum scope) is rejected with an error that cites the
                 file that contains the inserted statement and its line - with and without -q, with
                 -c and with a language.
 (e) positions   in-process parse(): every Alias/Constant/Enum/EnumField/Message/MessageField/Option
                 of every file reachable from main records lineno == line of its name, token == name,
                 filepath == its file and token_col_start == offset + base; every entry of
                 Proto.references likewise.  `base` is measured once (line >= 2 name of the witness).
                 Names on line 1 that are exactly one column short are the documented deviation
                 KF-col-first-line (witness replayed first; counted, not alarmed).
 (f) check exit  every `-c` run: exit != 0  <=>  stderr has an error or >= 1 warning; and by the
                 oracle: conforming => 0, perturbed => != 0, invalid => != 0.
"""
from __future__ import annotations

import concurrent.futures as CF
import contextlib
import copy
import io
import os
import random
import re
import shutil
import subprocess
from collections import Counter
from dataclasses import dataclass, field
from typing import Any, Callable, Dict, List, Optional, Tuple

from . import common
from . import gen as G
from . import real as R

PY = common.PY
LANGS = ("c", "go", "py")


def _env() -> Dict[str, str]:
    return {**os.environ, "PYTHONPATH": f"{common.REPO}/compiler:{common.REPO}/lib/py", "PYTHONDONTWRITEBYTECODE": "1"}


# ===================================================================== style classes (own oracle)
_SNAKE_OK = re.compile(r"^[a-z]+(_([a-z]+|[0-9]+))*$")
_PASCAL_OK = re.compile(r"^[A-Z][A-Za-z0-9]*$")
_UPPER_OK = re.compile(r"^[A-Z][A-Z0-9]*(_[A-Z0-9]+)*$")

PASCAL_KINDS = ("message", "enum", "alias")


def name_class(kind: str, n: str) -> str:
    """'ok' | 'bad' (clearly violates) | 'grey' (the property does not decide) | 'none' (no naming rule)"""
    if kind in PASCAL_KINDS:
        if n[0].islower() or "_" in n[1:-1]:
            return "bad"
        if _PASCAL_OK.match(n) and not (len(n) > 1 and n[1:].isupper()):
            return "ok"
        return "grey"
    if kind == "field":
        if any(c.isupper() for c in n):
            return "bad"
        return "ok" if _SNAKE_OK.match(n) else "grey"
    if kind in ("const", "member"):
        if any(c.islower() for c in n):
            return "bad"
        return "ok" if _UPPER_OK.match(n) else "grey"
    return "none"


# ===================================================================== layouts
@dataclass
class Layout:
    name: str = "conform"
    indent: str = "4"  # "4" = 4 spaces per nesting level, "rand" = anything
    pack: float = 0.0  # probability that the next statement stays on the same line
    pack_first: bool = False  # keep statements on line 1 (after `proto x`)
    blank: float = 0.25
    comment: float = 0.15
    trail: float = 0.1
    semi: float = 0.3
    eol: str = "\n"
    gap: float = 0.0  # extra blanks between tokens
    typedef: float = 0.0
    hexval: float = 0.1
    header: float = 0.3  # comment / blank lines before the proto statement
    final_newline: bool = True
    trailing_ws: float = 0.03


def layout_conform(rng: random.Random) -> Layout:
    return Layout(
        name="conform",
        blank=rng.choice([0.0, 0.2, 0.5]),
        comment=rng.choice([0.0, 0.15, 0.4]),
        trail=rng.choice([0.0, 0.1, 0.3]),
        semi=rng.choice([0.0, 0.3, 1.0]),
        eol="\r\n" if rng.random() < 0.12 else "\n",
        gap=rng.choice([0.0, 0.0, 0.05]),
        header=rng.choice([0.0, 0.3, 1.0]),
        final_newline=rng.random() < 0.9,
    )


def layout_lines(rng: random.Random) -> Layout:
    """one statement per line, arbitrary indentation (insertion slots stay meaningful)"""
    l = layout_conform(rng)
    l.name = "lines"
    l.indent = "rand"
    l.gap = rng.choice([0.0, 0.1, 0.3])
    return l


def layout_wild(rng: random.Random) -> Layout:
    l = layout_conform(rng)
    l.name = "wild"
    l.indent = "rand"
    l.pack = rng.choice([0.15, 0.4, 0.8])
    l.pack_first = rng.random() < 0.6
    l.gap = rng.choice([0.0, 0.1, 0.3])
    l.typedef = 0.2
    if l.pack_first:
        l.header = 0.0
    return l


COMMENTS = ["// note", "//", "// a \"quoted\" 'tick' { brace } [x] = 1;", "// http://example.com//x", "//// four",
            "// message Hidden { uint3 x = 1 }", "// back\\nslash n", "// enum E : uint3 {", "// }", "//\ttab"]


# ===================================================================== printer
@dataclass
class Slot:
    after: int  # the inserted statement becomes line after+1
    scope: str  # global | message | enum
    depth: int
    indent: str
    names: List[Tuple[str, str]]  # (kind, name) declared before in this scope
    nums: List[int]
    values: List[int]
    nbits: int
    globals_before: List[Tuple[str, str]]  # top-level (kind, name) of this file declared before
    imports_before: List[str]  # import path texts seen before


@dataclass
class Printed:
    rel: str
    lines: List[str]
    eol: str
    final_newline: bool
    defs: List[Tuple[str, str, int, int, Any]]  # kind, name, line, col0, abstract object
    refs: List[Tuple[str, int, int]]  # token, line, col0
    slots: List[Slot]

    def text(self, lines: Optional[List[str]] = None) -> str:
        ls = self.lines if lines is None else lines
        return self.eol.join(ls) + (self.eol if self.final_newline else "")


def const_kind(c: G.ConstDef) -> str:
    if isinstance(c.value, bool):
        return "const-bool"
    if isinstance(c.value, int):
        return "const-int"
    return "const-str"


class Printer:
    def __init__(self, rng: random.Random, lay: Layout, s: G.Schema, rel: str, paths: Dict[int, str]) -> None:
        self.r = rng
        self.lay = lay
        self.s = s
        self.rel = rel
        self.paths = paths
        self.lines: List[str] = []
        self.buf: Optional[str] = None
        self.defs: List[Tuple[str, str, int, int, Any]] = []
        self.refs: List[Tuple[str, int, int]] = []
        self.slots: List[Slot] = []
        self.ctx: List[Dict[str, Any]] = [{"scope": "global", "names": [], "nums": [], "values": [], "nbits": 0}]
        self.imports_seen: List[str] = []
        self.slot_ok = lay.pack == 0.0 and not lay.pack_first

    # ---- low level
    def _indent(self, depth: int) -> str:
        if self.lay.indent == "4":
            return "    " * depth
        k = self.r.random()
        if k < 0.3:
            return "    " * depth
        if k < 0.4:
            return "\t" * self.r.randint(0, 2)
        return " " * self.r.randint(0, 9)

    def _flush(self, depth: int) -> None:
        assert self.buf is not None
        if self.r.random() < self.lay.trailing_ws:
            self.buf += " " * self.r.randint(1, 3)
        self.lines.append(self.buf)
        self.buf = None
        self._slot(depth)

    def _slot(self, depth: int) -> None:
        if not self.slot_ok:
            return
        c = self.ctx[-1]
        self.slots.append(Slot(after=len(self.lines), scope=c["scope"], depth=depth, indent=self._indent(depth),
                               names=list(c["names"]), nums=list(c["nums"]), values=list(c["values"]), nbits=c["nbits"],
                               globals_before=list(self.ctx[0]["names"]), imports_before=list(self.imports_seen)))

    def _filler(self, depth: int) -> None:
        """blank / comment lines before a statement that starts a new line"""
        r = self.r
        while r.random() < self.lay.blank:
            self.lines.append(self._indent(depth) if r.random() < 0.1 else "")
        while r.random() < self.lay.comment:
            self.lines.append(self._indent(depth) + r.choice(COMMENTS))
            if r.random() < self.lay.blank:
                self.lines.append("")

    def _open(self, depth: int) -> None:
        if self.buf is None:
            self._filler(depth)
            self.buf = self._indent(depth)

    def _words(self, words: List[List[Tuple[str, Any]]]) -> None:
        r = self.r
        for i, w in enumerate(words):
            if i > 0:
                self.buf += " " if r.random() >= self.lay.gap else r.choice(["  ", "   ", " \t", "\t"])
            for j, (text, tag) in enumerate(w):
                if j > 0 and self.lay.gap and r.random() < self.lay.gap * 0.3:
                    self.buf += " "
                line, col = len(self.lines) + 1, len(self.buf)
                self.buf += text
                if tag is None:
                    continue
                if tag[0] == "def":
                    self.defs.append((tag[1], text, line, col, tag[2]))
                    self.ctx[-1]["names"].append((tag[1] if tag[1] != "const" else const_kind(tag[2]), text))
                elif tag[0] == "ref":
                    self.refs.append((text, line, col))

    def _stay(self) -> bool:
        if self.lay.pack_first and not self.lines:
            return self.r.random() < 0.85
        return self.r.random() < self.lay.pack

    def _end(self, depth: int, semi_ok: bool = True) -> None:
        r = self.r
        if semi_ok and r.random() < self.lay.semi:
            self.buf += ";" if r.random() >= self.lay.gap else " ;"
        if self._stay():
            self.buf += r.choice([" ", "  "])
            return
        if r.random() < self.lay.trail:
            self.buf += " " + r.choice(COMMENTS)
        self._flush(depth)

    def stmt(self, depth: int, words: List[List[Tuple[str, Any]]], semi_ok: bool = True) -> None:
        self._open(depth)
        self._words(words)
        self._end(depth, semi_ok)

    # ---- pieces
    def type_pieces(self, t: Any, frm: Optional[G.MsgDef]) -> List[Tuple[str, Any]]:
        if isinstance(t, G.TArray):
            inner = self.type_pieces(t.elem, frm)
            c = getattr(t, "cap_const", None)
            cap = (G.import_prefix(c) + c.name, ("ref",)) if c is not None else (str(t.cap), None)
            return inner + [("[", None), cap, ("]", None)] + ([("'", None)] if t.ext else [])
        if isinstance(t, G.TRef):
            return [(G.bp_ref(t.d, frm), ("ref",))]
        return [(G.type_text(t, frm), None)]

    def value_word(self, v: Any) -> List[Tuple[str, Any]]:
        if isinstance(v, G.ConstDef):
            return [(G.import_prefix(v) + v.name, ("ref",))]
        return [(G.lit_text(v), None)]

    def int_text(self, v: int) -> str:
        return hex(v) if self.r.random() < self.lay.hexval else str(v)

    # ---- definitions
    def option(self, depth: int, on: str, ov: Any) -> None:
        self.stmt(depth, [[("option", None)], [(on, ("def", "option", None))], [("=", None)], self.value_word(ov)])

    def definition(self, d: Any, depth: int) -> None:
        r = self.r
        if isinstance(d, G.ConstDef):
            pieces = getattr(d, "expr_words", None)
            if pieces is None:
                if d.expr is not None:
                    pieces = [[(d.expr, None)]]
                elif isinstance(d.value, int) and not isinstance(d.value, bool):
                    pieces = [[(self.int_text(d.value), None)]]
                else:
                    pieces = [[(G.lit_text(d.value), None)]]
            else:
                pieces = [[(G.import_prefix(x) + x.name, ("ref",))] if isinstance(x, G.ConstDef) else [(x, None)] for x in pieces]
            self.stmt(depth, [[("const", None)], [(d.name, ("def", "const", d))], [("=", None)]] + pieces)
        elif isinstance(d, G.AliasDef):
            tp = self.type_pieces(d.type, d.parent)
            if r.random() < self.lay.typedef:
                self.stmt(depth, [[("typedef", None)], tp, [(d.name, ("def", "alias", d))]])
            else:
                self.stmt(depth, [[("type", None)], [(d.name, ("def", "alias", d))], [("=", None)], tp])
        elif isinstance(d, G.EnumDef):
            self._open(depth)
            self._words([[("enum", None)], [(d.name, ("def", "enum", d))], [(":", None)], [(f"uint{d.nbits}", None)], [("{", None)]])
            self.ctx.append({"scope": "enum", "names": [], "nums": [], "values": [], "nbits": d.nbits})
            self._after_open(depth + 1)
            for (n, v) in d.members:
                self._open(depth + 1)
                self._words([[(n, ("def", "member", d))], [("=", None)], [(self.int_text(v), None)]])
                self.ctx[-1]["values"].append(v)
                self._end(depth + 1)
            self._close(depth)
        elif isinstance(d, G.MsgDef):
            self._open(depth)
            head = [(d.name, ("def", "message", d))] + ([("'", None)] if d.ext else [])
            self._words([[("message", None)], head, [("{", None)]])
            self.ctx.append({"scope": "message", "names": [], "nums": [], "values": [], "nbits": 0})
            self._after_open(depth + 1)
            for (on, ov) in getattr(d, "options", []):
                self.option(depth + 1, on, ov)
            for n in d.nested:
                self.definition(n, depth + 1)
            for f in d.fields:
                self._open(depth + 1)
                self._words([self.type_pieces(f.type, d), [(f.name, ("def", "field", f))], [("=", None)], [(str(f.num), None)]])
                self.ctx[-1]["nums"].append(f.num)
                self._end(depth + 1)
            self._close(depth)
        else:
            raise TypeError(d)

    def _after_open(self, depth: int) -> None:
        if self._stay():
            self.buf += " "
        else:
            if self.r.random() < self.lay.trail:
                self.buf += " " + self.r.choice(COMMENTS)
            self._flush(depth)

    def _close(self, depth: int) -> None:
        if self.buf is None:
            self._filler(depth + 1) if self.r.random() < 0.3 else None
            self.buf = self._indent(depth)
        self.buf += "}"
        self.ctx.pop()
        self._end(depth, semi_ok=False)

    # ---- file
    def items(self) -> List[Tuple[str, Any]]:
        """top-level items in a valid random order: imports before their first use (possibly in
        the middle of the file), options after the constants they reference"""
        r = self.r
        s = self.s
        items: List[Tuple[str, Any]] = [("def", d) for d in s.defs]

        def uses(d: Any, f: G.Schema) -> bool:
            if isinstance(d, G.ConstDef):
                return any(isinstance(x, G.ConstDef) and getattr(x, "home", None) is f for x in (getattr(d, "expr_words", None) or []))
            for t in G._all_types(G.Schema("x", [d])):
                if isinstance(t, G.TRef) and getattr(t.d, "home", None) is f:
                    return True
                c = getattr(t, "cap_const", None)
                if c is not None and getattr(c, "home", None) is f:
                    return True
            return False

        for (imp, as_name) in reversed(s.imports):
            first = len(items)
            for k, (kind, d) in enumerate(items):
                if kind == "def" and uses(d, imp):
                    first = k
                    break
                if kind == "option" and isinstance(d[1], G.ConstDef) and getattr(d[1], "home", None) is imp:
                    first = k
                    break
            pos = 0 if r.random() < 0.5 else r.randint(0, first)
            items.insert(pos, ("import", (imp, as_name)))
        for (on, ov) in s.options:
            lo = 0
            if isinstance(ov, G.ConstDef):
                for k, (kind, d) in enumerate(items):
                    if (kind == "def" and d is ov) or (kind == "import" and d[0] is getattr(ov, "home", None) and ov.home is not s):
                        lo = k + 1
            first_def = next((k for k, (kind, _) in enumerate(items) if kind == "def"), len(items))
            pos = max(lo, first_def if r.random() < 0.6 else r.randint(0, len(items)))
            items.insert(pos, ("option", (on, ov)))
        return items

    def run(self) -> Printed:
        r = self.r
        G.PRINT_CTX["schema"] = self.s
        try:
            if r.random() < self.lay.header:
                for _ in range(r.randint(1, 3)):
                    self.lines.append(r.choice(COMMENTS + [""]))
            self.buf = ""
            self._words([[("proto", None)], [(self.s.proto, None)]])
            self._end(0)
            for (kind, x) in self.items():
                if kind == "import":
                    imp, as_name = x
                    path = os.path.relpath(self.paths[id(imp)], os.path.dirname(self.rel) or ".")
                    if r.random() < 0.15 and not path.startswith("."):
                        path = "./" + path
                    w = [[("import", None)]] + ([[(as_name, None)]] if as_name else []) + [[(f'"{path}"', None)]]
                    self.stmt(0, w)
                    self.imports_seen.append(path)
                    self.ctx[0]["names"].append(("import", as_name or imp.proto))
                elif kind == "option":
                    self.option(0, x[0], x[1])
                else:
                    self.definition(x, 0)
            if self.buf is not None:
                self.lines.append(self.buf)
                self.buf = None
            fin = self.lay.final_newline or self.lines[-1].lstrip().startswith("//") or "//" in self.lines[-1]
            return Printed(self.rel, self.lines, self.lay.eol, fin, self.defs, self.refs, self.slots)
        finally:
            G.PRINT_CTX["schema"] = None


def print_program(rng: random.Random, main: G.Schema, lay_of: Callable[[G.Schema], Layout], paths: Dict[int, str]) -> Dict[str, Printed]:
    out: Dict[str, Printed] = {}
    for f in main.all_files():
        rel = paths[id(f)]
        out[rel] = Printer(rng, lay_of(f), f, rel, paths).run()
    return out


# ===================================================================== program preparation
def all_defs(s: G.Schema) -> List[Any]:
    out: List[Any] = []

    def walk(d: Any) -> None:
        out.append(d)
        if isinstance(d, G.MsgDef):
            for n in d.nested:
                walk(n)

    for d in s.defs:
        walk(d)
    return out


def link_consts(main: G.Schema) -> None:
    for f in main.all_files():
        byname = {d.name: d for d in f.defs if isinstance(d, G.ConstDef)}
        for t in G._all_types(f):
            ct = getattr(t, "cap_text", None)
            if ct is not None and ct in byname:
                t.cap_const = byname[ct]


def ensure_zero(rng: random.Random, main: G.Schema) -> None:
    """style guide: every enum has a member 0 - at a random position"""
    for f in main.all_files():
        for d in all_defs(f):
            if isinstance(d, G.EnumDef) and all(v != 0 for _, v in d.members):
                k = rng.randrange(len(d.members))
                d.members[k] = (d.members[k][0], 0)


def enrich(rng: random.Random, main: G.Schema) -> None:
    """more reference sites: constants defined by expressions over earlier (also imported) integer
    constants, imported constants as array capacities, an option whose value is a constant,
    string constants with escapes."""
    r = rng
    for f in main.all_files():
        idx = main.all_files().index(f)
        local_ints = [d for d in f.defs if isinstance(d, G.ConstDef) and const_kind(d) == "const-int"]
        imported_ints = [d for (imp, _) in f.imports for d in imp.defs if isinstance(d, G.ConstDef) and const_kind(d) == "const-int"]
        new: List[G.ConstDef] = []
        for k in range(r.choice([0, 0, 1, 2])):
            pool = local_ints + imported_ints + [x for x in new if const_kind(x) == "const-int"]
            nm = f"X{idx}_EXPR_{'ABC'[k]}"
            if pool and r.random() < 0.8:
                a = r.choice(pool)
                b = r.choice(pool)
                form = r.randrange(4)
                if form == 0:
                    c = G.ConstDef(nm, a.value * 2 + 1)
                    c.expr_words = [a, "*", "2", "+", "1"]
                elif form == 1:
                    c = G.ConstDef(nm, (a.value + b.value) // 2)
                    c.expr_words = ["(", a, "+", b, ")", "/", "2"]
                elif form == 2:
                    c = G.ConstDef(nm, a.value)
                    c.expr_words = [a]
                else:
                    c = G.ConstDef(nm, 3 + a.value * b.value)
                    c.expr_words = ["0x3", "+", a, "*", b]
            else:
                v = r.choice(["line1\nline2", "tab\there", 'q"uote', "back\\slash", "a//b", "two\n\nnewlines\n"])
                c = G.ConstDef(nm, v)
            c.home = f
            new.append(c)
        # constants stay first (they may be referenced by everything below)
        ncon = len([d for d in f.defs if isinstance(d, G.ConstDef)])
        f.defs = f.defs[:ncon] + new + f.defs[ncon:]
        ints = [d for d in f.defs if isinstance(d, G.ConstDef) and const_kind(d) == "const-int" and 0 < d.value <= 64]
        for m in f.messages():
            for fl in m.fields:
                t = fl.type
                if isinstance(t, G.TArray) and getattr(t, "cap_const", None) is None and r.random() < 0.25:
                    cands = [c for c in ints + imported_ints if 0 < c.value <= 64]
                    if cands:
                        c = r.choice(cands)
                        old = t.cap
                        t.cap = c.value
                        t.cap_const = c
                        if G.msg_nbits(m) > 4000:
                            t.cap = old
                            t.cap_const = None
        small = [d for d in f.defs if isinstance(d, G.ConstDef) and const_kind(d) == "const-int" and 0 <= d.value <= 8]
        if small and r.random() < 0.3 and not any(on == "c.struct_packing_alignment" for on, _ in f.options):
            f.options.append(("c.struct_packing_alignment", r.choice(small)))


class Namer:
    """conforming names of other shapes than the generator's (single letters, digits, `type`)"""

    def __init__(self, rng: random.Random) -> None:
        self.r = rng
        self.c = 0

    def next(self, kind: str) -> str:
        self.c += 1
        c = self.c
        A = chr(65 + c % 26)
        a = chr(97 + c % 26)
        b = chr(97 + (c * 7) % 26)
        if kind in PASCAL_KINDS:
            return self.r.choice([f"{A}{c}", f"{A}{b}{c}{b}", f"{A}{b}X{b}{c}", f"Http{A}{b}Req{c}", f"{A}{b}{A}{c}"])
        if kind == "field":
            return self.r.choice([f"{a}_{c}", f"{a}{b}_{c}_{b}", f"{a}_{b}_{c}", f"{a}{b}{a}_{c}"])
        return self.r.choice([f"{A}{c}", f"{A}_{c}_{A}", f"{A}{A}_{c}", f"MAX_{A}_{c}"])


def diversify(rng: random.Random, main: G.Schema) -> None:
    nm = Namer(rng)
    for f in main.all_files():
        for d in all_defs(f):
            if isinstance(d, G.MsgDef):
                if rng.random() < 0.2:
                    d.name = nm.next("message")
                for fl in d.fields:
                    if rng.random() < 0.15:
                        fl.name = nm.next("field")
                if d.fields and rng.random() < 0.1:
                    rng.choice(d.fields).name = "type"
            elif isinstance(d, G.EnumDef):
                if rng.random() < 0.2:
                    d.name = nm.next("enum")
                d.members = [((nm.next("member") if rng.random() < 0.15 else n), v) for n, v in d.members]
            elif isinstance(d, G.AliasDef):
                if rng.random() < 0.2:
                    d.name = nm.next("alias")
            elif isinstance(d, G.ConstDef):
                if rng.random() < 0.2:
                    d.name = nm.next("const")
        # single capital letters are the shortest PascalCase / UPPER_CASE names
        tops = [d for d in f.defs if isinstance(d, (G.MsgDef, G.EnumDef, G.AliasDef, G.ConstDef))]
        if tops and rng.random() < 0.25:
            rng.choice(tops).name = "QRSTUVW"[main.all_files().index(f) % 7]


def refresh_max_bytes(rng: random.Random, main: G.Schema) -> None:
    """enrich() changes array capacities: keep the generator's max_bytes options satisfiable"""
    for f in main.all_files():
        for m in f.messages():
            opts = getattr(m, "options", None)
            if opts:
                m.options = [(on, ((G.msg_nbits(m) + 7) // 8 + rng.randint(0, 3)) if on == "max_bytes" else ov) for (on, ov) in opts]


def unique_import_names(main: G.Schema) -> None:
    """ProgramGen may give two imports of one file the same `as` name: make them distinct"""
    for f in main.all_files():
        seen = {d.name for d in f.defs}
        for i, (imp, as_name) in enumerate(f.imports):
            vis = as_name or imp.proto
            if vis in seen:
                vis = f"{vis}x{i}"
                f.imports[i] = (imp, vis)
            seen.add(vis)


def make_program(rng: random.Random, allow_ext: bool) -> G.Schema:
    go = G.GenOpts(max_bits=1200, big_prob=0.0, allow_ext=allow_ext, max_fields=5)
    main = G.ProgramGen(rng, G.ProgOpts(n_imports=(0, 3), gen=go)).program()
    unique_import_names(main)
    link_consts(main)
    enrich(rng, main)
    refresh_max_bytes(rng, main)
    diversify(rng, main)
    ensure_zero(rng, main)
    return main


def assign_paths(rng: random.Random, main: G.Schema) -> Dict[int, str]:
    paths: Dict[int, str] = {}
    for f in main.all_files():
        d = rng.choice(["", "", "", "sub", "sub/deep", "other"])
        paths[id(f)] = os.path.join(d, f.base() + ".bitproto")
    return paths


# ---------------------------------------------------------------- perturbation
def bad_name(rng: random.Random, kind: str, n: str) -> Tuple[str, str]:
    r = rng
    if kind in PASCAL_KINDS:
        how = r.choice(["lower_first", "inner_us", "snake"]) if len(n) >= 2 else "lower_first"
        if how == "lower_first":
            return n[0].lower() + n[1:], how
        if how == "inner_us":
            k = r.randint(1, len(n) - 1)
            return n[:k] + "_" + n[k:], how
        k = r.randint(1, len(n) - 1)
        return (n[:k] + "_" + n[k:]).lower(), how
    if kind == "field":
        letters = [i for i, c in enumerate(n) if c.isalpha()]
        how = r.choice(["upper_first", "one_upper", "all_upper", "camel_tail"])
        if how == "upper_first":
            return n[0].upper() + n[1:], how
        if how == "one_upper":
            i = r.choice(letters)
            return n[:i] + n[i].upper() + n[i + 1:], how
        if how == "all_upper":
            return n.upper(), how
        return n + "Xy", how
    letters = [i for i, c in enumerate(n) if c.isalpha()]
    how = r.choice(["all_lower", "one_lower", "capitalized"])
    if how == "all_lower":
        return n.lower(), how
    if how == "one_lower":
        i = r.choice(letters)
        return n[:i] + n[i].lower() + n[i + 1:], how
    return n[0] + n[1:].lower() if len(n) > 1 and any(c.isalpha() for c in n[1:]) else n.lower(), how


RESERVED = {"proto", "import", "option", "type", "const", "enum", "message", "typedef", "bool", "byte", "true", "false", "yes", "no"}


def perturb(rng: random.Random, main: G.Schema, n: int) -> List[str]:
    """rename n definitions of the MAIN file to clearly violating names / drop zero members;
    references follow because the printer prints names from the objects"""
    targets: List[Tuple[str, Any, Any]] = []
    nested_fields: set = set()
    for d in all_defs(main):
        if isinstance(d, G.MsgDef):
            targets.append(("message", d, None))
            targets += [("field", fl, None) for fl in d.fields]
            if d.parent is not None:
                nested_fields |= {id(fl) for fl in d.fields}
        elif isinstance(d, G.EnumDef):
            targets.append(("enum", d, None))
            targets += [("member", d, n) for (n, _) in d.members]
            targets.append(("zero", d, None))
        elif isinstance(d, G.AliasDef):
            targets.append(("alias", d, None))
        elif isinstance(d, G.ConstDef):
            targets.append(("const", d, None))
    # balance the kinds (fields dominate otherwise)
    bykind: Dict[str, List[Tuple[str, Any, Any]]] = {}
    for t in targets:
        bykind.setdefault(t[0], []).append(t)
    done: List[str] = []
    used: set = set()
    for _ in range(n):
        if not bykind:
            break
        kind = rng.choice(sorted(bykind))
        nested = [t for t in bykind[kind] if getattr(t[1], "parent", None) is not None or id(t[1]) in nested_fields]
        t = rng.choice(nested if (nested and rng.random() < 0.5) else bykind[kind])
        key = (kind, id(t[1]), t[2])
        if key in used:
            continue
        used.add(key)
        _, d, k = t
        if kind == "zero":
            lim = 2 ** d.nbits
            taken = {v for _, v in d.members}
            free = [v for v in (1, 2, 3, lim - 1, lim // 2, 5, 6, 7) if 0 < v < lim and v not in taken]
            zi = next((i for i, (_, v) in enumerate(d.members) if v == 0), None)
            if zi is None:
                continue
            if len(d.members) > 1 and (rng.random() < 0.5 or not free):
                d.members.pop(zi)
                done.append("zero:removed")
            elif free:
                d.members[zi] = (d.members[zi][0], free[0])
                done.append("zero:renumbered")
            continue
        if kind == "member":
            old = k
            at = [i for i, (nn, _) in enumerate(d.members) if nn == old]
            new, how = bad_name(rng, "member", old)
            if not at or new == old or new in RESERVED or any(nn == new for nn, _ in d.members):
                continue
            d.members[at[0]] = (new, d.members[at[0]][1])
        else:
            new, how = bad_name(rng, kind, d.name)
            if new == d.name or new in RESERVED or name_class(kind, new) != "bad":
                continue
            d.name = new
        done.append(f"{kind}:{how}")
    return done


def expected_warnings(pm: Printed) -> Tuple[Counter, bool]:
    """multiset of (line, token) of the warnings the property demands for the main file; and whether
    some name is in the grey zone"""
    exp: Counter = Counter()
    grey = False
    for (kind, name, line, _col, obj) in pm.defs:
        c = name_class(kind, name)
        if c == "bad":
            exp[(line, name)] += 1
        elif c == "grey":
            grey = True
        if kind == "enum" and all(v != 0 for _, v in obj.members):
            exp[(line, name)] += 1
    return exp, grey


# ===================================================================== CLI
ANSI = re.compile(r"\x1b\[[0-9;]*m")
DIAG = re.compile(r"^(error|warning):\s+(?:(\S+):)?L(\d+) (.*)$")


def run_cli(cwd: str, argv: List[str]) -> Dict[str, Any]:
    p = subprocess.run([PY, "-m", "bitproto._main"] + argv, env=_env(), capture_output=True, text=True, cwd=cwd)
    return {"rc": p.returncode, "err": p.stderr, "out": p.stdout}


def diagnostics(cwd: str, err: str) -> Tuple[List[Tuple[Optional[str], int, str]], List[Tuple[Optional[str], int, str]], List[str]]:
    """(errors, warnings, other lines); each diagnostic = (absolute normalised path | None, line, rest)"""
    errors, warnings, other = [], [], []
    for raw in err.split("\n"):
        l = ANSI.sub("", raw).rstrip("\r")
        if not l.strip():
            continue
        m = DIAG.match(l)
        if m:
            path = os.path.realpath(os.path.join(cwd, m.group(2))) if m.group(2) else None
            (errors if m.group(1) == "error" else warnings).append((path, int(m.group(3)), m.group(4)))
        elif l.startswith("error:"):
            errors.append((None, -1, l))
        elif l.startswith("warning:"):
            warnings.append((None, -1, l))
        else:
            other.append(l)
    return errors, warnings, other


def tree_bytes(d: str) -> Dict[str, str]:
    out: Dict[str, str] = {}
    for root, _, files in os.walk(d):
        for fn in files:
            p = os.path.join(root, fn)
            with open(p, "rb") as f:
                out[os.path.relpath(p, d)] = f.read().decode("utf-8", "replace")
    return out


def write_files(base: str, files: Dict[str, str]) -> None:
    for rel, text in files.items():
        p = os.path.join(base, rel)
        os.makedirs(os.path.dirname(p), exist_ok=True)
        with open(p, "w", newline="") as f:
            f.write(text)


def main_arg(rng: random.Random, base: str, rel: str) -> str:
    k = rng.random()
    if k < 0.7:
        return rel
    if k < 0.85:
        return "./" + rel
    return os.path.join(base, rel)


# ===================================================================== (e) in-process positions
KIND_OF = {"Alias": "alias", "IntegerConstant": "const", "BooleanConstant": "const", "StringConstant": "const", "Enum": "enum",
           "EnumField": "member", "Message": "message", "MessageField": "field", "IntegerOption": "option",
           "BooleanOption": "option", "StringOption": "option"}


def collect_real(proto: Any) -> List[Tuple[str, List[Tuple[str, str, int, int, str, str]], List[Tuple[str, int, int, str]]]]:
    """[(file, definitions (kind, member name, lineno, col, token, filepath), references (token, lineno, col, filepath))]
    for the proto and every imported proto object below it"""
    from bitproto._ast import Proto, Scope

    out = []

    def one(p: Any) -> None:
        defs: List[Tuple[str, str, int, int, str, str]] = []

        def walk(scope: Any) -> None:
            for name, m in scope.members.items():
                if isinstance(m, Proto):
                    one(m)
                    continue
                kind = KIND_OF.get(type(m).__name__)
                if kind is not None:
                    defs.append((kind, name, m.lineno, m.token_col_start, m.token, m.filepath))
                if isinstance(m, Scope):
                    walk(m)

        walk(p)
        refs = [(x.token, x.lineno, x.token_col_start, x.filepath) for x in p.references]
        out.append((p.filepath, defs, refs))

    one(proto)
    return out


class ColBase:
    """column convention measured on the witness: base = recorded - offset on lines >= 2"""

    def __init__(self) -> None:
        self.base = 1
        self.kf_first_line = False


def replay_kf(run: common.Run, sc: R.Scratch) -> ColBase:
    cb = ColBase()
    text = "proto w; const A = 1\nconst B = 2\n  message M { uint3 x = 1 }\n"
    path = sc.write("kf/w.bitproto", text)
    try:
        with contextlib.redirect_stderr(io.StringIO()):
            proto = R.parse_file(path)
        m = proto.members
        a, b, x = m["A"], m["B"], m["M"].members["x"]
        base = b.token_col_start - 6
        base2 = x.token_col_start - text.split("\n")[2].index("x")
        if base != base2 or base not in (0, 1):
            run.violation({"kind": "impl-vs-spec", "input": {"files": {"w.bitproto": text}, "api": "parse"},
                           "expected_by_spec": "one column convention (offset + 0 or offset + 1) on every line",
                           "observed_impl": {"B": b.token_col_start, "x": x.token_col_start}})
            base = 1
        cb.base = base
        da = a.token_col_start - text.index("A")
        if da == base - 1:
            cb.kf_first_line = True
            run.known_finding(
                f"names on the first line of a file record a column one too small: `proto w; const A = 1` records column {a.token_col_start} for A "
                f"(offset {text.index('A')}) while line 2 `const B = 2` records {b.token_col_start} for B (offset 6) - parser._get_col clamps the "
                f"missing newline to 0 instead of -1 [KF-col-first-line]")
        elif da == base:
            run.notes["KF-col-first-line"] = "witness no longer fails (first-line names use the same column base as other lines)"
        else:
            run.violation({"kind": "impl-vs-spec", "input": {"files": {"w.bitproto": text}, "api": "parse"},
                           "expected_by_spec": {"A.col": text.index("A") + base}, "observed_impl": {"A.col": a.token_col_start}})
    except Exception as e:  # witness file must parse
        run.notes["KF-col-first-line"] = f"witness did not parse: {type(e).__name__}: {e}"
    return cb


def check_positions(run: common.Run, cb: ColBase, base_dir: str, printed: Dict[str, Printed], main_rel: str,
                    files: Dict[str, str], tag: str) -> None:
    run.evaluated()
    path = os.path.join(base_dir, main_rel)
    try:
        with contextlib.redirect_stderr(io.StringIO()):
            proto = R.parse_file(path)
    except Exception as e:
        run.count(f"positions.skipped_not_accepted.{tag}")
        if len(run.notes.setdefault("positions_not_accepted", [])) < 10:
            run.notes["positions_not_accepted"].append({"error": f"{type(e).__name__}: {e}"[:300], "layout": tag})
        return
    run.count(f"positions.programs.{tag}")
    real = collect_real(proto)
    seen_files = set()
    problems: List[Dict[str, Any]] = []
    kf_hits = 0
    for (fp, defs, refs) in real:
        rel = os.path.relpath(os.path.realpath(fp), os.path.realpath(base_dir))
        pr = printed.get(rel)
        if pr is None:
            problems.append({"what": "proto with unknown filepath", "filepath": fp})
            continue
        seen_files.add(rel)
        for (label, exp_list, got_list) in (
            ("definition", [((k, n), ln, c) for (k, n, ln, c, _) in pr.defs], [((k, n), ln, c, tok, f) for (k, n, ln, c, tok, f) in defs]),
            ("reference", [((t,), ln, c) for (t, ln, c) in pr.refs], [((t,), ln, c, t, f) for (t, ln, c, f) in refs]),
        ):
            exp_by: Dict[Any, List[Tuple[int, int]]] = {}
            for key, ln, c in exp_list:
                exp_by.setdefault(key, []).append((ln, c))
            got_by: Dict[Any, List[Tuple[int, int]]] = {}
            for key, ln, c, tok, f in got_list:
                got_by.setdefault(key, []).append((ln, c))
                if tok != key[-1]:
                    problems.append({"what": f"{label} token differs from its name", "name": key, "token": tok, "file": rel})
                if os.path.realpath(f) != os.path.realpath(os.path.join(base_dir, rel)):
                    problems.append({"what": f"{label} records another file", "name": key, "recorded": f, "file": rel})
            for key in sorted(set(exp_by) | set(got_by), key=str):
                e = sorted(exp_by.get(key, []))
                g = sorted(got_by.get(key, []))
                if len(e) != len(g):
                    problems.append({"what": f"{label} count", "name": key, "file": rel, "expected": e, "recorded": g})
                    continue
                for (eln, ec), (gln, gc) in zip(e, g):
                    run.count(f"positions.{label}s")
                    if gln != eln:
                        problems.append({"what": f"{label} line", "name": key, "file": rel, "expected_line": eln, "recorded_line": gln})
                    elif gc == ec + cb.base:
                        if eln == 1:
                            run.count("positions.first_line_names_ok")
                    elif eln == 1 and cb.kf_first_line and gc == ec + cb.base - 1:
                        kf_hits += 1
                    else:
                        problems.append({"what": f"{label} column", "name": key, "file": rel, "line": eln,
                                         "expected_col": ec + cb.base, "recorded_col": gc, "offset_in_line": ec})
    if kf_hits:
        run.count("positions.first_line_names_routed_to_KF-col-first-line", kf_hits)
    feats = (tag, len(printed), len(seen_files), any("." in t for pr in printed.values() for (t, _, _) in pr.refs),
             min(9, sum(len(pr.refs) for pr in printed.values())), any(ln == 1 for pr in printed.values() for (_, _, ln, _, _) in pr.defs),
             max((pr.defs[-1][2] if pr.defs else 0) for pr in printed.values()) // 10)
    run.nontrivial(("positions",) + feats)
    if problems:
        run.violation({"kind": "impl-vs-spec", "input": {"files": files, "api": f"bitproto.parser.parse({main_rel!r})"},
                       "expected_by_spec": "every definition and reference records the line and column (offset + %d) of its name" % cb.base,
                       "observed_impl": problems[:8], "layout": tag, "part": "e"})


# ===================================================================== (d) violations to insert
def fresh_num(slot: Slot, rng: random.Random) -> Optional[int]:
    free = [n for n in range(1, 256) if n not in slot.nums]
    return rng.choice(free) if free else None


ONE_LINE_MESSAGES = [
    ("field-number-0", "message BadM { uint3 a = 0 }"),
    ("field-number-256", "message BadM { uint3 a = 256 }"),
    ("dup-field-number", "message BadM { uint3 a = 1; uint4 b = 1 }"),
    ("dup-field-name", "message BadM { uint3 a = 1; uint4 a = 2 }"),
    ("max-bytes-overflow", "message BadM { option max_bytes = 1; uint64 a = 1 }"),
    ("message-too-large", "message BadM { uint64[1024] a = 1 }"),
    ("alias-in-message", "message BadM { type BadAl = uint3 }"),
    ("const-in-message", "message BadM { const BAD_C = 1 }"),
    ("proto-in-message", "message BadM { proto bad }"),
    ("uint65-field", "message BadM { uint65 a = 1 }"),
    ("int0-field", "message BadM { int0 a = 1 }"),
    ("unknown-message-option", "message BadM { option nosuch = 1 }"),
    ("message-without-name", "message { }"),
    ("keyword-as-name", "message enum { }"),
]
ONE_LINE_ENUMS = [
    ("enum-overflow", "enum BadE : uint2 { BAD_A = 4 }"),
    ("enum-dup-value", "enum BadE : uint3 { BAD_A = 1; BAD_B = 1 }"),
    ("enum-dup-name", "enum BadE : uint3 { BAD_A = 1; BAD_A = 2 }"),
    ("enum-signed-type", "enum BadE : int3 { BAD_A = 1 }"),
    ("enum-negative", "enum BadE : uint3 { BAD_A = -1 }"),
    ("enum-uint65", "enum BadE : uint65 { BAD_A = 1 }"),
    ("alias-in-enum", "enum BadE : uint3 { type BadAl = uint3 }"),
    ("field-in-enum", "enum BadE : uint3 { uint3 x = 1 }"),
    ("message-in-enum", "enum BadE : uint3 { message BadIn { } }"),
    ("enum-in-enum", "enum BadE : uint3 { enum BadIn : uint2 { } }"),
    ("option-in-enum", "enum BadE : uint3 { option a = 1 }"),
    ("const-in-enum", "enum BadE : uint3 { const BAD_C = 1 }"),
    ("enum-without-type", "enum BadE { BAD_A = 1 }"),
]
STRAY = ["@", "#", "$", "!", "?", "~", "|", "&", "%", "^", ",", "<", ">", "`", '"unterminated']


STORED_NODE_KINDS = {
    "dup-definition", "dup-field-number", "dup-field-name", "enum-dup-value", "enum-dup-name", "enum-overflow", "max-bytes-overflow",
    "message-too-large", "alias-of-named-type", "alias-in-enum", "const-in-enum", "option-in-enum", "enum-in-enum", "message-in-enum",
    "field-in-enum", "import-in-enum", "alias-in-message", "const-in-message", "import-in-message", "import-name-taken", "duplicated-import",
    "cyclic-import", "unknown-option", "option-type", "option-value", "field-number-range", "field-number-0", "field-number-256", "array-cap",
    "bad-width", "bad-width-array", "non-integer-array-cap", "unknown-message-option",
}


def make_violation(rng: random.Random, slot: Slot, self_path: str, extra_path: str, trad: bool) -> Optional[Tuple[str, str]]:
    """(kind, statement text) of ONE violating statement that fits the slot's scope; everything it
    needs stands on its own line"""
    r = rng
    types_before = [n for (k, n) in slot.globals_before if k in ("message", "enum", "alias")]
    ints_before = [n for (k, n) in slot.globals_before if k == "const-int"]
    nonints_before = [n for (k, n) in slot.globals_before if k in ("const-str", "const-bool")]
    badw = r.choice(["uint65", "uint0", "int65", "int0", "uint100", "int999"])
    cands: List[Tuple[str, str]] = []
    if slot.scope == "global":
        cands += [
            ("bad-width", f"type BadAl = {badw}"),
            ("bad-width-array", f"type BadAl = {badw}[3]"),
            ("undefined-type", "type BadAl = " + r.choice(["NoSuchType", "nosuch.Thing", "NoSuch.Inner[2]"])),
            ("bad-escape", 'const BAD_C = "x\\' + r.choice("qzx0-u ") + 'y"'),
            ("stray-char", r.choice([f"const BAD_C = 1 {r.choice(STRAY)}", r.choice(STRAY), f"type BadAl = uint3 {r.choice(STRAY)}"])),
            ("undefined-constant", r.choice(["const BAD_C = NO_SUCH + 1", "const BAD_C = NO_SUCH", "type BadAl = uint3[NO_SUCH]", "const BAD_C = 2 * (nosuch.K + 1)"])),
            ("division-by-zero", r.choice(["const BAD_C = 4 / 0", "const BAD_C = 8 / (2 - 2)", "const BAD_C = 1 + 6 / (3 * 0)"])),
            ("unknown-option", r.choice(["option nosuch.opt = 1", "option c.nosuch = \"x\"", "option max_bytes = 3"])),
            ("option-type", r.choice(["option c.name_prefix = 5", "option go.package_path = true", 'option c.struct_packing_alignment = "x"'])),
            ("option-value", "option c.struct_packing_alignment = 9"),
            ("array-cap", "type BadAl = uint8[" + r.choice(["0", "65536", "70000", "0x10000"]) + "]"),
            ("array-of-array", "type BadAl = bool[2][3]"),
            ("incomplete", r.choice(["type BadAl =", "const BAD_C", "const BAD_C =", "type = uint3", "option c.name_prefix", "import", "proto"])),
            ("keyword-as-name", r.choice(["type type = uint3", "const message = 1", "const true = 1", "type uint3 = uint4"])),
            ("cyclic-import", f'import "{self_path}"'),
            ("extra-tokens", r.choice(["type BadAl = uint3 uint4", "const BAD_C = 1 2", "type BadAl = uint3 = uint4", "const BAD_C = = 1"])),
        ]
        cands += [(k, t) for (k, t) in r.sample(ONE_LINE_MESSAGES, 4)]
        cands += [(k, t) for (k, t) in r.sample(ONE_LINE_ENUMS, 4)]
        if slot.names:
            k, n = r.choice(slot.names)
            cands.append(("dup-definition", r.choice([f"const {n} = 1", f"type {n} = uint3", f"message {n} {{ }}", f"enum {n} : uint3 {{ }}"])))
            cands.append(("import-name-taken", f'import {n} "{extra_path}"'))
        if types_before:
            n = r.choice(types_before)
            cands.append(("alias-of-named-type", f"type BadAl = {n}"))
            cands.append(("type-as-array-cap", f"type BadAl = uint8[{n}]"))
            cands.append(("type-as-constant", f"const BAD_C = {n}"))
        if ints_before:
            n = r.choice(ints_before)
            cands.append(("constant-as-type", r.choice([f"type BadAl = {n}", f"type BadAl = {n}[2]"])))
        if nonints_before:
            n = r.choice(nonints_before)
            cands.append(("non-integer-array-cap", f"type BadAl = uint8[{n}]"))
            cands.append(("non-integer-in-expression", r.choice([f"const BAD_C = {n} * 2", f"const BAD_C = 1 + {n}"])))
        if slot.imports_before:
            p = r.choice(slot.imports_before)
            cands.append(("duplicated-import", r.choice([f'import "{p}"', f'import again "{p}"'])))
        if trad:
            cands = [("extensible-in-traditional", r.choice(["message BadM' { uint3 a = 1 }", "type BadAl = uint3[2]'", "message BadM { uint3[2]' a = 1 }"]))]
    elif slot.scope == "message":
        n = fresh_num(slot, r)
        if n is None:
            return None
        cands += [
            ("bad-width", f"{badw} bad_f = {n}"),
            ("bad-width-array", f"{badw}[2] bad_f = {n}"),
            ("undefined-type", r.choice([f"NoSuchType bad_f = {n}", f"nosuch.Thing[3] bad_f = {n}", f"NoSuch.Inner bad_f = {n}"])),
            ("field-number-range", f"uint3 bad_f = " + r.choice(["0", "256", "1000", "0x100"])),
            ("stray-char", r.choice([f"uint3 bad_f = {n} {r.choice(STRAY)}", r.choice(STRAY), f"uint3 {r.choice(STRAY[:13])} = {n}"])),
            ("incomplete", r.choice([f"uint3 bad_f {n}", f"uint3 = {n}", "uint3 bad_f =", "uint3 bad_f", f"bad_f = {n}", "uint3[] bad_f = 1"])),
            ("alias-in-message", r.choice(["type BadAl = uint3", "typedef uint3 BadAl"])),
            ("const-in-message", r.choice(["const BAD_C = 1", 'const BAD_C = "s"'])),
            ("proto-in-message", "proto bad"),
            ("import-in-message", r.choice([f'import "{extra_path}"', f'import zz "{extra_path}"'])),
            ("unknown-option", r.choice(["option nosuch = 1", "option c.name_prefix = \"x\""])),
            ("option-type", r.choice(['option max_bytes = "s"', "option max_bytes = true"])),
            ("array-cap", f"uint3[{r.choice(['0', '65536', '99999'])}] bad_f = {n}"),
            ("undefined-constant", f"uint3[NO_SUCH] bad_f = {n}"),
            ("array-of-array", f"bool[2][2] bad_f = {n}"),
            ("extra-tokens", r.choice([f"uint3 bad_f = {n} = 2", f"uint3 uint4 bad_f = {n}", f"uint3 bad_f bad_g = {n}"])),
        ]
        cands += [(k, t) for (k, t) in r.sample(ONE_LINE_MESSAGES, 3)]
        cands += [(k, t) for (k, t) in r.sample(ONE_LINE_ENUMS, 3)]
        if slot.nums:
            cands.append(("dup-field-number", f"uint3 bad_f = {r.choice(slot.nums)}"))
            cands.append(("dup-field-number", f"bool[3] bad_f = {r.choice(slot.nums)}"))
        fnames = [nm for (k, nm) in slot.names if k == "field"]
        if fnames:
            cands.append(("dup-field-name", f"uint3 {r.choice(fnames)} = {n}"))
        inner = [nm for (k, nm) in slot.names if k in ("message", "enum")]
        if inner:
            cands.append(("dup-definition", f"uint3 {r.choice(inner)} = {n}"))
            cands.append(("dup-definition", f"message {r.choice(inner)} {{ }}"))
        if ints_before:
            cands.append(("constant-as-type", f"{r.choice(ints_before)} bad_f = {n}"))
        if types_before:
            cands.append(("type-as-array-cap", f"uint8[{r.choice(types_before)}] bad_f = {n}"))
        if nonints_before:
            cands.append(("non-integer-array-cap", f"uint8[{r.choice(nonints_before)}] bad_f = {n}"))
        if trad:
            cands = [("extensible-in-traditional", r.choice([f"uint3[2]' bad_f = {n}", "message BadM' { }"]))]
    else:  # enum
        lim = 2 ** slot.nbits
        free = [v for v in [0, 1, 2, 3, lim - 1, lim // 2, 5, 6] + [r.randrange(lim)] if 0 <= v < lim and v not in slot.values]
        cands += [
            ("enum-overflow", f"BAD_M = {r.choice([lim, lim + 1, lim * 2])}"),
            ("alias-in-enum", "type BadAl = uint3"),
            ("const-in-enum", "const BAD_C = 1"),
            ("option-in-enum", r.choice(["option a = 1", "option max_bytes = 1"])),
            ("enum-in-enum", "enum BadIn : uint3 { }"),
            ("message-in-enum", r.choice(["message BadIn { }", "message BadIn { uint3 a = 1 }"])),
            ("field-in-enum", r.choice(["uint3 x = 1", "bool[2] x = 2"])),
            ("import-in-enum", f'import "{extra_path}"'),
            ("proto-in-enum", "proto bad"),
            ("enum-negative", "BAD_M = -1"),
            ("enum-value-type", r.choice(['BAD_M = "s"', "BAD_M = true", "BAD_M = OTHER"])),
            ("incomplete", r.choice(["BAD_M 1", "BAD_M =", "= 3", "BAD_M"])),
            ("stray-char", r.choice([r.choice(STRAY), f"BAD_M {r.choice(STRAY[:13])} 1"])),
        ]
        if free:
            cands.append(("stray-char", f"BAD_M = {free[0]} {r.choice(STRAY)}"))
            cands.append(("extra-tokens", f"BAD_M = {free[0]} = 1"))
        if slot.values:
            cands.append(("enum-dup-value", f"BAD_M = {r.choice(slot.values)}"))
            cands.append(("enum-dup-value", f"BAD_M = {hex(r.choice(slot.values))}"))
        mnames = [nm for (k, nm) in slot.names if k == "member"]
        if mnames and free:
            cands.append(("enum-dup-name", f"{r.choice(mnames)} = {free[0]}"))
        if trad:
            return None
    if not cands:
        return None
    # errors raised from a STORED node (not from the token under the parser's nose) are the ones whose
    # position can silently be the wrong one: give them more than their uniform share
    stored = [c for c in cands if c[0] in STORED_NODE_KINDS]
    if stored and r.random() < 0.6:
        return r.choice(stored)
    return r.choice(cands)


# ===================================================================== the check
@dataclass
class Job:
    fut: Any
    cwd: str
    argv: List[str]
    eval: Callable[["Job", Dict[str, Any]], None]
    data: Dict[str, Any] = field(default_factory=dict)


def check(run: common.Run, drv: Any, rng: random.Random, tier: str) -> None:
    n_prog, n_inj, chunk = (24, 10, 6) if tier == "quick" else (220, 12, 11)
    with R.Scratch("bpv-c20-") as sc, CF.ThreadPoolExecutor(16) as ex:
        cb = replay_kf(run, sc)
        run.notes["column_base_measured"] = cb.base
        try:
            for c0 in range(0, n_prog, chunk):
                jobs: List[Job] = []
                cdir = sc.path(f"chunk{c0}")
                for i in range(c0, min(n_prog, c0 + chunk)):
                    one_program(run, rng, ex, jobs, cb, os.path.join(cdir, f"p{i}"), i, n_inj)
                for j in jobs:
                    res = j.fut.result()
                    j.eval(j, res)
                shutil.rmtree(cdir, ignore_errors=True)
        finally:
            ex.shutdown(wait=True, cancel_futures=True)


def submit(ex: Any, jobs: List[Job], cwd: str, argv: List[str], ev: Callable[[Job, Dict[str, Any]], None], **data: Any) -> Job:
    for a in argv:
        if a.startswith("out_"):
            os.makedirs(os.path.join(cwd, a), exist_ok=True)
    j = Job(ex.submit(run_cli, cwd, argv), cwd, argv, ev, data)
    jobs.append(j)
    return j


def enum_order_features(main: G.Schema) -> Tuple[bool, bool]:
    nonasc = zero_not_first = False
    for d in all_defs(main):
        if isinstance(d, G.EnumDef):
            vs = [v for _, v in d.members]
            if vs != sorted(vs):
                nonasc = True
            if vs and vs[0] != 0:
                zero_not_first = True
    return nonasc, zero_not_first


def one_program(run: common.Run, rng: random.Random, ex: Any, jobs: List[Job], cb: ColBase, pdir: str, idx: int, n_inj: int) -> None:
    trad_ok = rng.random() < 0.3  # program without extensible grammar (usable with -O)
    base_prog = make_program(rng, allow_ext=not trad_ok)
    paths = assign_paths(rng, base_prog)
    main_rel = paths[id(base_prog)]
    nfiles = len(base_prog.all_files())
    run.count(f"programs.files={nfiles}")

    def variant(name: str, prog: G.Schema, lay_main: Layout, lay_imp: Optional[Callable[[], Layout]] = None):
        pths = {id(f): paths[id(o)] for f, o in zip(prog.all_files(), base_prog.all_files())}
        printed = print_program(rng, prog, (lambda f: lay_main if f is prog else (lay_imp() if lay_imp else layout_conform(rng))), pths)
        files = {rel: p.text() for rel, p in printed.items()}
        vdir = os.path.join(pdir, name)
        write_files(vdir, files)
        return vdir, printed, files

    # ---------------- conforming variant: (b) (f) (a) (e)
    vdir, printed, files = variant("conform", base_prog, layout_conform(rng))
    check_positions(run, cb, vdir, printed, main_rel, files, "conform")
    marg = main_arg(rng, vdir, main_rel)
    state: Dict[str, Any] = {"accepted": None}
    submit(ex, jobs, vdir, ["-c", marg], ev_lint, run=run, files=files, main_rel=main_rel, printed=printed, mode="conform",
           expect=Counter(), grey=False, what=[], state=state)
    conform = (vdir, printed, files)

    # ---------------- name-perturbed variants: (c) (f)
    variants = {"conform": conform}
    for vn, npert in (("pert1", 1), ("pertN", rng.randint(2, 8))):
        prog = copy.deepcopy(base_prog)
        what = perturb(rng, prog, npert)
        if not what:
            run.count("lint.perturbation_not_applicable")
            continue
        vdir, printed, files = variant(vn, prog, layout_conform(rng))
        variants[vn] = (vdir, printed, files)
        exp, grey = expected_warnings(printed[main_rel])
        submit(ex, jobs, vdir, ["-c", main_arg(rng, vdir, main_rel)], ev_lint, run=run, files=files, main_rel=main_rel, printed=printed,
               mode=vn, expect=exp, grey=grey, what=what)
        if vn == "pertN":
            submit(ex, jobs, vdir, rng.choice([["-c", "-q", main_rel], ["-q", "-c", main_rel], ["-c", main_rel, "-q"]]), ev_lint, run=run, files=files,
                   main_rel=main_rel, printed=printed, mode="quiet", expect=exp, grey=grey, what=what)
            check_positions(run, cb, vdir, printed, main_rel, files, "perturbed")

    # ---------------- wild layouts: (e) in-process, (d) warnings cite a definition that stands there
    for k in range(2):
        prog = copy.deepcopy(base_prog)
        what = perturb(rng, prog, rng.randint(0, 3)) if k == 0 else []
        lay = layout_wild(rng) if k == 0 else rng.choice([layout_wild, layout_lines])(rng)
        vdir, printed, files = variant(f"wild{k}", prog, lay, lambda: rng.choice([layout_wild, layout_lines, layout_conform])(rng))
        check_positions(run, cb, vdir, printed, main_rel, files, lay.name)
        if k == 0:
            exp, grey = expected_warnings(printed[main_rel])
            submit(ex, jobs, vdir, ["-c", main_arg(rng, vdir, main_rel)], ev_lint, run=run, files=files, main_rel=main_rel, printed=printed,
                   mode="wild", expect=exp, grey=grey, what=what)
            variants["wild"] = (vdir, printed, files)

    # ---------------- (a) advisory: with / without -q
    for lang in LANGS:
        vn = rng.choice(sorted(variants))
        vdir, printed, files = variants[vn]
        opt = ["-O"] if (trad_ok and lang in ("c", "go") and rng.random() < 0.5) else []
        pair: Dict[str, Any] = {"run": run, "files": files, "lang": lang, "variant": vn, "opt": opt, "main_rel": main_rel,
                                "features": enum_order_features(base_prog), "res": {}}
        for q in (False, True):
            out = f"out_{lang}_{'q' if q else 'l'}"
            argv = [lang, main_rel, out] + opt + (["-q"] if q else [])
            submit(ex, jobs, vdir, argv, ev_advisory, pair=pair, q=q, out=out)

    # ---------------- (d) single-violation invalid programs
    inject_errors(run, rng, ex, jobs, base_prog, paths, main_rel, pdir, trad_ok, n_inj, state)


def inject_errors(run: common.Run, rng: random.Random, ex: Any, jobs: List[Job], base_prog: G.Schema, paths: Dict[int, str],
                  main_rel: str, pdir: str, trad_ok: bool, n_inj: int, state: Dict[str, Any]) -> None:
    lay_main = rng.choice([layout_conform, layout_lines])(rng)
    printed = print_program(rng, base_prog, lambda f: lay_main if f is base_prog else rng.choice([layout_conform, layout_lines])(rng), paths)
    rels = sorted(printed)
    extra_rel = "zextra.bitproto"
    for k in range(n_inj):
        rel = main_rel if (len(rels) == 1 or rng.random() < 0.45) else rng.choice([x for x in rels if x != main_rel])
        pr = printed[rel]
        if not pr.slots:
            continue
        want = rng.choice(["global", "message", "enum", "any"])
        pool = [s for s in pr.slots if s.scope == want] or pr.slots
        slot = rng.choice(pool)
        trad = trad_ok and rng.random() < 0.2
        here = os.path.dirname(rel) or "."
        v = make_violation(rng, slot, os.path.relpath(rel, here), os.path.relpath(extra_rel, here), trad)
        if v is None:
            run.count("errors.no_violation_for_slot")
            continue
        kind, stmt = v
        semi = ";" if (rng.random() < 0.2 and kind not in ("incomplete", "stray-char") and not stmt.rstrip().endswith("}")) else ""
        trail = "  // why" if rng.random() < 0.15 and '"unterminated' not in stmt else ""
        line = slot.indent + stmt + semi + trail
        lines = pr.lines[:slot.after] + [line] + pr.lines[slot.after:]
        files = {r_: (p.text(lines) if r_ == rel else p.text()) for r_, p in printed.items()}
        files[extra_rel] = "proto zextra\n\nconst Z_EXTRA = 1\n"
        vdir = os.path.join(pdir, f"inj{k}")
        write_files(vdir, files)
        depth = "main" if rel == main_rel else "imported"
        exp_file = os.path.realpath(os.path.join(vdir, rel))
        exp_line = slot.after + 1
        if trad:
            cmds = [["c", main_rel, "out_c", "-O"], [rng.choice(["c", "go"]), main_rel, "out_x", "-O", "-q"]]
        else:
            cmds = [["-c", main_arg(rng, vdir, main_rel)],
                    rng.choice([["-c", "-q", main_rel], ["py", main_rel, "out_py"], ["c", main_rel, "out_c", "-q"], ["go", main_rel, "out_go"],
                                ["py", main_rel, "out_py", "-q"]])]
        shared: Dict[str, Any] = {"run": run, "files": files, "kind": kind, "scope": slot.scope, "depth": depth, "exp_file": exp_file,
                                  "exp_line": exp_line, "rel": rel, "stmt": line, "layout": lay_main.name, "state": state,
                                  # an unfinished statement that is the last line of a file WITHOUT a final newline ends at the end
                                  # of input: there is no token to cite, the compiler says "at eof" (line 0 by its convention)
                                  "ends_at_eof": kind in ("incomplete", "stray-char") and slot.after >= len(pr.lines) and not pr.final_newline and not trail}
        if rng.random() < 0.7:
            cmds = cmds[:1] if rng.random() < 0.5 else cmds[1:]
        for argv in cmds:
            submit(ex, jobs, vdir, argv, ev_error, **shared)


# ---------------------------------------------------------------- evaluators
def replay(j: Job, files: Dict[str, str], **kw: Any) -> Dict[str, Any]:
    argv = [a if not os.path.isabs(a) else os.path.relpath(a, j.cwd) for a in j.argv]
    d = {"kind": "impl-vs-spec", "input": {"files": files, "argv": ["bitproto"] + argv,
                                            "how": "write the files into an empty directory, create the out_* directory named in argv, run argv there"}}
    d.update(kw)
    return d


def ev_lint(j: Job, res: Dict[str, Any]) -> None:
    d = j.data
    run: common.Run = d["run"]
    run.evaluated()
    mode = d["mode"]
    errors, warnings, other = diagnostics(j.cwd, res["err"])
    files = d["files"]
    main_path = os.path.realpath(os.path.join(j.cwd, d["main_rel"]))
    pm: Printed = d["printed"][d["main_rel"]]
    obs = {"rc": res["rc"], "stderr": ANSI.sub("", res["err"])[:1500]}
    if "state" in d:
        d["state"]["accepted"] = not (errors or any(l.startswith("Traceback") for l in other))
    if errors or any(l.startswith("Traceback") for l in other):
        # the generated program is not accepted: outside the preconditions of (b)/(c)
        run.count(f"lint.skipped_not_accepted.{mode}")
        if len(run.notes.setdefault("lint_not_accepted", [])) < 10:
            run.notes["lint_not_accepted"].append({"stderr": obs["stderr"][:300], "mode": mode})
        return
    run.count(f"lint.runs.{mode}")
    run.count("lint.warnings_seen", len(warnings))
    # (f) exit status of check-only mode
    if (res["rc"] != 0) != (len(warnings) > 0):
        run.violation(replay(j, files, expected_by_spec="check-only mode exits non-zero exactly when there is an error or at least one warning",
                             observed_impl=obs, part="f"))
        return
    got: Counter = Counter()
    where = {(ln, n) for (_k, n, ln, _c, _o) in pm.defs}
    for (path, ln, rest) in warnings:
        tok = rest.split(" => ")[0]
        if path != main_path or (ln, tok) not in where:
            # (d) a warning must cite file:line of a definition of the linted file that stands there
            run.violation(replay(j, files, expected_by_spec="every warning cites the file and the line on which the offending definition stands",
                                 observed_impl={"warning": f"{path}:L{ln} {rest}", "definitions_on_that_line": sorted(n for (l2, n) in where if l2 == ln)},
                                 part="d"))
            return
        got[(ln, tok)] += 1
    exp: Counter = d["expect"]
    run.nontrivial(("lint", mode, tuple(sorted(set(d["what"]))), len(d["printed"]), pm.eol, min(len(exp), 6)))
    if mode == "quiet":
        return  # -q: only the exit-status consistency above
    if mode == "conform":
        if warnings or res["rc"] != 0:
            run.violation(replay(j, files, expected_by_spec="style-conforming schema: no warning, check-only exit status 0", observed_impl=obs, part="b"))
        return
    if d["grey"]:
        run.count("lint.grey_names_skipped")
        return
    for k in d["what"]:
        run.count(f"lint.perturbation.{k}")
    missing = exp - got
    extra = got - exp
    if mode == "wild":
        extra = Counter()  # indentation warnings are expected there; each was checked to cite a definition
    if missing or extra:
        run.violation(replay(j, files,
                             expected_by_spec={"warnings (line, name)": sorted(exp.elements()), "note": "one warning per clearly violating name and per enum without a zero member, none for conforming definitions"},
                             observed_impl={"missing": sorted(missing.elements()), "unexpected": sorted(extra.elements()), **obs}, part="c"))
        return
    if exp and res["rc"] == 0:
        run.violation(replay(j, files, expected_by_spec="check-only exit status != 0 when there are warnings", observed_impl=obs, part="f"))
    if len(exp) == 1 and sum(exp.values()) == 1:
        run.count("lint.exactly_one_warning")
    run.sample({"mode": mode, "perturbed": d["what"], "warnings": sorted(got.elements())[:4]}, limit=3)


def ev_advisory(j: Job, res: Dict[str, Any]) -> None:
    pair = j.data["pair"]
    run: common.Run = pair["run"]
    tree = tree_bytes(os.path.join(j.cwd, j.data["out"]))
    pair["res"][j.data["q"]] = (res, tree, j)
    if len(pair["res"]) < 2:
        return
    run.evaluated()
    (r0, t0, j0), (r1, t1, j1) = pair["res"][False], pair["res"][True]
    lang = pair["lang"]
    run.count(f"advisory.{lang}{''.join(pair['opt'])}.{pair['variant']}")
    if r0["rc"] != 0 and r1["rc"] != 0:
        run.count("advisory.both_rejected")
    nonasc, znf = pair["features"]
    if nonasc:
        run.count("advisory.enum_values_not_ascending")
    if znf:
        run.count("advisory.enum_zero_not_first")
    run.nontrivial(("advisory", lang, tuple(pair["opt"]), pair["variant"], nonasc, znf, len(pair["files"])))
    if r0["rc"] != r1["rc"] or t0 != t1:
        diff = sorted(k for k in set(t0) | set(t1) if t0.get(k) != t1.get(k))
        first = None
        if diff and diff[0] in t0 and diff[0] in t1:
            a, b = t0[diff[0]].split("\n"), t1[diff[0]].split("\n")
            first = next(({"line": n + 1, "with_lint": x, "with_-q": y} for n, (x, y) in enumerate(zip(a, b)) if x != y), None)
        run.violation(replay(j0, pair["files"],
                             expected_by_spec="same exit status and byte-identical generated files with and without -q",
                             observed_impl={"rc_with_lint": r0["rc"], "rc_with_-q": r1["rc"], "files_that_differ": diff, "first_difference": first,
                                            "stderr_with_lint": ANSI.sub("", r0["err"])[:600], "stderr_with_-q": ANSI.sub("", r1["err"])[:600]},
                             argv_q=["bitproto"] + j1.argv, part="a"))


def ev_error(j: Job, res: Dict[str, Any]) -> None:
    d = j.data
    run: common.Run = d["run"]
    if not d["state"]["accepted"]:
        run.count("errors.skipped_base_program_not_accepted")  # not a SINGLE-violation program
        return
    run.evaluated()
    errors, warnings, other = diagnostics(j.cwd, res["err"])
    mode = "check" if "-c" in j.argv else ("trad" if "-O" in j.argv else "lang")
    q = "-q" in j.argv
    run.count(f"errors.kind.{d['kind']}")
    run.count(f"errors.scope.{d['scope']}.{d['depth']}")
    run.count(f"errors.cmd.{mode}{'.q' if q else ''}")
    run.nontrivial(("error", d["kind"], d["scope"], d["depth"], mode, q, d["layout"]))
    obs = {"rc": res["rc"], "stderr": ANSI.sub("", res["err"])[:1500]}
    inp = {"inserted_statement": d["stmt"], "file": d["rel"], "line": d["exp_line"]}
    if res["rc"] == 0 or not errors:
        run.violation(replay(j, d["files"], expected_by_spec={"rejected with an error citing": f"{d['rel']}:L{d['exp_line']}", **inp},
                             observed_impl=obs, part="d/f", violation_kind=d["kind"]))
        return
    path, ln, rest = errors[0]
    if d.get("ends_at_eof") and path == d["exp_file"] and ln == 0 and "eof" in str(rest).lower():
        run.count("errors.unfinished_statement_at_end_of_input(cited as eof)")
        return
    if path != d["exp_file"] or ln != d["exp_line"]:
        run.violation(replay(j, d["files"], expected_by_spec={"error cites": f"{d['rel']}:L{d['exp_line']}", **inp},
                             observed_impl=obs, part="d", violation_kind=d["kind"]))
        return
    run.sample({"violation": d["kind"], "scope": d["scope"], "in": d["depth"], "cited": f"{d['rel']}:L{ln}"}, limit=6)
