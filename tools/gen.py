"""Abstract schema / value generators, independent of the compiler under test.

A schema is built as plain Python data, printed to `.bitproto` text by this module's own
printer, and described to the Lean driver as a `Ty` JSON tree (DESIGN.md §3.3.1).  Nothing
here imports bitproto.
"""
from __future__ import annotations

import random
from dataclasses import dataclass, field
from typing import Any, Dict, List, Optional, Tuple, Union

BOUNDARY_WIDTHS = [1, 2, 3, 7, 8, 9, 15, 16, 17, 23, 24, 25, 31, 32, 33, 47, 48, 63, 64]
BOUNDARY_CAPS = [1, 2, 3, 4, 7, 8, 9]


# ---------------------------------------------------------------- types
@dataclass
class TBool:
    pass


@dataclass
class TByte:
    pass


@dataclass
class TUint:
    n: int


@dataclass
class TInt:
    n: int


@dataclass
class TRef:
    """reference to a named definition (enum, alias, message)"""

    d: Any  # EnumDef | AliasDef | MsgDef


@dataclass
class TArray:
    elem: Any
    cap: int
    ext: bool


@dataclass
class EnumDef:
    name: str
    nbits: int
    members: List[Tuple[str, int]]
    parent: Optional["MsgDef"] = None


@dataclass
class AliasDef:
    name: str
    type: Any
    parent: Optional["MsgDef"] = None


@dataclass
class Field:
    name: str
    num: int
    type: Any


@dataclass
class MsgDef:
    name: str
    ext: bool
    fields: List[Field] = field(default_factory=list)
    nested: List[Any] = field(default_factory=list)  # EnumDef | MsgDef declared inside
    parent: Optional["MsgDef"] = None


@dataclass
class ConstDef:
    name: str
    value: Any  # int | bool | str
    expr: Optional[str] = None  # source text of the value (defaults to the literal)
    parent: Optional["MsgDef"] = None


@dataclass
class Schema:
    proto: str
    defs: List[Any]  # top-level definitions in declaration order (EnumDef | AliasDef | MsgDef | ConstDef)
    imports: List[Tuple["Schema", Optional[str]]] = field(default_factory=list)  # (schema, `as` name)
    options: List[Tuple[str, Any]] = field(default_factory=list)  # proto-level options
    filename: Optional[str] = None  # base name of the file (defaults to proto name)

    def base(self) -> str:
        return self.filename or self.proto

    def all_files(self) -> List["Schema"]:
        out: List[Schema] = []

        def walk(s: "Schema") -> None:
            for (i, _) in s.imports:
                walk(i)
            if not any(o is s for o in out):
                out.append(s)

        walk(self)
        return out

    def messages(self) -> List["MsgDef"]:
        out: List[MsgDef] = []

        def walk(d):
            if isinstance(d, MsgDef):
                for n in d.nested:
                    walk(n)
                out.append(d)

        for d in self.defs:
            walk(d)
        return out


# ---------------------------------------------------------------- names per language
def scope_names(d) -> List[str]:
    names = [d.name]
    p = d.parent
    while p is not None:
        names.append(p.name)
        p = p.parent
    return list(reversed(names))


def py_name(d) -> str:
    """documented Python name: enclosing message names joined by '_'"""
    return "_".join(scope_names(d))


def c_name(d) -> str:
    """documented C name: enclosing message names concatenated"""
    return "".join(scope_names(d))


PRINT_CTX: Dict[str, Any] = {"schema": None}


def import_prefix(d) -> str:
    """`name.` under which the file that declares d is visible in the file being printed"""
    cur = PRINT_CTX.get("schema")
    home = getattr(d, "home", None)
    if cur is None or home is None or home is cur:
        return ""
    for (imp, as_name) in cur.imports:
        if imp is home:
            return (as_name or imp.proto) + "."
    return ""


def bp_ref(d, frm: Optional[MsgDef]) -> str:
    pre = import_prefix(d)
    if pre:
        return pre + ".".join(scope_names(d))
    return _bp_ref_local(d, frm)


def _bp_ref_local(d, frm: Optional[MsgDef]) -> str:
    """name by which definition d is referenced in bitproto text from inside message `frm`
    (None = top level): relative to the innermost enclosing message of `frm` that also
    encloses `d` (an enclosing message is not yet a member of its parent while it is being
    parsed, so the path may not start at it), else the full dotted path from the top level."""
    chain = scope_names(d)
    anc = []
    p = d.parent
    while p is not None:
        anc.append(p)
        p = p.parent
    q = frm
    while q is not None:
        for k, a in enumerate(anc):
            if a is q:
                # names below q
                return ".".join(chain[len(chain) - 1 - k:])
        q = q.parent
    return ".".join(chain)


# ---------------------------------------------------------------- sizes
def nbits(t) -> int:
    if isinstance(t, TBool):
        return 1
    if isinstance(t, TByte):
        return 8
    if isinstance(t, (TUint, TInt)):
        return t.n
    if isinstance(t, TArray):
        return (16 if t.ext else 0) + t.cap * nbits(t.elem)
    if isinstance(t, TRef):
        d = t.d
        if isinstance(d, EnumDef):
            return d.nbits
        if isinstance(d, AliasDef):
            return nbits(d.type)
        if isinstance(d, MsgDef):
            return msg_nbits(d)
    raise TypeError(t)


def msg_nbits(m: MsgDef) -> int:
    return (16 if m.ext else 0) + sum(nbits(f.type) for f in m.fields)


def has_ext(t) -> bool:
    if isinstance(t, TArray):
        return t.ext or has_ext(t.elem)
    if isinstance(t, TRef):
        d = t.d
        if isinstance(d, AliasDef):
            return has_ext(d.type)
        if isinstance(d, MsgDef):
            return d.ext or any(has_ext(f.type) for f in d.fields)
    return False


# ---------------------------------------------------------------- Ty JSON for the driver
def ty_json(t) -> Any:
    if isinstance(t, TBool):
        return "bool"
    if isinstance(t, TByte):
        return "byte"
    if isinstance(t, TUint):
        return {"uint": t.n}
    if isinstance(t, TInt):
        return {"int": t.n}
    if isinstance(t, TArray):
        return {"array": ty_json(t.elem), "cap": t.cap, "ext": t.ext}
    if isinstance(t, TRef):
        d = t.d
        if isinstance(d, EnumDef):
            return {"enum": d.nbits, "members": [v for _, v in d.members]}
        if isinstance(d, AliasDef):
            return {"alias": ty_json(d.type)}
        if isinstance(d, MsgDef):
            return msg_ty_json(d)
    raise TypeError(t)


def msg_ty_json(m: MsgDef) -> Any:
    return {"msg": [{"num": f.num, "name": f.name, "ty": ty_json(f.type)} for f in m.fields], "ext": m.ext}


# ---------------------------------------------------------------- printer
def type_text(t, frm: Optional[MsgDef]) -> str:
    if isinstance(t, TBool):
        return "bool"
    if isinstance(t, TByte):
        return "byte"
    if isinstance(t, TUint):
        return f"uint{t.n}"
    if isinstance(t, TInt):
        return f"int{t.n}"
    if isinstance(t, TArray):
        cc = getattr(t, "cap_const", None)
        cap = (import_prefix(cc) + cc.name) if cc is not None else (getattr(t, "cap_text", None) or str(t.cap))
        return f"{type_text(t.elem, frm)}[{cap}]" + ("'" if t.ext else "")
    if isinstance(t, TRef):
        return bp_ref(t.d, frm)
    raise TypeError(t)


def lit_text(v: Any) -> str:
    if isinstance(v, bool):
        return "true" if v else "false"
    if isinstance(v, int):
        return str(v)
    esc = {"\\": "\\\\", '"': '\\"', "\n": "\\n", "\t": "\\t", "\r": "\\r"}
    return '"' + "".join(esc.get(c, c) for c in v) + '"'


def print_def(d, ind: int, out: List[str], semi=lambda: "") -> None:
    pad = "    " * ind
    for c in getattr(d, "comments", None) or []:  # a comment block in front of the definition (becomes a doc comment)
        out.append(f"{pad}// {c}")
    if isinstance(d, ConstDef):
        out.append(f"{pad}const {d.name} = {d.expr if d.expr is not None else lit_text(d.value)}{semi()}")
        return
    if isinstance(d, EnumDef):
        out.append(f"{pad}enum {d.name} : uint{d.nbits} {{")
        for n, v in d.members:
            out.append(f"{pad}    {n} = {v}{semi()}")
        out.append(f"{pad}}}")
    elif isinstance(d, AliasDef):
        out.append(f"{pad}type {d.name} = {type_text(d.type, d.parent)}{semi()}")
    elif isinstance(d, MsgDef):
        out.append(f"{pad}message {d.name}{chr(39) if d.ext else ''} {{")
        for (on, ov) in getattr(d, "options", []):
            out.append(f"{pad}    option {on} = {lit_text(ov)}{semi()}")
        for n in d.nested:
            print_def(n, ind + 1, out, semi)
        for f in d.fields:
            for c in getattr(f, "comments", None) or []:
                out.append(f"{pad}    // {c}")
            out.append(f"{pad}    {type_text(f.type, d)} {f.name} = {f.num}{semi()}")
        out.append(f"{pad}}}")
    else:
        raise TypeError(d)


TRICKY_COMMENTS = ['One reading of the so-called "probe"', "ends with a backslash \\", 'triple """ quotes inside', "it's got an apostrophe",
                   "percent %s %d and {braces}", "*/ closes nothing here /*", "trailing spaces   ", "unicode: é 漢 ✓", "#hash and // slashes",
                   "'" * 3, '"', "\\n is not a newline", "a", "TODO(someone): fix <this> & that"]


def sprinkle_comments(s: "Schema", rng: random.Random, p: float = 0.3) -> None:
    """comment blocks (one or two lines) in front of some definitions and fields of every file of the program"""
    def walk(d) -> None:
        if rng.random() < p:
            d.comments = [rng.choice(TRICKY_COMMENTS) for _ in range(rng.choice([1, 1, 2]))]
        if isinstance(d, MsgDef):
            for n in d.nested:
                walk(n)
            for f in d.fields:
                if rng.random() < p / 2:
                    f.comments = [rng.choice(TRICKY_COMMENTS)]

    for f in s.all_files():
        for d in f.defs:
            walk(d)


def schema_text(s: Schema, rng: Optional[random.Random] = None) -> str:
    semi = (lambda: rng.choice(["", ";"])) if rng else (lambda: "")
    PRINT_CTX["schema"] = s
    try:
        out = [f"proto {s.proto}", ""]
        for (imp, as_name) in s.imports:
            out.append(f'import {as_name + " " if as_name else ""}"{imp.base()}.bitproto"{semi()}')
        for (on, ov) in s.options:
            out.append(f"option {on} = {lit_text(ov)}{semi()}")
        if s.imports or s.options:
            out.append("")
        for d in s.defs:
            print_def(d, 0, out, semi)
            out.append("")
        return "\n".join(out) + "\n"
    finally:
        PRINT_CTX["schema"] = None


def set_home(s: Schema) -> None:
    """record the declaring file on every definition (needed for cross-file references)"""

    def walk(d) -> None:
        d.home = s
        if isinstance(d, MsgDef):
            for n in d.nested:
                walk(n)

    for d in s.defs:
        walk(d)


def program_files(main: Schema, rng: Optional[random.Random] = None) -> Dict[str, str]:
    """{file name: text} of a multi-file program"""
    return {f"{f.base()}.bitproto": schema_text(f, rng) for f in main.all_files()}


def fit_sizes(defs: List[Any], limit: int = 65535) -> None:
    """shrink array capacities (largest first) until every message fits the 65535-bit limit again; deterministic"""

    def msgs_of(ds):
        for d in ds:
            if isinstance(d, MsgDef):
                yield from msgs_of(d.nested)
                yield d

    def shrink(t) -> bool:
        # the outermost array of a field type; arrays behind an alias are shrunk through the alias
        if isinstance(t, TArray) and t.cap > 1:
            t.cap = max(1, t.cap // 2)
            return True
        if isinstance(t, TRef) and isinstance(t.d, AliasDef):
            return shrink(t.d.type)
        return False

    for _ in range(64):
        changed = False
        for m in msgs_of(defs):
            guard = 0
            while msg_nbits(m) > limit and guard < 64:
                guard += 1
                fs = sorted(m.fields, key=lambda f: -nbits(f.type))
                if not any(shrink(f.type) for f in fs[:1]) and not any(shrink(f.type) for f in fs):
                    m.fields.remove(fs[0])
                changed = True
        if not changed:
            return


# ---------------------------------------------------------------- generator
@dataclass
class GenOpts:
    max_depth: int = 3
    max_fields: int = 6
    allow_ext: bool = True
    allow_enum: bool = True
    allow_alias: bool = True
    allow_nested_defs: bool = True
    allow_signed: bool = True
    allow_msg: bool = True
    enum_zero_first: bool = False  # only enums whose first member is 0 (KF-py-enum-default excluded)
    max_bits: int = 4000
    big_prob: float = 0.03  # probability of a large array
    ext_prob: float = 0.38  # probability that a message / array is extensible
    scalar_prob: float = 0.55  # probability that an element type is a scalar rather than a reference
    twin_scopes: float = 0.12  # probability that two top-level messages each get a nested enum `Status` and a nested message
    #                           `Sample` of DIFFERENT shape, both used by fields (same simple name, other scope, other type)
    shared_nested_names: float = 0.15  # probability that a definition nested in a TOP-LEVEL message takes a name that
    #                                   definitions nested in other top-level messages use too (same name, other scope)


class SchemaGen:
    def __init__(self, rng: random.Random, opts: Optional[GenOpts] = None):
        self.rng = rng
        self.o = opts or GenOpts()
        self.counter = 0
        self.defs: List[Any] = []  # definitions visible at top level, in order
        self.all_named: List[Any] = []  # every named def usable as a type (declared so far)

    def fresh(self, prefix: str) -> str:
        self.counter += 1
        c = self.counter
        return f"{prefix}{chr(65 + c % 26)}{chr(97 + c // 26 % 26)}{chr(97 + c // 676 % 26)}"

    def width(self) -> int:
        r = self.rng
        return r.choice(BOUNDARY_WIDTHS) if r.random() < 0.6 else r.randint(1, 64)

    def cap(self) -> int:
        r = self.rng
        if r.random() < self.o.big_prob:
            return r.choice([255, 256, 300, 1000])
        return r.choice(BOUNDARY_CAPS) if r.random() < 0.7 else r.randint(1, 20)

    def enum(self, parent: Optional[MsgDef]) -> EnumDef:
        r = self.rng
        n = r.choice([1, 2, 3, 7, 8, 9, 12, 16, 17, 31, 32, 33, 63, 64]) if r.random() < 0.7 else r.randint(1, 64)
        k = r.randint(1, min(5, 2**n))
        vals = set()
        lim = 2**n
        while len(vals) < k:
            c = r.choice([0, 1, lim - 1, lim // 2, r.randrange(lim), r.randrange(min(lim, 300))])
            if c < lim:
                vals.add(c)
        vals = list(vals)
        r.shuffle(vals)
        if self.o.enum_zero_first or r.random() < 0.7:
            if 0 in vals:
                vals.remove(0)
            vals = [0] + vals[: max(0, k - 1)]
        name = self.fresh("En")
        up = "".join(("_" + c if c.isupper() and i else c) for i, c in enumerate(name)).upper()
        members = [(f"{up}_V{chr(65 + i)}", v) for i, v in enumerate(vals)]
        return EnumDef(name, n, members, parent)

    def scalar(self) -> Any:
        r = self.rng
        k = r.random()
        if k < 0.12:
            return TBool()
        if k < 0.22:
            return TByte()
        if k < 0.62 or not self.o.allow_signed:
            return TUint(self.width())
        return TInt(self.width())

    def usable(self, kinds) -> List[Any]:
        return [d for d in self.all_named if isinstance(d, kinds)]

    def elem_type(self, depth: int, scope: Optional[MsgDef]) -> Any:
        """type allowed as array element: anything but an (unaliased) array"""
        r = self.rng
        k = r.random()
        if k < self.o.scalar_prob:
            return self.scalar()
        cands = []
        if self.o.allow_enum:
            cands += self.usable(EnumDef)
        if self.o.allow_alias:
            cands += self.usable(AliasDef)
        if self.o.allow_msg:
            cands += self.usable(MsgDef)
        if scope is not None:
            # a message may not contain itself or its enclosing messages
            bad = set()
            p = scope
            while p is not None:
                bad.add(id(p))
                p = p.parent
            cands = [c for c in cands if id(c) not in bad]
        if cands:
            return TRef(r.choice(cands))
        return self.scalar()

    def field_type(self, depth: int, scope: Optional[MsgDef]) -> Any:
        r = self.rng
        k = r.random()
        if k < 0.1 and self.o.allow_alias:
            # two-dimensional: an array whose elements are an alias of an array (rows of sub-byte elements, extensible
            # rows, rows of messages ...)
            rows = [a for a in self.usable(AliasDef) if isinstance(a.type, TArray)]
            if rows:
                return TArray(TRef(r.choice(rows)), r.choice([2, 3, 4]), self.o.allow_ext and r.random() < self.o.ext_prob)
        if k < 0.36:
            e = self.elem_type(depth, scope)
            if isinstance(e, (TUint, TInt)) and r.random() < 0.35:
                e = type(e)(r.choice([8, 16, 32, 64]))  # the C runtime's batch path
            return TArray(e, self.cap(), self.o.allow_ext and r.random() < self.o.ext_prob)
        return self.elem_type(depth, scope)

    def alias(self, parent: Optional[MsgDef]) -> AliasDef:
        r = self.rng
        if r.random() < 0.2:
            # an array whose WIRE size is 8/16/32/64 bits but whose memory is wider (C batch predicate)
            w = r.choice([8, 16, 32, 64])
            n = r.choice([d for d in (1, 2, 4, 8, 16) if d < w and w // d <= 64])
            e = TBool() if n == 1 and r.random() < 0.5 else (TUint(n) if r.random() < 0.6 else TInt(n))
            return AliasDef(self.fresh("Al"), TArray(e, w // n, False), parent)
        if r.random() < 0.45:
            e = self.elem_type(0, parent)
            msgs = self.usable(MsgDef)
            if msgs and self.o.allow_msg and r.random() < 0.25:
                e = TRef(r.choice(msgs))  # rows of messages
            # alias element must not itself be an alias-to-array inside array? allowed by the
            # compiler (2d array through alias); keep it.
            t = TArray(e, self.cap(), self.o.allow_ext and r.random() < self.o.ext_prob)
        else:
            t = self.scalar()
        return AliasDef(self.fresh("Al"), t, parent)

    def message(self, depth: int, parent: Optional[MsgDef]) -> MsgDef:
        r = self.rng
        m = MsgDef(self.fresh("Msg"), self.o.allow_ext and r.random() < self.o.ext_prob, parent=parent)
        if self.o.allow_nested_defs and depth < self.o.max_depth:
            for _ in range(r.choice([0, 0, 0, 1, 1, 2])):
                if r.random() < 0.5 and self.o.allow_enum:
                    d = self.enum(m)
                else:
                    d = self.message(depth + 1, m)
                if parent is None and r.random() < self.o.shared_nested_names:
                    shared = ("EnShared" if isinstance(d, EnumDef) else "MsgShared") + r.choice(["", "B"])
                    if all(x.name != shared for x in m.nested):
                        d.name = shared
                        if isinstance(d, EnumDef):
                            up = "EN_SHARED" + ("_B" if shared.endswith("B") else "")
                            d.members = [(f"{up}_V{chr(65 + i)}", v) for i, (_, v) in enumerate(d.members)]
                m.nested.append(d)
                self.all_named.append(d)
        nf = r.randint(0, self.o.max_fields) if r.random() < 0.9 else r.randint(0, 12)
        nums = r.sample(range(1, 256), nf) if r.random() < 0.5 else r.sample(range(1, nf + 3), nf)
        for i, num in enumerate(nums):
            ft = self.field_type(depth, m)
            m.fields.append(Field(f"f{chr(97 + i % 26)}_{num}", num, ft))
        free = [k for k in range(1, 256) if k not in set(nums)]
        if m.ext and r.random() < 0.15 and free:
            # a bulky extensible message: its size prefix then exceeds a byte (and, at an odd offset, spans three bytes)
            m.fields.append(Field("bulk_x", free.pop(r.randrange(len(free))), TArray(TUint(32), r.choice([16, 20, 40]), False)))
        if r.random() < 0.1 and free and max(free) > max(nums, default=0):
            # the LAST member of the struct is a batch-copied array whose total size is not a power of two
            e, c = r.choice([(TByte(), 3), (TInt(8), 5), (TInt(8), 6), (TUint(8), 7), (TUint(16), 3), (TInt(16), 3)])
            m.fields.append(Field("tail_x", max(free), TArray(e, c, False)))
        # enforce size limit by dropping fields from the end
        while msg_nbits(m) > self.o.max_bits and m.fields:
            m.fields.pop(0 if m.fields[-1].name == "tail_x" and len(m.fields) > 1 else -1)
        return m

    corpus_queue: List[Schema] = []

    def schema(self, ntop: Optional[int] = None) -> Schema:
        if SchemaGen.corpus_queue:
            return SchemaGen.corpus_queue.pop(0)
        r = self.rng
        self.defs = []
        self.all_named = []
        n = ntop or r.randint(1, 5)
        for k in range(n):
            c = r.random()
            if k == n - 1 or c < 0.5:
                d = self.message(0, None)
            elif c < 0.75 and self.o.allow_enum:
                d = self.enum(None)
            elif self.o.allow_alias:
                d = self.alias(None)
            else:
                d = self.message(0, None)
            self.defs.append(d)
            self.all_named.append(d)
        if r.random() < self.o.twin_scopes:
            self.add_twins()
            fit_sizes(self.defs)  # the twins were added to messages that may already be elements of large arrays
        return Schema(self.fresh("p").lower(), self.defs)

    def add_twins(self) -> None:
        r = self.rng
        tops = [d for d in self.defs if isinstance(d, MsgDef)]
        while len(tops) < 2:
            m = MsgDef(self.fresh("Msg"), False)
            self.defs.append(m)
            tops.append(m)
        # widths of different C storage classes, either order (a cache keyed by the simple name hands the SECOND one the
        # first one's type: harmless when the first is wider, truncating when it is narrower)
        widths = list(r.choice([(2, 11), (3, 17), (6, 40), (12, 20), (8, 9), (1, 33)]))
        r.shuffle(widths)
        pair = sorted(r.sample(tops, 2), key=lambda m: self.defs.index(m))
        same_cap, same_ext = r.choice([2, 3, 4]), self.o.allow_ext and r.random() < 0.4  # equal array types but for the element
        for m, w in zip(pair, widths):
            if any(x.name in ("Status", "Sample") for x in m.nested):
                continue
            used = {f.num for f in m.fields}
            free = [k for k in range(1, 256) if k not in used]
            en = EnumDef("Status", w, [("STATUS_VA", 0), ("STATUS_VB", (1 << w) - 1)], m)
            sm = MsgDef("Sample", self.o.allow_ext and r.random() < 0.4, parent=m)
            for i in range(r.randint(1, 3)):
                sm.fields.append(Field(f"s{chr(97 + i)}_x", i + 1, self.scalar()))
            m.nested += [en, sm]
            m.fields.append(Field("tw_status", free[0], TRef(en)))
            m.fields.append(Field("tw_samples", free[1], TArray(TRef(sm), same_cap, same_ext)))
            m.fields.append(Field("tw_states", free[2], TArray(TRef(en), same_cap, same_ext)))
            while msg_nbits(m) > self.o.max_bits and len(m.fields) > 2:
                m.fields.pop(0)


# ---------------------------------------------------------------- values
def rand_scalar(rng: random.Random, lo: int, hi: int) -> int:
    """boundary-biased value in [lo, hi]"""
    k = rng.random()
    if k < 0.12:
        return lo
    if k < 0.24:
        return hi
    if k < 0.32:
        return min(hi, max(lo, 0))
    if k < 0.40:
        return min(hi, max(lo, -1 if lo < 0 else 1))
    if k < 0.55 and hi > 0:
        b = 1 << rng.randrange(max(1, hi.bit_length()))
        v = b if b <= hi else hi
        return -v if (lo < 0 and rng.random() < 0.5 and -v >= lo) else v
    return rng.randint(lo, hi)


def rand_value(rng: random.Random, t) -> Any:
    """in-range value: ints, lists, {num: value} dicts for messages"""
    if isinstance(t, TBool):
        return rng.randint(0, 1)
    if isinstance(t, TByte):
        return rand_scalar(rng, 0, 255)
    if isinstance(t, TUint):
        return rand_scalar(rng, 0, 2**t.n - 1)
    if isinstance(t, TInt):
        return rand_scalar(rng, -(2 ** (t.n - 1)), 2 ** (t.n - 1) - 1)
    if isinstance(t, TArray):
        return [rand_value(rng, t.elem) for _ in range(t.cap)]
    if isinstance(t, TRef):
        d = t.d
        if isinstance(d, EnumDef):
            return rng.choice(d.members)[1]
        if isinstance(d, AliasDef):
            return rand_value(rng, d.type)
        if isinstance(d, MsgDef):
            return rand_msg_value(rng, d)
    raise TypeError(t)


def rand_msg_value(rng: random.Random, m: MsgDef) -> Dict[int, Any]:
    return {f.num: rand_value(rng, f.type) for f in m.fields}


def val_json(t, v) -> Any:
    """value in the driver's JSON form"""
    if isinstance(t, TArray):
        return [val_json(t.elem, x) for x in v]
    if isinstance(t, TRef):
        d = t.d
        if isinstance(d, AliasDef):
            return val_json(d.type, v)
        if isinstance(d, MsgDef):
            return msg_val_json(d, v)
    return int(v)


def msg_val_json(m: MsgDef, v: Dict[int, Any]) -> Any:
    return {"f": [[f.num, val_json(f.type, v[f.num])] for f in m.fields]}


def val_from_json(t, j) -> Any:
    """inverse of val_json (driver answers are keyed by number, sorted)"""
    if isinstance(t, TArray):
        return [val_from_json(t.elem, x) for x in j]
    if isinstance(t, TRef):
        d = t.d
        if isinstance(d, AliasDef):
            return val_from_json(d.type, j)
        if isinstance(d, MsgDef):
            return msg_val_from_json(d, j)
    return int(j)


def msg_val_from_json(m: MsgDef, j) -> Dict[int, Any]:
    byn = {f.num: f for f in m.fields}
    return {k: val_from_json(byn[k].type, x) for k, x in j["f"]}


def leaf_count(t) -> int:
    if isinstance(t, TArray):
        return t.cap * leaf_count(t.elem)
    if isinstance(t, TRef):
        d = t.d
        if isinstance(d, AliasDef):
            return leaf_count(d.type)
        if isinstance(d, MsgDef):
            return sum(leaf_count(f.type) for f in d.fields)
    return 1


# ---------------------------------------------------------------- multi-file programs
@dataclass
class ProgOpts:
    n_imports: Tuple[int, int] = (0, 2)
    consts: bool = True
    options: bool = True
    different_filenames: bool = False  # file base name != proto name (KF-include-name); off by default
    gen: GenOpts = field(default_factory=GenOpts)


class ProgramGen:
    """main schema + imported schemas (imports with and without `as`), constants (used as array
    capacities), proto- and message-level options; every cross-file reference uses the dotted
    name of the import."""

    def __init__(self, rng: random.Random, opts: Optional[ProgOpts] = None) -> None:
        self.rng = rng
        self.o = opts or ProgOpts()
        self.names = 0

    def one(self, visible: List[Schema], idx: int) -> Schema:
        r = self.rng
        g = SchemaGen(r, self.o.gen)
        g.counter = 1000 * idx + r.randrange(500)
        # definitions of imported files are usable as types
        pre: List[Any] = []
        for imp in visible:
            for d in imp.defs:
                if isinstance(d, (EnumDef, AliasDef, MsgDef)):
                    pre.append(d)
                    if isinstance(d, MsgDef):
                        pre.extend(n for n in d.nested)
        s = g.schema()
        # re-generate with imported definitions visible: simplest is to patch some field types
        msgs = s.messages()
        for m in msgs:
            for f in m.fields:
                if pre and r.random() < 0.25:
                    d = r.choice(pre)
                    f.type = TArray(TRef(d), r.choice(BOUNDARY_CAPS), False) if r.random() < 0.3 else TRef(d)
            while msg_nbits(m) > self.o.gen.max_bits and m.fields:
                m.fields.pop()
        consts: List[ConstDef] = []
        if self.o.consts:
            for k in range(r.randint(0, 3)):
                kind = r.random()
                nm = f"{'KLMNPQ'[idx % 6]}_CONST_{'ABCDEFGH'[k]}"
                if kind < 0.6:
                    v = r.choice([1, 2, 3, 7, 8, 16, 255, r.randint(1, 40)])
                    consts.append(ConstDef(nm, v))
                elif kind < 0.8:
                    consts.append(ConstDef(nm, r.random() < 0.5))
                else:
                    consts.append(ConstDef(nm, r.choice(["hello", "a b", "x/y.z", "v1"])))
            ints = [c for c in consts if isinstance(c.value, int) and not isinstance(c.value, bool)]
            if ints:
                for m in msgs:
                    for f in m.fields:
                        if isinstance(f.type, TArray) and r.random() < 0.4:
                            c = r.choice(ints)
                            f.type.cap = c.value
                            f.type.cap_text = c.name
                    while msg_nbits(m) > self.o.gen.max_bits and m.fields:
                        m.fields.pop()
        s.defs = consts + s.defs
        if self.o.options and r.random() < 0.5:
            if r.random() < 0.6:
                s.options.append(("c.name_prefix", r.choice(["Xy", "lib_", "Zq"])))
            if r.random() < 0.3:
                s.options.append(("go.package_path", "example.com/pkg"))
        if self.o.options:
            for m in msgs:
                if r.random() < 0.15:
                    m.options = [("max_bytes", (msg_nbits(m) + 7) // 8 + r.randint(0, 3))]
        s.proto = f"p{'abcdefghij'[idx % 10]}{'klmnopqrst'[r.randrange(10)]}{'uvwxyz'[r.randrange(6)]}"
        if self.o.different_filenames and r.random() < 0.4:
            s.filename = s.proto + "_file"
        return s

    def program(self) -> Schema:
        r = self.rng
        n = r.randint(*self.o.n_imports)
        files: List[Schema] = []
        for k in range(n):
            s = self.one([f for f in files if r.random() < 0.5], k + 1)
            for f in files:
                if any(isinstance(x, TRef) and getattr(x.d, "home", None) is f for x in _all_types(s)):
                    if not any(i is f for (i, _) in s.imports):
                        s.imports.append((f, r.choice([None, None, f"imp{k}{'ab'[r.randrange(2)]}"])))
            set_home(s)
            files.append(s)
        main = self.one(files, 0)
        for f in files:
            used = any(isinstance(x, TRef) and getattr(x.d, "home", None) is f for x in _all_types(main))
            if used or r.random() < 0.3:
                main.imports.append((f, r.choice([None, None, f"lib{'xyz'[r.randrange(3)]}{len(main.imports)}"])))
        set_home(main)
        # names under which imports are visible must be unique and must not clash with definitions
        return main


def _all_types(s: Schema) -> List[Any]:
    out: List[Any] = []

    def wt(t) -> None:
        out.append(t)
        if isinstance(t, TArray):
            wt(t.elem)

    def wd(d) -> None:
        if isinstance(d, AliasDef):
            wt(d.type)
        elif isinstance(d, MsgDef):
            for n in d.nested:
                wd(n)
            for f in d.fields:
                wt(f.type)

    for d in s.defs:
        wd(d)
    return out
