"""usage: python tools/seed_table.py — prints the table of DESIGN.md §11.11 from seeded/*/meta.json and seeded/RESULTS.json"""
import json, os, re
V = os.path.dirname(os.path.dirname(os.path.abspath(__file__)))
res = json.load(open(os.path.join(V, "seeded", "RESULTS.json")))
def key(n):
    a, b = n.split("-")
    return (a, int(b))
print("| seed | change (first words of the author's summary) | verdict |")
print("|---|---|---|")
for name in sorted((d for d in os.listdir(os.path.join(V, "seeded")) if os.path.isdir(os.path.join(V, "seeded", d))), key=key):
    meta = json.load(open(os.path.join(V, "seeded", name, "meta.json")))
    summ = str(meta.get("summary") or meta.get("description") or meta.get("what") or "")
    summ = re.sub(r"\s+", " ", summ).replace("|", "/")[:110]
    r = res.get(name, {})
    verdicts = ", ".join(f"{c}: {v['verdict']}" for c, v in r.items() if isinstance(v, dict) and "verdict" in v) or str(r)[:60]
    print(f"| {name} | {summ} | {verdicts} |")
