"""C13 — constants evaluate arithmetically and reach every target language intact.

Generated expression trees over non-negative literals (decimal / hex) and references to earlier
constants (same file and imported files), printed with the minimal parentheses plus random
redundant ones and random spacing -> value in the REAL parsed proto vs the harness' own evaluation
(the specification: ordinary arithmetic, floor division) vs the Lean model (`front.eval`).
The evaluated value is also used as array capacity and option value and read back from the proto.
Every constant (int, bool, string over the lexer's alphabet and escapes) is then emitted for C, Go
and Python and the emitted literal is read back: Python by executing the module, C by compiling a
probe that prints the macros, Go by the harness' reader of Go literal syntax; and compared with
the Lean `emit.*` text / `lang.denote*`.
"""
from __future__ import annotations

import os
import random
import re
import subprocess
from typing import Any, Dict, List, Optional, Tuple

from . import common
from . import real as R


# ------------------------------------------------------------------ expression trees
def gen_tree(rng: random.Random, names: List[str], depth: int):
    k = rng.random()
    if depth <= 0 or k < 0.3:
        if names and rng.random() < 0.35:
            return ("ref", rng.choice(names))
        return ("num", rng.choice([0, 1, 2, 3, 7, 8, 10, 16, 255, 256, 1000, rng.randint(0, 70000), 2**32, 2**53 + 1, 2**63 - 1, 2**64 - 1])
                if rng.random() < 0.5 else rng.randint(0, 50), rng.random() < 0.3)
    return (rng.choice(["+", "-", "*", "/"]), gen_tree(rng, names, depth - 1), gen_tree(rng, names, depth - 1))


PREC = {"+": 1, "-": 1, "*": 2, "/": 2}


def print_tree(rng: random.Random, t, p: int = 1) -> str:
    sp = lambda: rng.choice(["", " ", "  "])
    if t[0] == "num":
        s = hex(t[1]) if t[2] else str(t[1])
    elif t[0] == "ref":
        s = t[1]
    else:
        op = t[0]
        s = f"{print_tree(rng, t[1], PREC[op])}{sp()}{op}{sp()}{print_tree(rng, t[2], PREC[op] + 1)}"
        if PREC[op] < p:
            s = f"({sp()}{s}{sp()})"
    if rng.random() < 0.15:
        s = f"({s})"
    return s


class DivZero(Exception):
    pass


def eval_tree(t, env: Dict[str, int]) -> int:
    if t[0] == "num":
        return t[1]
    if t[0] == "ref":
        return env[t[1]]
    a, b = eval_tree(t[1], env), eval_tree(t[2], env)
    if t[0] == "+":
        return a + b
    if t[0] == "-":
        return a - b
    if t[0] == "*":
        return a * b
    if b == 0:
        raise DivZero()
    return a // b


ALPHABET = "abcXYZ019 _-+*/.,:;!?#$%&()[]{}<>=@^|~`'\"\\\n\t\ré中"


# pieces that make escaping go wrong when it is done by sequential replacement, by greedy hex escapes or by
# printf-style formatting: a backslash directly before an escape LETTER, control characters directly before hex
# digits, percent signs, trigraph-like text
TRICKY = ["\\n", "\\t", "\\r", "\\\\n", "C:\\new\\table", "\\", "\\", "n", "t", "r", "x", "b", "f", "0", "1", "a", "e", "41", '"', "'", "\n", "\t", "\r", "\x01", "\x07", "\x08", "\x0b", "\x0c",
          "\x1b", "\x1f", "\x7f", "%s", "%d", "%%", "??/", " ", "new", "table", "u00e9", "é"]


def gen_string(rng: random.Random) -> str:
    n = rng.choice([0, 1, 2, 5, 12])
    if rng.random() < 0.4:
        return "".join(rng.choice(TRICKY) for _ in range(rng.choice([1, 2, 3, 5, 8])))
    return "".join(rng.choice(ALPHABET) for _ in range(n))


def bp_string(s: str) -> str:
    esc = {"\\": "\\\\", '"': '\\"', "\n": "\\n", "\t": "\\t", "\r": "\\r"}
    out = []
    for c in s:
        if c == "'" and len(out) % 2:
            out.append("\\'")  # the lexer also accepts \'
        else:
            out.append(esc.get(c, c))
    return '"' + "".join(out) + '"'


# ------------------------------------------------------------------ Go / C literal readers (independent)
def read_go_string(lit: str) -> Optional[str]:
    if len(lit) < 2 or lit[0] != '"' or lit[-1] != '"':
        return None
    body, out, i = lit[1:-1], [], 0
    simple = {"n": "\n", "t": "\t", "r": "\r", "\\": "\\", '"': '"', "a": "\a", "b": "\b", "f": "\f", "v": "\v"}
    while i < len(body):
        c = body[i]
        if c == '"' or c == "\n":
            return None
        if c == "\\":
            i += 1
            if i >= len(body) or body[i] not in simple:
                return None
            out.append(simple[body[i]])
        else:
            out.append(c)
        i += 1
    return "".join(out)


def check(run: common.Run, drv: common.Driver, rng: random.Random, tier: str) -> None:
    n_files = 25 if tier == "quick" else 500
    with R.Scratch() as sc:
        for k in range(n_files):
            # half of the programs re-use ONE directory: the same paths with new contents, compiled again
            # in this same process (a result cached by path would be stale)
            d = sc.path("reused" if k % 2 else f"p{k}")
            os.makedirs(d, exist_ok=True)
            # imported file with a few integer constants
            imp_env: Dict[str, int] = {}
            imp_lines = ["proto shared", ""]
            for j in range(rng.randint(1, 4)):
                v = rng.choice([1, 2, 3, 8, 16, 100, rng.randint(1, 5000)])
                imp_env[f"SH_{'ABCD'[j]}"] = v
                imp_lines.append(f"const SH_{'ABCD'[j]} = {v}")
            if rng.random() < 0.5:
                # the imported file has a constant NAMED like one of this file's: each file's constants are its own
                imp_lines.append(f"const K_A = {rng.randint(6000, 7000)}")
            open(os.path.join(d, "shared.bitproto"), "w").write("\n".join(imp_lines) + "\n")
            as_name = rng.choice([None, "lib"])
            imp_prefix = (as_name or "shared") + "."
            lines = ["proto main", "", f'import {as_name + " " if as_name else ""}"shared.bitproto"', ""]
            env: Dict[str, int] = {}
            consts: List[Tuple[str, Any, Any, str]] = []  # name, tree|None, expected, text
            names_all = [imp_prefix + n for n in imp_env]
            full_env = {imp_prefix + n: v for n, v in imp_env.items()}
            nconst = rng.randint(3, 9)
            for j in range(nconst):
                name = f"K_{'ABCDEFGHIJ'[j]}"
                kind = rng.random()
                if kind < 0.7:
                    t = gen_tree(rng, names_all, rng.randint(0, 4))
                    text = print_tree(rng, t)
                    try:
                        v = eval_tree(t, full_env)
                    except DivZero:
                        # division by zero must be rejected: checked separately below
                        t = ("num", rng.randint(0, 9), False)
                        text = print_tree(rng, t)
                        v = eval_tree(t, full_env)
                    if t[0] == "ref":
                        # a lone reference keeps the referenced constant (int here)
                        pass
                    consts.append((name, t, v, text))
                    full_env[name] = v
                    names_all.append(name)
                elif kind < 0.82:
                    b = rng.random() < 0.5
                    consts.append((name, None, b, rng.choice(["true", "yes"] if b else ["false", "no"])))
                else:
                    s = gen_string(rng)
                    consts.append((name, None, s, bp_string(s)))
                lines.append(f"const {name} = {consts[-1][3]}")
            # use evaluated values: array capacity and option value
            caps = [(n, v) for (n, t, v, _) in consts if t is not None and isinstance(v, int) and 0 < v < 200]
            lines.append("")
            lines.append("message M {")
            cap_use = None
            if caps:
                cap_use = rng.choice(caps)
                lines.append(f"    byte[{cap_use[0]}] arr = 1")
            lines.append("    uint3 x = 2")
            lines.append("}")
            text = "\n".join(lines) + "\n"
            path = os.path.join(d, "main.bitproto")
            open(path, "w").write(text)
            files = {"main.bitproto": text, "shared.bitproto": "\n".join(imp_lines) + "\n"}
            try:
                proto = R.parse_file(path)
            except Exception as e:
                run.violation({"kind": "impl-vs-spec", "input": {"files": files}, "observed_impl": f"{type(e).__name__}: {e}",
                               "expected_by_spec": "valid constant expressions are accepted"})
                continue
            # ---- evaluation
            reqs = []
            for (name, t, v, txt) in consts:
                if t is not None:
                    reqs.append({"op": "front.eval", "text": txt, "env": [[n, x] for n, x in full_env.items()]})
            ans = iter(drv.batch(reqs))
            for (name, t, v, txt) in consts:
                run.evaluated()
                got = proto.members.get(name)
                gv = got.unwrap() if got is not None and hasattr(got, "unwrap") else None
                rep = {"input": {"files": files, "constant": name, "expression": txt}}
                if t is not None:
                    run.count("int_expr")
                    run.nontrivial(("expr", txt))
                    model = next(ans)
                    if k < 2:
                        run.sample({"expression": txt, "real": gv, "spec": v, "model": model}, limit=4)
                    if gv != v or isinstance(gv, bool):
                        run.violation(dict(rep, kind="impl-vs-spec", observed_impl=repr(gv), expected_by_spec=v, model_answer=model))
                        continue
                    if model.get("ok") != v:
                        run.notes.setdefault("model_disagreements", []).append(dict(rep, observed_impl=gv, model_answer=model))
                else:
                    run.count("bool" if isinstance(v, bool) else "string")
                    run.nontrivial(("lit", txt))
                    if gv != v or type(gv) is not type(v):
                        run.violation(dict(rep, kind="impl-vs-spec", observed_impl=repr(gv), expected_by_spec=repr(v)))
            if cap_use:
                run.evaluated()
                m = proto.members["M"]
                fld = [f for f in m.fields() if f.name == "arr"][0]
                if fld.type.cap != cap_use[1]:
                    run.violation({"kind": "impl-vs-spec", "input": {"files": files}, "observed_impl": {"capacity": fld.type.cap},
                                   "expected_by_spec": {"capacity": cap_use[1], "from_constant": cap_use[0]}})
            # ---- emission
            try:
                outs = {lang: R.render_strings(proto, lang) for lang in ("c", "go", "py")}
            except Exception as e:
                run.violation({"kind": "impl-vs-spec", "input": {"files": files}, "observed_impl": f"render {type(e).__name__}: {e}"})
                continue
            check_emission(run, drv, sc, d, files, consts, outs, k)
        check_div_zero(run, drv, rng, sc, 6 if tier == "quick" else 60)


def check_emission(run, drv, sc, d: str, files, consts, outs, k: int) -> None:
    h, go, py = outs["c"][".h"], outs["go"][".go"], outs["py"][".py"]
    # Python: execute the module (the imported module is not needed for constants: strip the import)
    ns: Dict[str, Any] = {}
    py_ok = True
    try:
        code = "\n".join(l for l in py.split("\n") if not l.startswith("import shared") and not l.startswith("from shared"))
        exec(compile(code.split("@dataclass")[0], "<py>", "exec"), ns)
    except Exception as e:
        py_ok = False
        run.violation({"kind": "impl-vs-spec", "input": {"files": files}, "observed_impl": f"generated Python constants do not execute: {type(e).__name__}: {e}"})
    # C: compile a probe printing every macro
    # the probe includes the generated header itself (which includes the imported file's header first), the way user code does
    hd = os.path.join(d, f"hdr{k}")
    os.makedirs(hd, exist_ok=True)
    open(os.path.join(hd, "main_bp.h"), "w").write(h)
    try:
        open(os.path.join(hd, "shared_bp.h"), "w").write(R.render_strings(R.parse_file(os.path.join(d, "shared.bitproto")), "c")[".h"])
    except Exception as e:
        run.violation({"kind": "impl-vs-spec", "input": {"files": files}, "observed_impl": f"render of the imported file: {type(e).__name__}: {e}"})
        return
    probe = ['#include <stdio.h>', '#include <stdbool.h>', '#include <stdint.h>', '#include "main_bp.h"']
    cdefs = dict(re.findall(r"^#define (K_[A-J]) (.*)$", h, re.M))
    probe.append("int main(void) {")
    for (name, t, v, txt) in consts:
        if name not in cdefs:
            continue
        if isinstance(v, bool):
            probe.append(f'  printf("{name} b %d\\n", (int)({name}));')
        elif isinstance(v, int):
            if -(2**63) <= v < 2**63:
                probe.append(f'  printf("{name} i %lld\\n", (long long)({name}));')
            elif 0 <= v < 2**64:
                probe.append(f'  printf("{name} u %llu\\n", (unsigned long long)({name}));')
        else:
            probe.append(f'  {{ const char *s = {name}; printf("{name} s "); while (*s) printf("%02x", (unsigned char)*s++); printf("\\n"); }}')
    probe.append("  return 0; }")
    open(os.path.join(d, "probe.c"), "w").write("\n".join(probe) + "\n")
    cvals: Dict[str, str] = {}
    p = subprocess.run(["gcc", "-w", "-I", os.path.join(common.REPO, "lib", "c"), "-I", hd, "probe.c", "-o", "probe"], cwd=d, capture_output=True, text=True)
    if p.returncode == 0:
        o = subprocess.run([os.path.join(d, "probe")], capture_output=True, text=True).stdout
        for line in o.splitlines():
            parts = line.split(" ", 2)
            cvals[parts[0]] = parts[2] if len(parts) > 2 else ""
    else:
        run.violation({"kind": "impl-vs-spec", "input": {"files": files}, "observed_impl": "generated C constants do not compile: " + p.stderr[:600]})
    godefs = dict((m.group(1), m.group(2)) for m in re.finditer(r"^const (K_[A-J]) \w+ = (.*)$", go, re.M))
    reqs = []
    for (name, t, v, txt) in consts:
        if isinstance(v, bool):
            reqs += [{"op": "emit.boollit", "lang": l, "b": v} for l in ("c", "go", "py")]
        elif isinstance(v, int):
            reqs.append({"op": "emit.intlit", "v": v})
        else:
            reqs.append({"op": "emit.strlit", "s": v})
    ans = iter(drv.batch(reqs))
    for (name, t, v, txt) in consts:
        run.evaluated()
        rep = {"input": {"files": files, "constant": name, "declared": repr(v)}}
        if isinstance(v, bool):
            model = [next(ans).get("ok") for _ in range(3)]
            emitted = [cdefs.get(name), godefs.get(name), None]
            m = re.search(r"^" + name + r": \w+ = (.*)$", outs["py"][".py"], re.M)
            emitted[2] = m.group(1) if m else None
            ok = cvals.get(name) == str(int(v)) and godefs.get(name) == ("true" if v else "false") and (not py_ok or ns.get(name) is v)
            if not ok:
                run.violation(dict(rep, kind="impl-vs-spec", observed_impl={"c": cvals.get(name), "go": godefs.get(name), "py": repr(ns.get(name))},
                                   expected_by_spec=v, emitted=emitted))
            elif emitted != model:
                run.notes.setdefault("model_disagreements", []).append(dict(rep, observed_impl=emitted, model_answer=model))
        elif isinstance(v, int):
            model = next(ans).get("ok")
            m = re.search(r"^" + name + r": \w+ = (.*)$", outs["py"][".py"], re.M)
            emitted = [cdefs.get(name), godefs.get(name), m.group(1) if m else None]
            fits_c = -(2**63) <= v < 2**64
            ok_c = (not fits_c) or cvals.get(name) == str(v)
            try:
                ok_go = int(godefs.get(name, "x")) == v
            except ValueError:
                ok_go = False
            ok_py = (not py_ok) or (ns.get(name) == v and not isinstance(ns.get(name), bool))
            if not (ok_c and ok_go and ok_py):
                run.violation(dict(rep, kind="impl-vs-spec", observed_impl={"c": cvals.get(name), "go": godefs.get(name), "py": repr(ns.get(name))},
                                   expected_by_spec=v, emitted=emitted))
            elif any(e != model for e in emitted):
                run.notes.setdefault("model_disagreements", []).append(dict(rep, observed_impl=emitted, model_answer=model))
        else:
            model = next(ans).get("ok")
            m = re.search(r"^" + name + r": \w+ = (.*)$", outs["py"][".py"], re.M)
            emitted = [cdefs.get(name), godefs.get(name), m.group(1) if m else None]
            has_nl_raw = False
            exp_c = v.encode("utf-8").hex()
            ok_c = cvals.get(name) == exp_c
            ok_go = read_go_string(godefs.get(name, "")) == v
            ok_py = (not py_ok) or ns.get(name) == v
            run.count("string_with_special" if any(c in v for c in '"\\\n\t\r') else "string_plain")
            if not (ok_c and ok_go and ok_py):
                run.violation(dict(rep, kind="impl-vs-spec", observed_impl={"c_bytes": cvals.get(name), "go": godefs.get(name), "py": repr(ns.get(name))},
                                   expected_by_spec={"c_bytes": exp_c, "value": v}, emitted=emitted))
            elif any(e != model for e in emitted):
                run.notes.setdefault("model_disagreements", []).append(dict(rep, observed_impl=emitted, model_answer=model))


def check_div_zero(run, drv, rng, sc, n: int) -> None:
    """a zero-valued divisor is a parser error citing file and line (never an internal exception)"""
    from bitproto.errors import ParserError

    for k in range(n):
        z = rng.choice(["0", "(2 - 2)", "Z", "(Z * 5)", "(1 / 2)", "0x0"])
        text = f"proto dz\n\nconst Z = 0\nconst A = {rng.randint(1, 9)} / {z}\n"
        path = sc.write(f"dz{k}.bitproto", text)
        run.evaluated()
        run.nontrivial(("div0", z))
        try:
            R.parse_file(path)
            got = "accepted"
        except ParserError as e:
            got = "parser-error"
            if getattr(e, "lineno", None) != 4:
                got = f"parser-error at line {getattr(e, 'lineno', None)}"
        except Exception as e:
            got = type(e).__name__
        if got != "parser-error":
            run.violation({"kind": "impl-vs-spec", "input": {"files": {"dz.bitproto": text}}, "observed_impl": got,
                           "expected_by_spec": "parser error at line 4 (division by a zero-valued expression)"})
