"""Text-level correspondence for C08 (and the model behind C09/C12/C20): arbitrary source TEXT goes
to the real compiler (`bitproto.parser.parse`) and to the Lean reference pipeline
`Lex.lex → Parse.parseText → Front.checkProgram` (driver op `text.check`).

Hard comparison: accept / reject.  For rejections the rule family and the line are compared too and
must agree unless one side reports a syntactic stop (syntax, lexical, escape or OS error): within one
statement the real parser runs the actions of sub-phrases as PLY's LALR automaton reduces them, so
which of a reference error and a LATER syntax error in the same statement comes first depends on
the automaton's default reductions, which the model (a predictive parser) does not reproduce.

Inputs: /repo's own .bitproto files, generated multi-file programs (tools/gen.py, tools/front.py),
and the mutation streams of tools/props_c09.py (characters, tokens, random token sequences,
truncations), all from one PRNG state.  Files are read the way `open(path).read()` reads them
(universal newlines).
"""
from __future__ import annotations

import multiprocessing as mp
import os
import random
import shutil
import tempfile
from typing import Any, Dict, List, Tuple

from . import common
from . import props_c09 as P9
from . import real as R
from .props_c08 import RULE_OF_CLASS

RULE = dict(RULE_OF_CLASS, GrammarError="syntax", LexerError="lex", InvalidEscapingChar="invalid-escape",
            UnsupportedToDeclareProtoNameOutofProtoScope="proto-in-scope", ProtoNameUndefined="proto-name-undefined",
            MessageInEnumUnsupported="message-in-enum")
# rules raised by the lexer or the grammar: when they are reported relative to a semantic error of a NEIGHBOURING statement
# depends on the automaton's lookahead (`uint65` is a lexical error: the type token validates its width)
WORK_ROOT: List = [None]  # the run's scratch directory (workers killed by an early stop leave nothing behind)
SYNTACTIC = {"syntax", "lex", "invalid-escape", "os-error", "proto-name-undefined", "invalid-int-width", "invalid-uint-width"}


def work(job: Tuple[int, Dict[str, bytes], str]) -> Tuple[int, Tuple]:
    from bitproto.errors import CalculationExpressionError, ParserError

    jid, files, main = job
    d = tempfile.mkdtemp(prefix="bpv-text-", dir=WORK_ROOT[0])
    try:
        for n, data in files.items():
            with open(os.path.join(d, os.path.basename(n)), "wb") as f:
                f.write(data)
        try:
            R.parse_file(os.path.join(d, main))
            return jid, ("ok",)
        except CalculationExpressionError as e:
            return jid, ("reject", "division-by-zero" if "zero" in (e.message or "") else "non-integer-in-expression", os.path.basename(e.filepath or ""), e.lineno or 0)
        except ParserError as e:
            return jid, ("reject", RULE.get(type(e).__name__, type(e).__name__), os.path.basename(e.filepath or ""), e.lineno or 0)
        except OSError:
            return jid, ("reject", "os-error", "", 0)
        except BaseException as e:  # noqa: BLE001 - C09's subject; not compared here
            return jid, ("internal", type(e).__name__)
    finally:
        shutil.rmtree(d, ignore_errors=True)


def make_jobs(rng: random.Random, n_mut: int, n_gen: int) -> List[Tuple[str, Dict[str, bytes], str]]:
    bases = [(f, m) for (f, m) in P9.repo_bases() + P9.generated_bases(rng, n_gen) if all("/" not in n for n in f)]
    jobs: List[Tuple[str, Dict[str, bytes], str]] = [("0-base", f, m) for (f, m) in bases]
    for _ in range(n_mut):
        files, main = bases[rng.randrange(len(bases))]
        text = files[main].decode("utf-8", "replace")
        c = rng.random()
        if c < 0.4:
            st, new = "1-chars", P9.mutate_chars(rng, text)
        elif c < 0.7:
            st, new = "2-tokens", P9.mutate_tokens(rng, text)
        elif c < 0.85:
            st, new = "3-random-tokens", P9.random_tokens(rng)
        else:
            st, new = "4-truncation", text[: rng.randrange(len(text) + 1)]
        if "\x00" in new or len(new) > 8000:
            continue
        try:
            data = new.encode("utf-8")
        except UnicodeEncodeError:
            continue
        jobs.append((st, {**files, main: data}, main))
    return jobs


FIXED = [
    # the order of push_member: a taken name is reported before the scope refuses the kind of member (compiler and reference)
    ({"m.bitproto": "proto a\nmessage M {\n  message D { }\n  type D = uint3\n}\n"}, "m.bitproto", "duplicate-definition", "m.bitproto", 4),
    ({"m.bitproto": "proto a\nmessage M {\n  type D = uint3\n}\n"}, "m.bitproto", "alias-in-message", "m.bitproto", 3),
    ({"m.bitproto": "proto a\nenum E : uint3 {\n  A = 0\n  option A = 1\n}\n"}, "m.bitproto", "duplicate-definition", "m.bitproto", 4),
    ({"m.bitproto": "proto a\nmessage M {\n  uint3 K = 1\n  const K = 2\n}\n"}, "m.bitproto", "duplicate-definition", "m.bitproto", 4),
    ({"s.bitproto": "proto s\nconst A = 1\n", "m.bitproto": 'proto m\nconst s = 1\nmessage M {\n  import "s.bitproto"\n}\n'}, "m.bitproto", "duplicate-definition", "m.bitproto", 4),
    # (files, main, expected rule, file, line): rules about FILES hold whatever the spelling of the path
    ({"s.bitproto": "proto s\nconst A = 1\n", "m.bitproto": 'proto m\nimport "s.bitproto"\nimport again "./s.bitproto"\n'}, "m.bitproto", "duplicate-import", "m.bitproto", 3),
    ({"s.bitproto": "proto s\nconst A = 1\n", "m.bitproto": 'proto m\nimport one "./s.bitproto"\nimport two "././s.bitproto"\n'}, "m.bitproto", "duplicate-import", "m.bitproto", 3),
    ({"s.bitproto": "proto s\nconst A = 1\n", "m.bitproto": 'proto m\nimport one "s.bitproto"\nimport two "x/../s.bitproto"\n'}, "m.bitproto", "os-error", "", 0),
    ({"s.bitproto": 'proto s\nimport back "./m.bitproto"\n', "m.bitproto": 'proto m\nimport "s.bitproto"\n'}, "m.bitproto", "cyclic-import", "s.bitproto", 2),
    ({"m.bitproto": 'proto m\nimport me "./m.bitproto"\n'}, "m.bitproto", "cyclic-import", "m.bitproto", 2),
    ({"s.bitproto": "proto s\nconst A = 1\n", "m.bitproto": 'proto m\nimport "s.bitproto"\nimport t "s.bitproto"\n'}, "m.bitproto", "duplicate-import", "m.bitproto", 3),
    ({"s.bitproto": "proto s\nconst A = 1\n", "m.bitproto": 'proto m\nimport a "./s.bitproto"\nconst B = a.A\n'}, "m.bitproto", None, "", 0),
    # a definition is visible only after it closes: no self-reference, no reference to a message that is still open
    ({"m.bitproto": "proto m\nmessage Node {\n    uint8 value = 1\n    Node next = 2\n}\n"}, "m.bitproto", "undefined-type", "m.bitproto", 4),
    ({"m.bitproto": "proto m\nmessage Tree {\n    Tree[2] children = 1\n}\n"}, "m.bitproto", "undefined-type", "m.bitproto", 3),
    ({"m.bitproto": "proto m\nmessage A {\n    message B {\n        A back = 1\n    }\n}\n"}, "m.bitproto", "undefined-type", "m.bitproto", 4),
    ({"m.bitproto": "proto m\nmessage A {\n    message B {\n        A.B again = 1\n    }\n}\n"}, "m.bitproto", "undefined-type", "m.bitproto", 4),
    # ... but an EARLIER outer definition of the same name is what such a use means
    ({"m.bitproto": "proto m\nmessage Node {\n    uint3 a = 1\n}\nmessage Tree {\n    message Node {\n        Node inner = 1\n    }\n}\n"}, "m.bitproto", None, "", 0),
    # the innermost declaration of a name wins even when it is of the wrong kind (then the use is an error)
    ({"m.bitproto": "proto m\nenum Color : uint3 {\n    COLOR_A = 0\n}\nmessage Pen {\n    uint8 Color = 1\n    Color tint = 2\n}\n"}, "m.bitproto", "not-a-type", "m.bitproto", 7),
    ({"m.bitproto": "proto m\nconst N = 4\nmessage M {\n    enum N : uint3 {\n        N_A = 0\n    }\n    byte[N] data = 1\n}\n"}, "m.bitproto", "not-a-constant", "m.bitproto", 7),
    ({"m.bitproto": "proto m\nmessage Frame {\n    message Header {\n        uint5 h = 1\n    }\n}\nmessage Box {\n    message Frame {\n        uint3 Header = 1\n    }\n    Frame.Header x = 1\n}\n"}, "m.bitproto", "not-a-type", "m.bitproto", 11),
    # what Python calls white space but the lexer does not ignore is an invalid token, also at the very end
    ({"m.bitproto": "proto m\nmessage M { }\n\x0c"}, "m.bitproto", "lex", "m.bitproto", 3),
    ({"m.bitproto": "proto m\nmessage M { }\n\x0b  \n\n"}, "m.bitproto", "lex", "m.bitproto", 3),
    ({"m.bitproto": "proto m\nmessage M { }\n\u00a0\n"}, "m.bitproto", "lex", "m.bitproto", 3),
    # arithmetic is exact whatever the size
    ({"m.bitproto": "proto m\nconst A = " + "9" * 400 + " / " + "3" * 399 + "\nmessage M {\n    byte[A] d = 1\n}\n"}, "m.bitproto", None, "", 0),
]


def check_fixed(run: common.Run, drv: common.Driver) -> None:
    answers = drv.batch([{"op": "text.check", "files": [{"name": n, "text": t} for n, t in files.items()], "main": main} for (files, main, *_rest) in FIXED])
    for (files, main, rule, efile, eline), a in zip(FIXED, answers):
        _, real = work((0, {n: t.encode() for n, t in files.items()}, main))
        run.evaluated()
        run.count("text:fixed")
        rep = {"input": {"files": files, "main": main}, "stream": "text:fixed"}
        want = ("ok",) if rule is None else ("reject", rule, efile, eline)
        if real != want:
            run.violation(dict(rep, kind="impl-vs-spec", observed_impl=real, expected_by_spec=want))
            continue
        model = ("ok",) if "ok" in a else ("reject", a["diag"]["rule"], a["diag"]["file"] if a["diag"]["rule"] != "os-error" else "", a["diag"]["line"] if a["diag"]["rule"] != "os-error" else 0)
        if model != want:
            run.notes.setdefault("model_disagreements", []).append(dict(rep, observed_impl=real, model_answer=a))


def check_text(run: common.Run, drv: common.Driver, rng: random.Random, tier: str) -> None:
    check_fixed(run, drv)
    n_mut = {"quick": 1500, "thorough": 40000}[tier]
    jobs = make_jobs(rng, n_mut, 16 if tier == "quick" else 200)
    reqs = []
    keep = []
    for i, (st, files, main) in enumerate(jobs):
        try:
            fj = [{"name": n, "text": d.decode("utf-8")} for n, d in files.items()]
        except UnicodeDecodeError:
            continue
        reqs.append({"op": "text.check", "files": fj, "main": main})
        keep.append(i)
    with R.Scratch(prefix="bpv-text-") as wsc:
        WORK_ROOT[0] = wsc.dir
        try:
            with mp.get_context("fork").Pool(min(14, os.cpu_count() or 4)) as pool:
                reals = dict(pool.imap_unordered(work, [(i, jobs[i][1], jobs[i][2]) for i in keep], chunksize=16))
        finally:
            WORK_ROOT[0] = None
    answers = []
    for k in range(0, len(reqs), 400):
        answers += drv.batch(reqs[k:k + 400])
    for i, a in zip(keep, answers):
        st, files, main = jobs[i]
        real = reals[i]
        run.evaluated()
        if real[0] == "internal":
            run.count("text:real-internal(C09)")
            continue
        macc, racc = "ok" in a, real[0] == "ok"
        rep = {"input": {"files": {n: d.decode("utf-8", "backslashreplace") for n, d in files.items()}, "main": main}, "stream": "text:" + st}
        if macc != racc:
            run.violation(dict(rep, kind="impl-vs-spec", observed_impl=real, expected_by_spec=("accepted" if macc else a.get("diag")),
                               note="the text-level reference (documented grammar and rules) and the compiler disagree on acceptance"))
            continue
        if racc:
            run.count(f"text:{st}:accept")
            run.nontrivial(("text", st, "accept", len(a.get("ok", []))))
            continue
        d = a["diag"]
        same = d["rule"] == real[1] and d["line"] == real[3] and (d["file"] == real[2] or real[1] == "os-error")
        run.count(f"text:{st}:reject:{'same rule and line' if same else 'differs'}")
        run.nontrivial(("text", st, real[1], d["rule"]))
        if not same and d["rule"] not in SYNTACTIC and real[1] not in SYNTACTIC:
            if d["rule"] == real[1]:
                # the same rule, reported against another file or line: the diagnostic does not cite the place of the violation
                run.violation(dict(rep, kind="impl-vs-spec", observed_impl=real, expected_by_spec=d,
                                   note="the diagnostic must cite the file and line of the violating statement"))
            else:
                run.notes.setdefault("model_disagreements", []).append(dict(rep, observed_impl=real, model_answer=d,
                                                                             what="both sides report a semantic error, but not the same rule"))
