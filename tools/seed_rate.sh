#!/bin/bash
# usage: tools/seed_rate.sh <seed-name> <Cxx> [nseeds]  — detection rate of one seeded change over several VERIF_SEED values
name=$1; c=$2; n=${3:-5}
git -C /repo checkout -- . ; git -C /repo apply /verif/seeded/$name/patch.diff || exit 2
hit=0
for s in $(seq 0 $((n-1))); do
  if ! VERIF_SEED=$s /verif/check.sh $c quick >/dev/null 2>&1; then hit=$((hit+1)); fi
done
git -C /repo checkout -- . ; git -C /verif checkout -- evidence 2>/dev/null
echo "$name $c detected $hit/$n"
