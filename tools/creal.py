"""Adapter to the REAL C code: /repo/lib/c/bitproto.c and generated C, built with gcc from the
working tree into a scratch directory and driven through ctypes.

Struct access goes through a generated *shim* (one set/get/enc/dec function per message) that
uses the documented C names (struct, field, typedef names — C15), so no ctypes mirror of the
struct layout is needed.  Values cross as arrays of uint64 two's-complement patterns in the
canonical leaf order (fields by number, arrays elementwise, nested messages recursively).
The shim's buffers and structs sit between 0xA5 guard zones that are checked after every call.
"""
from __future__ import annotations

import ctypes
import os
import subprocess
from typing import Any, Dict, List, Optional, Tuple

from . import common
from . import gen as G
from . import real as R

LIBC_DIR = os.path.join(common.REPO, "lib", "c")
GUARD = 64


def run_gcc(args: List[str], cwd: str) -> Tuple[bool, str]:
    p = subprocess.run(["gcc"] + args, cwd=cwd, capture_output=True, text=True)
    return p.returncode == 0, p.stderr[-2000:]


_rt_cache: Dict[Tuple, str] = {}


def runtime_object(sc: R.Scratch, flags: Tuple[str, ...]) -> str:
    """bitproto.c compiled once per flag set into the scratch dir"""
    key = (sc.dir, flags)
    if key in _rt_cache:
        return _rt_cache[key]
    name = "rt_" + "_".join(f.strip("-").replace("=", "").replace("/", "-") for f in flags) + ".o"
    ok, err = run_gcc(list(flags) + ["-fPIC", "-c", os.path.join(LIBC_DIR, "bitproto.c"), "-I", LIBC_DIR, "-o", name], sc.dir)
    if not ok:
        raise RuntimeError("gcc failed on bitproto.c: " + err)
    _rt_cache[key] = sc.path(name)
    return _rt_cache[key]


def runtime_lib(sc: R.Scratch, flags: Tuple[str, ...]) -> ctypes.CDLL:
    """shared object of the runtime alone (direct calls to BpCopyBufferBits etc.)"""
    obj = runtime_object(sc, flags)
    so = obj[:-2] + ".so"
    if not os.path.exists(so):
        ok, err = run_gcc(["-shared", obj, "-o", so], sc.dir)
        if not ok:
            raise RuntimeError(err)
    return ctypes.CDLL(so)


class ProcCtx(ctypes.Structure):
    _fields_ = [("is_encode", ctypes.c_bool), ("i", ctypes.c_int), ("s", ctypes.POINTER(ctypes.c_ubyte))]


# ------------------------------------------------------------------ leaf order
def leaves(t, path: str, out: List[Tuple[str, Any]]) -> None:
    """(C lvalue path, leaf type) in canonical order"""
    if isinstance(t, G.TArray):
        for k in range(t.cap):
            leaves(t.elem, f"{path}[{k}]", out)
        return
    if isinstance(t, G.TRef):
        d = t.d
        if isinstance(d, G.AliasDef):
            return leaves(d.type, path, out)
        if isinstance(d, G.MsgDef):
            for f in sorted(d.fields, key=lambda f: f.num):
                leaves(f.type, f"{path}.{f.name}", out)
            return
    out.append((path, t))


def leaf_signed(t) -> bool:
    return isinstance(t, G.TInt)


def flat_values(t, v, out: List[int]) -> None:
    if isinstance(t, G.TArray):
        for x in v:
            flat_values(t.elem, x, out)
        return
    if isinstance(t, G.TRef):
        d = t.d
        if isinstance(d, G.AliasDef):
            return flat_values(d.type, v, out)
        if isinstance(d, G.MsgDef):
            for f in sorted(d.fields, key=lambda f: f.num):
                flat_values(f.type, v[f.num], out)
            return
    out.append(int(v) & 0xFFFFFFFFFFFFFFFF)


def unflat_values(t, it) -> Any:
    if isinstance(t, G.TArray):
        return [unflat_values(t.elem, it) for _ in range(t.cap)]
    if isinstance(t, G.TRef):
        d = t.d
        if isinstance(d, G.AliasDef):
            return unflat_values(d.type, it)
        if isinstance(d, G.MsgDef):
            return {f.num: unflat_values(f.type, it) for f in sorted(d.fields, key=lambda f: f.num)}
    u = next(it)
    if leaf_signed(t):
        return u - (1 << 64) if u >> 63 else u
    return u


def c_struct(m: G.MsgDef, prefix: str = "") -> str:
    return "struct " + prefix + G.c_name(m)


def shim_source(s: G.Schema, header: str, prefix: str = "", json: bool = True) -> str:
    lines = ['#include <string.h>', '#include <stdint.h>', '#include <sys/mman.h>', '#include <setjmp.h>', '#include <signal.h>',
             '#include <unistd.h>', f'#include "{header}"', f"#define G {GUARD}",
             # a buffer of exactly n bytes whose last byte is the last byte of a page, followed by an inaccessible page:
             # a decoder that reads (or an encoder that writes) beyond the n bytes faults, the fault is caught and reported
             """
static sigjmp_buf shim_jb;
static void shim_fault(int sig) { (void)sig; siglongjmp(shim_jb, 1); }
static unsigned char *shim_fence(int n, size_t *len) {
  long ps = sysconf(_SC_PAGESIZE);
  size_t pages = ((size_t)n + ps - 1) / ps + 1;
  unsigned char *base = mmap(NULL, (pages + 1) * ps, PROT_READ | PROT_WRITE, MAP_PRIVATE | MAP_ANONYMOUS, -1, 0);
  if (base == MAP_FAILED) return NULL;
  mprotect(base + pages * ps, ps, PROT_NONE);
  *len = (pages + 1) * ps;
  return base + pages * ps - n;
}
static void shim_unfence(unsigned char *s, int n, size_t len) {
  long ps = sysconf(_SC_PAGESIZE);
  munmap(s + n + ps - len, len);
}"""]
    for m in s.messages():
        cn = prefix + G.c_name(m)
        lv: List[Tuple[str, Any]] = []
        leaves(G.TRef(m), "(*m)", lv)
        st = c_struct(m, prefix)
        lines.append(f"static void set_{cn}({st} *m, const unsigned long long *v) {{ (void)m; (void)v;")
        for k, (p, t) in enumerate(lv):
            if isinstance(t, G.TBool):
                lines.append(f"  {p} = (v[{k}] != 0);")
            else:
                lines.append(f"  {p} = v[{k}];")
        lines.append("}")
        lines.append(f"static void get_{cn}({st} *m, unsigned long long *v) {{ (void)m; (void)v;")
        for k, (p, t) in enumerate(lv):
            if leaf_signed(t):
                lines.append(f"  v[{k}] = (unsigned long long)(long long){p};")
            else:
                lines.append(f"  v[{k}] = (unsigned long long){p};")
        lines.append("}")
        # encode: struct between guards, out buffer supplied by the caller (with its own guards)
        lines.append(f"""
int shim_sizeof_{cn}(void) {{ return (int)sizeof({st}); }}
int shim_enc_{cn}(const unsigned long long *v, unsigned char *s) {{
  static unsigned char blob[G + sizeof({st}) + G + 16];
  memset(blob, 0xA5, sizeof blob);
  {st} *m = ({st} *)(blob + G);
  memset(m, 0, sizeof({st}));
  set_{cn}(m, v);
  Encode{cn}(m, s);
  for (int k = 0; k < G; k++) if (blob[k] != 0xA5 || blob[G + sizeof({st}) + k] != 0xA5) return 1;
  return 0;
}}
int shim_dec_{cn}(unsigned char *s, unsigned long long *v) {{
  static unsigned char blob[G + sizeof({st}) + G + 16];
  memset(blob, 0xA5, sizeof blob);
  {st} *m = ({st} *)(blob + G);
  memset(m, 0, sizeof({st}));
  Decode{cn}(m, s);
  get_{cn}(m, v);
  for (int k = 0; k < G; k++) if (blob[k] != 0xA5 || blob[G + sizeof({st}) + k] != 0xA5) return 1;
  return 0;
}}""")
        lines.append(f"""
int shim_decf_{cn}(const unsigned char *data, int n, unsigned long long *v) {{
  static unsigned char blob[G + sizeof({st}) + G + 16];
  size_t len = 0;
  unsigned char *s = shim_fence(n, &len);
  if (s == NULL) return -1;
  memcpy(s, data, n);
  memset(blob, 0xA5, sizeof blob);
  {st} *m = ({st} *)(blob + G);
  memset(m, 0, sizeof({st}));
  struct sigaction sa, o1, o2;
  memset(&sa, 0, sizeof sa);
  sa.sa_handler = shim_fault;
  sigemptyset(&sa.sa_mask);
  sigaction(SIGSEGV, &sa, &o1);
  sigaction(SIGBUS, &sa, &o2);
  volatile int rc = 0;
  if (sigsetjmp(shim_jb, 1) == 0) {{
    Decode{cn}(m, s);
    get_{cn}(m, v);
  }} else {{
    rc = 2;
  }}
  sigaction(SIGSEGV, &o1, NULL);
  sigaction(SIGBUS, &o2, NULL);
  shim_unfence(s, n, len);
  if (rc) return rc;
  for (int k = 0; k < G; k++) if (blob[k] != 0xA5 || blob[G + sizeof({st}) + k] != 0xA5) return 1;
  return 0;
}}""")
        if json:
            lines.append(f"""
int shim_json_{cn}(const unsigned long long *v, char *out) {{
  {st} m; memset(&m, 0, sizeof m); set_{cn}(&m, v);
  return Json{cn}(&m, out);
}}""")
    return "\n".join(lines) + "\n"


class CModule:
    """generated C for one schema + shim, built and loaded"""

    def __init__(self, sc: R.Scratch, s: G.Schema, text: str, base: str, cflags: Tuple[str, ...] = ("-O2",),
                 optimize: bool = False, endian: str = "both", single_tu: bool = False, prefix: str = "",
                 rt_flags: Optional[Tuple[str, ...]] = None) -> None:
        self.schema = s
        self.prefix = prefix
        path = sc.write(f"{base}.bitproto", text)
        proto = R.parse_file(path, traditional=optimize)
        out = R.render_strings(proto, "c", optimize=optimize, endian=endian)
        sub = f"{base}_{'O' if optimize else 'S'}_{endian}_{'_'.join(f.strip('-') for f in cflags)}{'_1tu' if single_tu else ''}"
        d = sc.path(sub)
        os.makedirs(d, exist_ok=True)
        self.h_text, self.c_text = out[".h"], out[".c"]
        open(os.path.join(d, f"{base}_bp.h"), "w").write(out[".h"])
        open(os.path.join(d, f"{base}_bp.c"), "w").write(out[".c"])
        open(os.path.join(d, "shim.c"), "w").write(shim_source(s, f"{base}_bp.h", prefix, json=not optimize))
        so = os.path.join(d, "lib.so")
        rtf = rt_flags if rt_flags is not None else cflags
        if single_tu:
            open(os.path.join(d, "all.c"), "w").write(
                # a unity build as a project would write it: libc headers first (they bring in <endian.h> and its macros)
                f'#include <stdlib.h>\n#include <stdio.h>\n#include <sys/types.h>\n'
                f'#include "{os.path.join(LIBC_DIR, "bitproto.c")}"\n#include "{base}_bp.c"\n#include "shim.c"\n')
            args = list(rtf) + ["-shared", "-fPIC", "-w", "-I", LIBC_DIR, "-I", d, "all.c", "-o", so]
        else:
            args = list(cflags) + ["-shared", "-fPIC", "-w", "-I", LIBC_DIR, "-I", d, f"{base}_bp.c", "shim.c",
                                   runtime_object(sc, rtf), "-o", so]
        ok, err = run_gcc(args, d)
        if not ok:
            raise RuntimeError("gcc failed on generated code: " + err)
        self.lib = ctypes.CDLL(so)

    def nleaves(self, m: G.MsgDef) -> int:
        return G.leaf_count(G.TRef(m))

    def encode(self, m: G.MsgDef, v: Dict[int, Any], prefill: int = 0) -> Tuple[bytes, bool, bool]:
        """returns (bytes, struct guards ok, buffer guards ok)"""
        cn = self.prefix + G.c_name(m)
        flat: List[int] = []
        flat_values(G.TRef(m), v, flat)
        arr = (ctypes.c_ulonglong * max(1, len(flat)))(*flat)
        n = (G.msg_nbits(m) + 7) // 8
        buf = (ctypes.c_ubyte * (GUARD + n + GUARD))(*([0xA5] * GUARD + [prefill] * n + [0xA5] * GUARD))
        p = ctypes.cast(ctypes.addressof(buf) + GUARD, ctypes.POINTER(ctypes.c_ubyte))
        rc = getattr(self.lib, f"shim_enc_{cn}")(arr, p)
        raw = bytes(buf)
        ok_buf = raw[:GUARD] == b"\xA5" * GUARD and raw[GUARD + n:] == b"\xA5" * GUARD
        return raw[GUARD:GUARD + n], rc == 0, ok_buf

    def decode(self, m: G.MsgDef, data: bytes) -> Tuple[Dict[int, Any], bool]:
        cn = self.prefix + G.c_name(m)
        nl = self.nleaves(m)
        arr = (ctypes.c_ulonglong * max(1, nl))()
        buf = (ctypes.c_ubyte * max(1, len(data)))(*data)
        # the buffer handed to the decoder ends exactly where an inaccessible page begins (shim_decf_*): reading beyond the
        # bytes of the message faults; rc 2 = fault caught, rc 1 = guard zone around the struct damaged
        rc = getattr(self.lib, f"shim_decf_{cn}")(buf, len(data), arr)
        self.last_decode_rc = rc
        if rc < 0:
            rc = getattr(self.lib, f"shim_dec_{cn}")(buf, arr)
        return unflat_values(G.TRef(m), iter(list(arr)[:nl])), rc == 0

    def json(self, m: G.MsgDef, v: Dict[int, Any]) -> str:
        cn = self.prefix + G.c_name(m)
        flat: List[int] = []
        flat_values(G.TRef(m), v, flat)
        arr = (ctypes.c_ulonglong * max(1, len(flat)))(*flat)
        out = ctypes.create_string_buffer(1 << 20)
        n = getattr(self.lib, f"shim_json_{cn}")(arr, out)
        return out.raw[:n].decode("latin-1")
