"""Property id -> proof module, obligations (theorem names), exploration function."""
from __future__ import annotations

from . import props_wire
from . import props_c
from . import real as R

SIZES = {
    # (schemas, values per message)
    "C01": {"quick": (150, 6), "thorough": (3000, 12)},
    "C02": {"quick": (150, 6), "thorough": (3000, 12)},
}


def _n(tier, q, t):
    return q if tier == "quick" else t


def _c01(run, drv, rng, tier):
    n, k = SIZES["C01"][tier]
    props_wire.check_c01(run, drv, rng, n, k)
    props_wire.check_multifile(run, drv, rng, _n(tier, 10, 200), 2, "C01")


def _c02(run, drv, rng, tier):
    n, k = SIZES["C02"][tier]
    props_wire.check_c02(run, drv, rng, n, k)
    props_wire.check_multifile(run, drv, rng, _n(tier, 10, 200), 2, "C02")


def _c05(run, drv, rng, tier):
    n, k = {"quick": (60, 3), "thorough": (1500, 6)}[tier]
    props_wire.check_c05(run, drv, rng, n, k)


def _c03(run, drv, rng, tier):
    with R.Scratch() as sc:
        if tier == "quick":
            props_c.check_copier(run, drv, rng, sc, 4000, False, ("-O2",), "C03")
            props_c.check_basetype_grid(run, drv, rng, sc, False, ("-O2",), 0.12, "C03")
            props_c.check_array_grid(run, drv, rng, sc, False, ("-O2",), 0.12, "C03")
            props_c.check_compiled(run, drv, rng, sc, 24, 4, [{"name": "O2", "cflags": ("-O2",)},
                                                              {"name": "O2-single-TU", "cflags": ("-O2",), "single_tu": True}], "C03")
        else:
            for fl in (("-O0",), ("-O2",), ("-O3",)):
                props_c.check_copier(run, drv, rng, sc, 60000, False, fl, "C03")
                props_c.check_basetype_grid(run, drv, rng, sc, False, fl, 1.0, "C03")
                props_c.check_array_grid(run, drv, rng, sc, False, fl, 1.0, "C03")
            cfgs = [{"name": "O0", "cflags": ("-O0",)}, {"name": "O2", "cflags": ("-O2",)}, {"name": "O3", "cflags": ("-O3",)},
                    {"name": "O2-single-TU", "cflags": ("-O2",), "single_tu": True},
                    {"name": "O1-asan-ubsan", "cflags": ("-O1", "-fsanitize=undefined", "-fno-sanitize=alignment", "-fno-sanitize-recover=all")}]
            props_c.check_compiled(run, drv, rng, sc, 250, 6, cfgs, "C03")


def _c08(run, drv, rng, tier):
    from . import props_c08, props_text
    props_text.check_text(run, drv, rng, tier)
    props_c08.check(run, drv, rng, tier)


def _c11(run, drv, rng, tier):
    from . import props_c08, props_text
    props_text.check_fixed(run, drv)  # visibility and innermost-wins cases as text (self-reference, wrong-kind shadowing, ...)
    props_c08.check_c11(run, drv, rng, tier)


def _c19(run, drv, rng, tier):
    from . import props_c19
    props_c19.check_go_helpers(run)
    props_c19.check(run, drv, rng, tier)


def _c12(run, drv, rng, tier):
    from . import props_c12
    props_c12.check(run, drv, rng, tier)


def _c16(run, drv, rng, tier):
    from . import props_c16, ties
    ties.tie_json(run, drv, rng, _n(tier, 25, 600))
    ties.tie_json_text(run, drv, rng, _n(tier, 20, 400), _n(tier, 8, 120))
    props_c16.check(run, drv, rng, tier)


def _c20(run, drv, rng, tier):
    from . import props_c20, ties
    ties.tie_lint(run, drv, rng, _n(tier, 200, 5000))
    ties.tie_cli(run, drv, rng, _n(tier, 15, 300))
    ties.lint_advisory_fixed(run)
    props_c20.check(run, drv, rng, tier)


def _c10(run, drv, rng, tier):
    from . import props_c10, ties
    ties.tie_emit(run, drv, rng, _n(tier, 30, 800))
    props_c10.check(run, drv, rng, tier)


def _c09(run, drv, rng, tier):
    from . import props_c09
    props_c09.check(run, drv, rng, tier)


def _c15(run, drv, rng, tier):
    from . import props_c15
    props_c15.check(run, drv, rng, tier)


def _c17(run, drv, rng, tier):
    from . import props_c17, ties
    ties.tie_cli(run, drv, rng, _n(tier, 30, 600))
    ties.tie_emitted(run, drv, rng, _n(tier, 25, 500))
    ties.cli_filter_edges(run)
    props_c17.check(run, drv, rng, tier)


def _c18(run, drv, rng, tier):
    from . import props_c18, ties
    ties.tie_memo(run, drv, rng, _n(tier, 200, 5000))
    ties.tie_cli(run, drv, rng, _n(tier, 15, 300))
    ties.determinism_fixed(run)
    props_c18.check(run, drv, rng, tier)


def _c13(run, drv, rng, tier):
    from . import props_c13
    props_c13.check(run, drv, rng, tier)


FRONT_ASSUME = [
    "PLY's LALR automaton is not modelled: the model is a second implementation of the same grammar fragment, tied by correspondence",
    "CPython semantics used by the compiler (unbounded ints, str methods, dict order) as modelled",
]


def _c04(run, drv, rng, tier):
    from . import props_op
    with R.Scratch() as sc:
        n, k = (14, 4) if tier == "quick" else (260, 8)
        props_op.check_c04(run, drv, rng, sc, n, k)


def _c06(run, drv, rng, tier):
    with R.Scratch() as sc:
        n, frac = (3000, 0.25) if tier == "quick" else (80000, 1.0)
        props_c.check_copier(run, drv, rng, sc, n, True, ("-O2",), "C06")
        props_c.check_basetype_grid(run, drv, rng, sc, True, ("-O2",), frac, "C06")
        props_c.check_basetype_grid(run, drv, rng, sc, False, ("-O2",), frac / 2, "C06")
        props_c.check_array_grid(run, drv, rng, sc, True, ("-O2",), frac, "C06")
        props_c.check_detection(run, drv, rng, sc, ("-O2",))
        if tier == "thorough":
            props_c.check_basetype_grid(run, drv, rng, sc, True, ("-O0",), 1.0, "C06")
        from . import props_op
        props_op.check_c06_opmode(run, drv, rng, sc, 10 if tier == "quick" else 150)


def _c07(run, drv, rng, tier):
    q = tier == "quick"
    with R.Scratch() as sc:
        props_c.check_size_constants(run, drv, rng, sc, 40 if q else 800)
        props_c.check_copier(run, drv, rng, sc, 2500 if q else 60000, False, ("-O2",), "C07")
        props_c.check_compiled(run, drv, rng, sc, 14 if q else 200, 4 if q else 8, [{"name": "O2-overdriven", "cflags": ("-O2",)}],
                               "C07", overdriven=True)
        if not q:
            props_c.check_compiled(run, drv, rng, sc, 80, 6,
                                   # UBSan only: an AddressSanitizer-instrumented shared object cannot be loaded into the (uninstrumented)
                                   # Python process through ctypes; memory outside the objects is watched by the guard zones
                                   [{"name": "ubsan", "cflags": ("-O1", "-fsanitize=undefined", "-fno-sanitize=alignment",
                                                                 "-fno-sanitize-recover=all")}], "C07")
        from . import props_op
        props_op.check_c07_opmode(run, drv, rng, sc, 8 if q else 120)
    props_c.check_py_overdrive(run, drv, rng, 40 if q else 800, 4 if q else 8)


def _c14(run, drv, rng, tier):
    q = tier == "quick"
    # the Python runtime first: it is the cheapest to execute and its helpers are the ones the translator regenerates
    props_c.check_c14_python(run, drv, rng, 0.25 if q else 1.0)
    with R.Scratch() as sc:
        for be in (False, True):
            for fl in ((("-O2",),) if q else (("-O0",), ("-O2",))):
                props_c.check_basetype_grid(run, drv, rng, sc, be, fl, 1.0, "C14")
                props_c.check_array_grid(run, drv, rng, sc, be, fl, 0.5 if q else 1.0, "C14")
        from . import props_op
        props_op.check_c14_opmode(run, drv, rng, sc, 0.08 if q else 1.0)
    run.coverage["exhaustive"] = not q


C_ASSUME = [
    "C abstract machine on an LP64 little-endian target as modelled in Model/CRt*.lean (integer promotions, casts, sizeof of fixed-width types, contiguous arrays); struct padding abstracted (cells addressed through descriptor pointers)",
    "the C compiler/optimiser is outside the model: the optimisation-level x translation-unit grid is executed as validation only",
    "descriptor tables emitted by the C renderer are tied by executing the generated code, not by a theorem",
]

PY_ASSUME = [
    "CPython semantics used by bp.py and the generated code (unbounded ints, bytearray range check, dataclasses, IntEnum) are as modelled in Model/PyRt.lean",
    "the accessor layer (DataIndexer / bp_get_byte / bp_set_byte dispatch) is abstracted to 'the leaf at the path'; it is tied by executing the real generated code",
]

PROPS = {
    "C01": {
        "wire_corpus": True,
        "modules": ["BpModel.Props.C01"],
        "theorems": [
            "Bp.C01.C01_py_encode_is_spec", "Bp.C01.C01_py_encode_in_range", "Bp.C01.C01_length",
            "Bp.C01.C01_nbits_of_stream", "Bp.C01.C01_bit", "Bp.C01.C01_padding", "Bp.C01.C01_scalar_bits",
            "Bp.C01.C01_scalar_unsigned", "Bp.C01.C01_nbits", "Bp.C01.C01_message_layout",
            "Bp.C01.C01_array_layout", "Bp.C01.C01_sort_perm", "Bp.C01.C01_sort_ascending",
            "Bp.C01.C01_helpers_tied",
        ],
        "explore": _c01,
        "correspondence": "py.encode vs generated encode()",
        "rule": "seeded schema generator (tools/gen.py) x boundary-biased in-range values; every message of every "
                "schema is compiled by the real compiler and executed; a case is non-trivial/distinct by its "
                "(leaf kind, width, stream offset mod 8) triples",
        "assumptions": PY_ASSUME,
    },
    "C02": {
        "wire_corpus": True,
        "modules": ["BpModel.Props.C02"],
        "theorems": [
            "Bp.C02.C02_roundtrip_partial", "Bp.C02.C02_spec_roundtrip", "Bp.C02.C02_signed_leaf",
            "Bp.C02.C02_signed_value", "Bp.C02.C02_casts_tied", "Bp.C02.KF_py_enum_default_witness",
        ],
        "explore": _c02,
        "correspondence": "py.decode vs generated decode()",
        "rule": "as C01, plus decode into a fresh message and re-encode; cases hitting KF-py-enum-default are "
                "attributed to the known finding only if the observed value equals the encoded value OR-ed with "
                "the enum's first member at every enum leaf",
        "assumptions": PY_ASSUME,
    },
    "C05": {
        "modules": ["BpModel.Props.C05"],
        "theorems": [
            "Bp.C05.C05_spec", "Bp.C05.C05_py", "Bp.C05.C05_c", "Bp.C05.C05_cursor", "Bp.C05.C05_chain", "Bp.C05.C05_refl",
            "Bp.C05.C05_step_append", "Bp.C05.C05_step_grow", "Bp.C05.KF_array_skip_old_formula_witness",
        ],
        "explore": _c05,
        "correspondence": "py.decode (older schema) vs generated decode() on newer bytes",
        "rule": "newest schema generated, older versions derived by dropping highest-numbered fields of extensible "
                "messages / shrinking extensible arrays at any depth (chains of 1-3 steps); newest value encoded by "
                "the real newest module, decoded by every older real module, compared with the projection; "
                "non-trivial = pair whose types really differ, distinct by (old shape, new shape)",
        "assumptions": PY_ASSUME + ["C runtime: tied by execution only in this check until the CRt model covers messages (see C03)",
                                    "Go runtime: same formula by inspection; Go is never executed here"],
    },
    "C03": {
        "wire_corpus": True,
        "modules": ["BpModel.Props.C03"],
        "theorems": ["Bp.C03.C03_c_encode", "Bp.C03.C03_c_decode", "Bp.C03.C03_interop", "Bp.C03.C03_copier",
                     "Bp.C03.C03_batch_eq_loop", "Bp.C03.C03_sign", "Bp.C03.C03_storage_tied"],
        "explore": _c03,
        "correspondence": "c.copybits / c.encode / c.decode vs lib/c/bitproto.c and generated C through gcc + ctypes",
        "rule": "direct ctypes calls to BpCopyBufferBits (random n, di, si, memory; guard zones) and "
                "BpEndecodeBaseType/Int over the (kind, offset) grid with basis values; generated schemas compiled "
                "with gcc and executed (Encode on zeroed buffer, Decode into zeroed struct); distinct by first copier "
                "path / (kind,width,offset) / leaf triples per config",
        "assumptions": C_ASSUME,
    },
    "C06": {
        "modules": ["BpModel.Props.C06"],
        "theorems": ["Bp.C06.C06_rt_encode", "Bp.C06.C06_rt_decode", "Bp.C06.C06_stage_in", "Bp.C06.C06_stage_out",
                     "Bp.C06.C06_copier_build_indep", "Bp.C06.C06_leaf", "Bp.C06.C06_detect"],
        "explore": _c06,
        "correspondence": "c.copybits (be) / base-type grid vs the -DBP_BIG_ENDIAN build fed byte-reversed cells",
        "rule": "the -DBP_BIG_ENDIAN runtime on this x86 host fed byte-reversed storage (the property's observation "
                "point): copier calls and the complete (kind, offset) grid; optimisation-mode big-endian branch vs "
                "little-endian branch on generated traditional schemas",
        "assumptions": C_ASSUME + ["a real big-endian CPU/compiler is outside the model and the sandbox; sign fix-up of "
                                   "non-standard signed widths reads a native integer and is applied natively in the emulation"],
    },
    "C07": {
        "wire_corpus": True,
        "modules": ["BpModel.Props.C07"],
        "theorems": ["Bp.C07.C07_size_const", "Bp.C07.C07_leaf_low_bits", "Bp.C07.C07_spec_mask", "Bp.C07.C07_py_mask",
                     "Bp.C07.C07_c_mask", "Bp.C07.C07_c_encode_in_bounds", "Bp.C07.C07_c_decode_in_bounds",
                     "Bp.C07.C07_py_in_bounds", "Bp.C07.C07_copier_bounds"],
        "explore": _c07,
        "correspondence": "size constants parsed from .h/.go/.py; guard zones around buffers and structs; overdriven fields",
        "rule": "size constants of every message in the three outputs vs ceil(N/8); C Encode/Decode between 0xA5 guard "
                "zones with integer cells holding arbitrary 64-bit patterns; Python encode with arbitrary ints in "
                "integer fields; thorough: ASan/UBSan build (alignment check excluded)",
        "assumptions": C_ASSUME + PY_ASSUME,
    },
    "C14": {
        "modules": ["BpModel.Props.C14"],
        "theorems": ["Bp.C14.frames_wf", "Bp.C14.batch_table", "Bp.C14.C14", "Bp.C14.C14_helpers_tied"],
        "explore": _c14,
        "correspondence": "complete finite (kind, offset, position) space executed on the Python and C runtimes",
        "rule": "130 kinds x 8 offsets x {scalar, array element, alias, array of alias} with zero/all-ones/every "
                "single bit/min/max/-1 + random values; C little- and big-endian builds always complete, Python and "
                "the optimisation-mode generator a seeded fraction in the quick tier, complete in the thorough tier",
        "assumptions": C_ASSUME + PY_ASSUME,
    },
    "C04": {
        "modules": ["BpModel.Props.C04"],
        "theorems": ["Bp.C04.C04_plan_cover", "Bp.C04.C04_encode", "Bp.C04.C04_same_as_standard", "Bp.C04.C04_decode",
                     "Bp.C04.C04_leaf", "Bp.C04.C04_leaf_dec", "Bp.C04.C04_endian_select", "Bp.C04.C04_mask_tied"],
        "explore": _c04,
        "correspondence": "generated Encode*/Decode* statements (C little-endian branch, C big-endian branch, Go) parsed into items vs op.plan; C executed",
        "rule": "traditional schemas from the seeded generator; every generated program (C --endian both/little/big, Go) "
                "is parsed statement by statement and compared with the Lean plan; C objects built for --endian "
                "little, big, both and both with -DBP_BIG_ENDIAN are executed on boundary-biased values and compared "
                "with the specification; distinct by leaf triples per direction/config",
        "assumptions": C_ASSUME + ["Go statements are never executed (no toolchain): their meaning is the Go item semantics "
                                   "(byte() truncation, typed shifts, arithmetic >> on signed) written from the language specification"],
    },
    "C13": {
        "modules": ["BpModel.Props.C13"],
        "theorems": ["Bp.C13.C13_parse_print", "Bp.C13.C13_eval_lit", "Bp.C13.C13_eval_ref", "Bp.C13.C13_eval_add",
                     "Bp.C13.C13_eval_sub", "Bp.C13.C13_eval_mul", "Bp.C13.C13_eval_div", "Bp.C13.C13_eval_div_zero",
                     "Bp.C13.C13_emit_int", "Bp.C13.C13_emit_bool", "Bp.C13.C13_emit_str", "Bp.C13.C13_tables_tied"],
        "explore": _c13,
        "correspondence": "front.eval vs parsed constant values; emit.* vs emitted literals in .h/.go/.py",
        "rule": "random expression trees over decimal/hex literals and references to earlier (also imported) constants, "
                "printed with minimal + random redundant parentheses; value in the real parsed proto vs the harness' own "
                "arithmetic vs the Lean model; use as array capacity; bool and string constants over the lexer's alphabet "
                "and escapes; every emitted literal read back (Python executed, C probe compiled and run, Go literal "
                "reader); distinct by expression / literal text",
        "assumptions": FRONT_ASSUME + ["literal syntax of C, Go, Python as modelled in Model/Lit.lean (decimal ints, bool keywords, "
                                       "double-quoted strings with the escapes \\\\ \\\" \\n \\t \\r)"],
    },
    "C08": {
        "modules": ["BpModel.Props.C08"],
        "theorems": ["Bp.C08.C08_accept_wf", "Bp.C08.C08_uint_width", "Bp.C08.C08_int_width", "Bp.C08.C08_array_cap",
                     "Bp.C08.C08_limits_tied", "Bp.C08.C08_size_boundaries", "Bp.C08.C08_field_number_boundaries", "Bp.C08.C08_text_examples", "Bp.C08.C08_text_accept_wf",
                     "Bp.C08.C08_duplicate_before_placement", "Bp.C08.C08_placement_when_free", "Bp.C08.C08_text_examples_order"],
        "explore": _c08,
        "correspondence": "front.check (Lean reference of the documented rules, abstract syntax) and text.check (Lex.lex -> Parse.parseText -> "
                          "checkProgram on arbitrary TEXT) vs bitproto.parser.parse: verdict, rule family, file, line",
        "rule": "programs with shadowing, dotted paths, imports, constants, options (tools/front.py); ~60% carry exactly one "
                "violation from a catalogue of 28 kinds (boundary values on both sides of every numeric limit, placement, "
                "options, references, imports, traditional mode); compared on accept/reject, error-class family, file and "
                "line; CLI exit status / stderr / absence of output on a sample; distinct by (rule, file, line) and by "
                "elaborated message types; text level: /repo's own .bitproto files and generated programs under character / token "
                "mutations, random token sequences and truncations (see tools/props_text.py)",
        "assumptions": FRONT_ASSUME + ["the 'iff' against the real compiler rests on the correspondence; the theorems are about the Lean reference"],
    },
    "C11": {
        "modules": ["BpModel.Props.C11"],
        "theorems": ["Bp.C11.C11_innermost", "Bp.C11.C11_outward", "Bp.C11.C11_no_scope", "Bp.C11.C11_dotted_msg",
                     "Bp.C11.C11_dotted_import", "Bp.C11.C11_earlier_only", "Bp.C11.C11_elab_uses_resolved"],
        "explore": _c11,
        "correspondence": "elaborated type of every message (which definition each name resolved to): real AST vs Lean reference vs harness resolver",
        "rule": "valid programs over a small name pool so that the same name is declared in several enclosing scopes and in "
                "imported files (with and without `as`), nested definitions and fields interleaved, dotted paths up to "
                "length 3; the elaborated (normalised) type of every message is compared three ways; distinct by message "
                "path and type",
        "assumptions": FRONT_ASSUME,
    },
    "C19": {
        "modules": ["BpModel.Props.C19"],
        "theorems": ["Bp.C19.C19_getMask", "Bp.C19.C19_getNbitsToCopy", "Bp.C19.C19_min", "Bp.C19.C19_smartShift",
                     "Bp.C19.C19_smartShift_masked", "Bp.C19.C19_bool_byte", "Bp.C19.C19_storage_smallest",
                     "Bp.C19.C19_sign_pair", "Bp.C19.C19_sign_needed"],
        "explore": _c19,
        "wire_corpus": True,
        "correspondence": "generated .go text parsed structurally vs the abstract schema and vs the Python module's processor tree",
        "rule": "generated schemas (nesting, aliases, enums, arrays, extensible markers); per message: struct fields "
                "(order, Go types, JSON tags), size constants (Go = Python = ceil(N/8)), processor tree resolved through "
                "enum/alias/message BpProcessor methods, BpSetByte/BpGetByte/BpGetAccessor/BpProcessInt case tables "
                "(label, data reference, index depth, conversion type, sign shifts); distinct by processor tree",
        "assumptions": ["Go is never compiled or executed: Go claims rest on the Go-subset translator for the helpers and on "
                        "structural parsing of the generated text; Go operator semantics as in Model/GoOp.lean"],
    },
    "C12": {
        "modules": ["BpModel.Props.C12"],
        "theorems": ["Bp.C12.ascending_perm_unique", "Bp.C12.C12_reorder_fields", "Bp.C12.C12_alias", "Bp.C12.C12_alias_encode",
                     "Bp.C12.C12_renumber", "Bp.C12.C12_numbers_not_on_wire", "Bp.C12.C12_compose"],
        "explore": _c12,
        "correspondence": "bytes of generated Python encoders for the original and the rewritten schema on corresponding values",
        "rule": "valid schemas x random sequences (1-5) of: rename, reorder field declarations, reorder independent definitions, "
                "alias introduction / inlining, un-nesting, moving a prefix of definitions into an imported file (with/without "
                "`as`), trivia (comments, blank lines, semicolons), literal -> constant expression, order-preserving "
                "renumbering; both compiled by the real compiler; distinct by (set of rewrites, message size)",
        "assumptions": FRONT_ASSUME + ["renaming / scope and file moves / trivia / constant expressions leave the elaborated type unchanged "
                                       "by construction of the name-free Ty representation; for the real compiler this is established by the correspondence only"],
    },
    "C16": {
        "modules": ["BpModel.Props.C16"],
        "theorems": ["Bp.C16.C16_keys", "Bp.C16.C16_key_order", "Bp.C16.C16_faithful", "Bp.C16.C16_leaves", "Bp.C16.C16_text_roundtrip_c", "Bp.C16.C16_text_roundtrip_py"],
        "explore": _c16,
        "correspondence": "json.loads (key order kept) of Python to_json()/to_dict() and of the C Json<Msg>() text vs the JSON value computed from the abstract schema",
        "rule": "width grids (every width 1..64 in every position), arrays incl. byte arrays and huge arrays, long field names, "
                "nesting to depth 8, enums in nested messages, imports, random schemas; assigned / decoded / fresh messages; "
                "C text checked for well-formedness, NUL termination, return value; Python == C; distinct by feature tuple "
                "(see tools/props_c16.NOTES.md)",
        "assumptions": PY_ASSUME + C_ASSUME + ["json.dumps, dataclasses.asdict and vsprintf as libraries are outside the model"],
    },
    "C20": {
        "modules": ["BpModel.Props.C20"],
        "theorems": ["Bp.C20.C20_clean_pascal", "Bp.C20.C20_clean_upper", "Bp.C20.C20_warns_lower_first", "Bp.C20.C20_warns_underscore",
                     "Bp.C20.C20_warns_not_upper", "Bp.C20.C20_enum_zero", "Bp.C20.C20_advisory", "Bp.C20.C20_check_exit",
                     "Bp.C20.C20_token_lines", "Bp.C20.C20_newlines_are_linefeeds"],
        "explore": _c20,
        "correspondence": "CLI stderr / exit status / generated files with and without -q; lineno / token_col_start of every definition and reference vs positions computed from the source text",
        "rule": "multi-file programs printed by the harness' own printer in conforming / one-per-line / wild layouts; name-perturbed "
                "variants; one violating statement inserted at a random boundary of a random file (57 kinds); positions of all "
                "definitions and references in-process; -c exit status; see tools/props_c20.NOTES.md; distinct by case tuple",
        "assumptions": FRONT_ASSUME + ["snake_case (regular-expression cascade) is not modelled: the field-name rule is tied by correspondence only"],
    },
    "C09": {
        "modules": ["BpModel.Props.C09"],
        "theorems": ["Bp.C09.C09_string_literal_total", "Bp.C09.C09_expr_parser_fuel", "Bp.C09.C09_tokenizer_fuel", "Bp.C09.C09_eval_classified",
                     "Bp.C09.C09_import_fuel", "Bp.C09.C09_escapes_tied", "Bp.C09.C09_lexer_total", "Bp.C09.C09_token_lines", "Bp.C09.C09_grammar_total"],
        "explore": _c09,
        "correspondence": "exception class escaping parse() / render_string() and wall clock per input (worker pool under an interval timer); real CLI exit "
                          "status and stderr on a sample; t_STRING_LITERAL vs Lexer.lexString and constant expressions vs Expr.evalText (native driver)",
        "rule": "bases = /repo's own .bitproto files + generated multi-file programs (tools/gen.py, tools/front.py); streams: character mutations, token "
                "mutations, random token sequences, truncations, stress inputs (depth, length), every accepted input x {c, c -O, go, go -O, py}; "
                "distinct by (stream, outcome class, error kind, render outcomes)",
        "assumptions": ["PLY's LALR engine and grammar tables and the renderers as a whole are not modelled: their totality is explored by the streams, not proved (partial)",
                        "a hang is a parse or render that exceeds 20 s of wall clock in a worker process"],
    },
    "C15": {
        "modules": ["BpModel.Props.C15"],
        "theorems": ["Bp.C15.C15_toplevel", "Bp.C15.C15_nested_py", "Bp.C15.C15_nested_c", "Bp.C15.C15_prefix", "Bp.C15.C15_constant",
                     "Bp.C15.C15_constant_fixed"],
        "explore": _c15,
        "correspondence": "names declared by the generated C / Go / Python text, nm symbols, module attributes, written file names vs the documented "
                          "scheme; real case converters and formatters vs Names.pascalCase / upperCase / pyIsUpper / defName (native driver)",
        "rule": "multi-file programs renamed from a style-guide word pool (PascalCase incl. acronym-led and single-letter names, lower_snake "
                "fields, UPPER_SNAKE constants / members), nesting depth <= 4, each file x {c, c -O, go, go -O, py} x {with, without c.name_prefix}; "
                "distinct by (language, declared-name counts, prefix)",
        "assumptions": ["snake_case (regular-expression cascade) is not modelled: size-constant, enum-member and Go field names are tied by correspondence only",
                        "style-guide names are letters-only here (digits in names change the snake_case splitting rules)"],
    },
    "C10": {
        "modules": ["BpModel.Props.C10"],
        "theorems": ["Bp.C10.C10_emitted_once", "Bp.C10.C10_no_duplicate", "Bp.C10.C10_children_first", "Bp.C10.C10_sibling_order",
                     "Bp.C10.C10_earlier_sibling_before"],
        "explore": _c10,
        "correspondence": "gcc / g++ (sizeof, offsetof static_asserts) / Python import+instantiate / static Go discipline on every generated output set",
        "rule": "multi-file programs in fixed import shapes (single, pair, chain, triangle, diamond, wide) with nesting 1-4, per-file "
                "c.name_prefix, options, names ending in digits, repeated nested names; configs c, c -O, c -O -F, py, go; "
                "see tools/props_c10.NOTES.md; known deviations are routed to KNOWN-FINDING only while their witness re-confirms; "
                "distinct by (shape, config, feature tuple)",
        "assumptions": ["the verdict of gcc/g++/python beyond declare-before-use, uniqueness, include targets and layout is outside the model; Go is never compiled"],
    },
    "C18": {
        "modules": ["BpModel.Props.C18"],
        "theorems": ["Bp.C18.C18_cache_transparent", "Bp.C18.C18_prior_runs", "Bp.C18.C18_lint_indep"],
        "explore": _c18,
        "correspondence": "sha256 of every generated file across fresh processes (hash seed, cwd, input / output path spelling, -q) and across one-process "
                          "schedules (interleaved, repeated, kept trees, failing compiles in between); cache_if_frozen on real Node objects vs C18.Memo; "
                          "_main.main vs Cli.main (native driver)",
        "rule": "see tools/props_c18.NOTES.md: random multi-file programs and a hand-structured workspace with twins (same names, other content); "
                "option sets c / go / py / -O / --endian / -F; distinct by case tuple",
        "assumptions": ["hash randomisation, id() reuse, dict implementation and process-level state are runtime effects outside the model: they are only "
                        "executed by the correspondence (environment grid), so the claim is partial there"],
    },
    "C17": {
        "modules": ["BpModel.Props.C17"],
        "theorems": ["Bp.C17.C17_refuse_ext", "Bp.C17.C17_refuse_lang", "Bp.C17.C17_refuse_F", "Bp.C17.C17_filter", "Bp.C17.C17_filter_sublist"],
        "explore": _c17,
        "correspondence": "real CLI invocations with / without -O, -F, --endian: exit status, stderr, files written, function texts and declarations diffed",
        "rule": "see tools/props_c17.NOTES.md: programs with extensible markers in main / imported files, name subsets incl. nested "
                "names and names that are substrings of others, c.name_prefix, c and go, all --endian values; distinct by case tuple",
        "assumptions": ["the model Cli.main abstracts parser/linter/renderer results into a World record; its agreement with _main.py is established by the correspondence"],
    },
}
