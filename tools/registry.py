"""Property id -> proof module, obligations (theorem names), exploration function."""
from __future__ import annotations

from . import props_wire

SIZES = {
    # (schemas, values per message)
    "C01": {"quick": (150, 6), "thorough": (3000, 12)},
    "C02": {"quick": (150, 6), "thorough": (3000, 12)},
}


def _c01(run, drv, rng, tier):
    n, k = SIZES["C01"][tier]
    props_wire.check_c01(run, drv, rng, n, k)


def _c02(run, drv, rng, tier):
    n, k = SIZES["C02"][tier]
    props_wire.check_c02(run, drv, rng, n, k)


PY_ASSUME = [
    "CPython semantics used by bp.py and the generated code (unbounded ints, bytearray range check, dataclasses, IntEnum) are as modelled in Model/PyRt.lean",
    "the accessor layer (DataIndexer / bp_get_byte / bp_set_byte dispatch) is abstracted to 'the leaf at the path'; it is tied by executing the real generated code",
]

PROPS = {
    "C01": {
        "modules": ["BpModel.Props.C01"],
        "theorems": [
            "Bp.C01.C01_py_encode_is_spec", "Bp.C01.C01_py_encode_in_range", "Bp.C01.C01_length",
            "Bp.C01.C01_nbits_of_stream", "Bp.C01.C01_bit", "Bp.C01.C01_padding", "Bp.C01.C01_scalar_bits",
            "Bp.C01.C01_scalar_unsigned", "Bp.C01.C01_nbits", "Bp.C01.C01_message_layout",
            "Bp.C01.C01_array_layout", "Bp.C01.C01_sort_perm", "Bp.C01.C01_sort_ascending",
            "Bp.C01.C01_helpers_tied",
        ],
        "explore": _c01,
        "correspondence": "py.encode vs generated encode()",
        "rule": "seeded schema generator (tools/gen.py) x boundary-biased in-range values; every message of every "
                "schema is compiled by the real compiler and executed; a case is non-trivial/distinct by its "
                "(leaf kind, width, stream offset mod 8) triples",
        "assumptions": PY_ASSUME,
    },
}
