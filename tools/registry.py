"""Property id -> proof module, obligations (theorem names), exploration function."""
from __future__ import annotations

from . import props_wire

SIZES = {
    # (schemas, values per message)
    "C01": {"quick": (150, 6), "thorough": (3000, 12)},
    "C02": {"quick": (150, 6), "thorough": (3000, 12)},
}


def _c01(run, drv, rng, tier):
    n, k = SIZES["C01"][tier]
    props_wire.check_c01(run, drv, rng, n, k)


def _c02(run, drv, rng, tier):
    n, k = SIZES["C02"][tier]
    props_wire.check_c02(run, drv, rng, n, k)


def _c05(run, drv, rng, tier):
    n, k = {"quick": (60, 3), "thorough": (1500, 6)}[tier]
    props_wire.check_c05(run, drv, rng, n, k)


PY_ASSUME = [
    "CPython semantics used by bp.py and the generated code (unbounded ints, bytearray range check, dataclasses, IntEnum) are as modelled in Model/PyRt.lean",
    "the accessor layer (DataIndexer / bp_get_byte / bp_set_byte dispatch) is abstracted to 'the leaf at the path'; it is tied by executing the real generated code",
]

PROPS = {
    "C01": {
        "modules": ["BpModel.Props.C01"],
        "theorems": [
            "Bp.C01.C01_py_encode_is_spec", "Bp.C01.C01_py_encode_in_range", "Bp.C01.C01_length",
            "Bp.C01.C01_nbits_of_stream", "Bp.C01.C01_bit", "Bp.C01.C01_padding", "Bp.C01.C01_scalar_bits",
            "Bp.C01.C01_scalar_unsigned", "Bp.C01.C01_nbits", "Bp.C01.C01_message_layout",
            "Bp.C01.C01_array_layout", "Bp.C01.C01_sort_perm", "Bp.C01.C01_sort_ascending",
            "Bp.C01.C01_helpers_tied",
        ],
        "explore": _c01,
        "correspondence": "py.encode vs generated encode()",
        "rule": "seeded schema generator (tools/gen.py) x boundary-biased in-range values; every message of every "
                "schema is compiled by the real compiler and executed; a case is non-trivial/distinct by its "
                "(leaf kind, width, stream offset mod 8) triples",
        "assumptions": PY_ASSUME,
    },
    "C02": {
        "modules": ["BpModel.Props.C02"],
        "theorems": [
            "Bp.C02.C02_roundtrip_partial", "Bp.C02.C02_spec_roundtrip", "Bp.C02.C02_signed_leaf",
            "Bp.C02.C02_signed_value", "Bp.C02.C02_casts_tied", "Bp.C02.KF_py_enum_default_witness",
        ],
        "explore": _c02,
        "correspondence": "py.decode vs generated decode()",
        "rule": "as C01, plus decode into a fresh message and re-encode; cases hitting KF-py-enum-default are "
                "attributed to the known finding only if the observed value equals the encoded value OR-ed with "
                "the enum's first member at every enum leaf",
        "assumptions": PY_ASSUME,
    },
    "C05": {
        "modules": ["BpModel.Props.C05"],
        "theorems": [
            "Bp.C05.C05_spec", "Bp.C05.C05_py", "Bp.C05.C05_cursor", "Bp.C05.C05_chain", "Bp.C05.C05_refl",
            "Bp.C05.C05_step_append", "Bp.C05.C05_step_grow", "Bp.C05.KF_array_skip_old_formula_witness",
        ],
        "explore": _c05,
        "correspondence": "py.decode (older schema) vs generated decode() on newer bytes",
        "rule": "newest schema generated, older versions derived by dropping highest-numbered fields of extensible "
                "messages / shrinking extensible arrays at any depth (chains of 1-3 steps); newest value encoded by "
                "the real newest module, decoded by every older real module, compared with the projection; "
                "non-trivial = pair whose types really differ, distinct by (old shape, new shape)",
        "assumptions": PY_ASSUME + ["C runtime: tied by execution only in this check until the CRt model covers messages (see C03)",
                                    "Go runtime: same formula by inspection; Go is never executed here"],
    },
}
