"""optimisation-mode checks (filled in with C04)"""
def check_c06_opmode(run, drv, rng, sc, n): pass
def check_c07_opmode(run, drv, rng, sc, n): pass
def check_c14_opmode(run, drv, rng, sc, frac): pass
