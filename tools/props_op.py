"""Optimization-mode checks (C04, and the -O parts of C06/C07/C14).

(1) every generated program is PARSED: the emitted Encode*/Decode* statements follow fixed
templates; they are parsed back into items (si, fi, shift, mask, assign) per leaf and compared
with the Lean plan (`op.plan`) for that message — C little-endian branch, C big-endian branch
and Go; so the per-schema "new code" is checked against the plan the theorems cover.
(2) for C the generated code is also compiled and executed under --endian little / big / both
(with and without -DBP_BIG_ENDIAN) and compared with the specification.
"""
from __future__ import annotations

import random
import re
from typing import Any, Dict, List, Optional, Tuple

from . import common
from . import creal as C
from . import gen as G
from . import real as R
from . import props_c
from .props_wire import shape_key

BYTEVAL = r"\(\(\(unsigned\)\(s\[(\d+)\]\)(?:(>>|<<) (\d+))?\) & (\d+)\)"
RE = {
    "c_enc_le": re.compile(r"^s\[(\d+)\] (=|\|=) \(\(\(unsigned char \*\)&\((.+)\)\)\[(\d+)\] (?:(>>|<<) (\d+))?\) & (\d+);$"),
    "c_enc_be": re.compile(r"^s\[(\d+)\] (=|\|=) \(\(([\w ]+)\)\((.+?)\)(?:(>>|<<) (\d+))?\) & (\d+);$"),
    "c_dec_le": re.compile(r"^\(\(unsigned char \*\)&\((.+)\)\)\[(\d+)\] (=|\|=) \(s\[(\d+)\] (?:(>>|<<) (\d+))?\) & (\d+);$"),
    "c_dec_be_a": re.compile(r"^(.+?) \|= \(([\w ]+)\)" + BYTEVAL + r";$"),
    "c_dec_be_b": re.compile(r"^(.+?) \|= \(([\w ]+)\)\(\(([\w ]+)\)" + BYTEVAL + r" << (\d+)\);$"),
    "c_sign": re.compile(r"^if \(\((.+?) >> (\d+)\) & 1\) (.+?) \|= (.+);$"),
    "go_enc": re.compile(r"^s\[(\d+)\] \|= \(byte\((.+?)(?: >> (\d+))?\) (?:(>>|<<) (\d+))?\) & (\d+)$"),
    "go_dec": re.compile(r"^(.+?) (\|=|=) ([\w.]+)\((?:byte2bool\()?byte\(s\[(\d+)\] (?:(>>|<<) (\d+))?\) & (\d+)\)\)?(?: << (\d+))?$"),
    "go_shl": re.compile(r"^(.+?) <<= (\d+)$"),
    "go_shr": re.compile(r"^(.+?) >>= (\d+)$"),
}


def sh(op: Optional[str], k: Optional[str]) -> int:
    if not op:
        return 0
    return int(k) if op == ">>" else -int(k)


def c_function_bodies(text: str, name: str) -> Dict[str, Dict[str, List[str]]]:
    """{'enc'|'dec': {'le': [...], 'be': [...]}} statement lines of Encode<name>/Decode<name>;
    with --endian little/big only that key is present ('any')"""
    out: Dict[str, Dict[str, List[str]]] = {}
    for kind, fn in (("enc", "Encode"), ("dec", "Decode")):
        m = re.search(r"^int " + fn + re.escape(name) + r"\(struct " + re.escape(name) + r" \*m, unsigned char \*s\) \{\n(.*?)    return 0;\n\}", text, re.S | re.M)
        if not m:
            continue
        lines = [l.strip() for l in m.group(1).split("\n")]
        cur = "any"
        d: Dict[str, List[str]] = {}
        for l in lines:
            if l == "#ifndef BP_BIG_ENDIAN":
                cur = "le"
            elif l == "#else":
                cur = "be"
            elif l == "#endif":
                cur = "any"
            elif l:
                d.setdefault(cur, []).append(l)
        out[kind] = d
    return out


def be_build_lines(text: str, name: str, fn: str = "Encode") -> Optional[List[str]]:
    """the statements of Encode<name> a compiler sees when BP_BIG_ENDIAN is defined, in order"""
    m = re.search(r"^int " + fn + re.escape(name) + r"\(struct " + re.escape(name) + r" \*m, unsigned char \*s\) \{\n(.*?)    return 0;\n\}", text, re.S | re.M)
    if not m:
        return None
    out, skip = [], False
    for l in (x.strip() for x in m.group(1).split("\n")):
        if l == "#ifndef BP_BIG_ENDIAN":
            skip = True
        elif l == "#ifdef BP_BIG_ENDIAN":
            skip = False
        elif l == "#else":
            skip = not skip
        elif l == "#endif":
            skip = False
        elif l.startswith("#"):
            return None  # a directive this reader does not know: no verdict
        elif l and not skip:
            out.append(l)
    return out


UTYPE_BITS = {"unsigned char": 8, "uint8_t": 8, "uint16_t": 16, "unsigned short": 16, "uint32_t": 32, "unsigned int": 32, "unsigned": 32,
              "uint64_t": 64, "unsigned long long": 64}


def encode_on_big_endian_memory(lines: List[str], leaves: List[Tuple[str, Any]], flat: List[int], nbytes: int) -> Optional[bytes]:
    """what the given Encode statements write when the struct lies in BIG-endian memory (this host cannot run that, the statement
    subset is small enough to evaluate): byte-pointer items read byte `fi` of the cell = bits 8*(size-1-fi)… of the stored value,
    value items `(utype)(field) >> k` do not depend on the byte order.  None = a statement outside the subset (no verdict)."""
    from .props_c import storage_size

    cells: Dict[str, Tuple[int, int]] = {}
    for (path, t), v in zip(leaves, flat):
        n = 1 if isinstance(t, G.TBool) else 8 if isinstance(t, G.TByte) else t.n if isinstance(t, (G.TUint, G.TInt)) else t.d.nbits
        size = 1 if isinstance(t, G.TBool) else storage_size(n)
        cells[path] = (int(v) & ((1 << (8 * size)) - 1), size)
    signed = {p for p, t in leaves if isinstance(t, G.TInt)}
    ops = parse_be_ops(lines)
    if ops is None:
        return None
    out = [0] * nbytes
    for (ptr, si, assign, chain, a, k, mask) in ops:
        if chain not in cells or si >= nbytes:
            return None
        val, size = cells[chain]
        if ptr:
            if a >= size:
                return None
            u = (val >> (8 * (size - 1 - a))) & 0xFF  # byte `a` of a big-endian cell
        else:
            # conversion of the (sign-extended) cell to the unsigned type of `a` bits
            sval = val - (1 << (8 * size)) if (val >> (8 * size - 1)) and chain in signed else val
            u = sval & ((1 << a) - 1)
        x = ((u >> k) if k >= 0 else (u << -k)) & mask & 0xFF
        out[si] = x if assign else (out[si] | x)
    return bytes(out)


_BE_OPS_CACHE: Dict[int, Any] = {}


def parse_be_ops(lines: List[str]) -> Optional[List[Tuple[bool, int, bool, str, int, int, int]]]:
    """(pointer item?, s index, `=`?, field, byte index | bits of the unsigned type, shift, mask) per statement; cached per list"""
    key = id(lines)
    if key in _BE_OPS_CACHE and _BE_OPS_CACHE[key][0] is lines:
        return _BE_OPS_CACHE[key][1]
    ops: Optional[List[Tuple[bool, int, bool, str, int, int, int]]] = []
    for l in lines:
        m = RE["c_enc_le"].match(l)
        if m:
            ops.append((True, int(m.group(1)), m.group(2) == "=", m.group(3), int(m.group(4)), sh(m.group(5), m.group(6)), int(m.group(7))))
            continue
        m = RE["c_enc_be"].match(l)
        if not m or m.group(3).strip() not in UTYPE_BITS:
            ops = None
            break
        ops.append((False, int(m.group(1)), m.group(2) == "=", m.group(4), UTYPE_BITS[m.group(3).strip()], sh(m.group(5), m.group(6)), int(m.group(7))))
    if len(_BE_OPS_CACHE) > 64:
        _BE_OPS_CACHE.clear()
    _BE_OPS_CACHE[key] = (lines, ops)
    return ops


def go_function_bodies(text: str, name: str) -> Dict[str, List[str]]:
    out: Dict[str, List[str]] = {}
    m = re.search(r"^func \(m \*" + re.escape(name) + r"\) Encode\(\) \[\]byte \{\n(.*?)\treturn s\n\}", text, re.S | re.M)
    if m:
        out["enc"] = [l.strip() for l in m.group(1).split("\n") if l.strip() and not l.strip().startswith("s := make")]
    m = re.search(r"^func \(m \*" + re.escape(name) + r"\) Decode\(s \[\]byte\) \{\n(.*?)\}", text, re.S | re.M)
    if m:
        out["dec"] = [l.strip() for l in m.group(1).split("\n") if l.strip()]
    elif re.search(r"^func \(m \*" + re.escape(name) + r"\) Decode\(s \[\]byte\) \{\s*\}", text, re.M):
        out["dec"] = []
    return out


def parse_items(lines: List[str], dialect: str, direction: str) -> Tuple[List[Tuple[str, List[Dict[str, Any]], Optional[Dict[str, Any]]]], List[str]]:
    """group statements per consecutive chain: [(chain, items, sign statement)], unparsed lines"""
    groups: List[Tuple[str, List[Dict[str, Any]], Optional[Dict[str, Any]]]] = []
    bad: List[str] = []

    def add(chain: str, item: Dict[str, Any]) -> None:
        if groups and groups[-1][0] == chain and groups[-1][2] is None:
            groups[-1][1].append(item)
        else:
            groups.append((chain, [item], None))

    def set_sign(chain: str, sg: Dict[str, Any]) -> None:
        if groups and groups[-1][0] == chain:
            c, its, old = groups[-1]
            if old and "shl" in old and "shr" in sg:
                old.update(sg)
            else:
                groups[-1] = (c, its, sg)
        else:
            bad.append(f"sign statement without items: {chain}")

    for l in lines:
        if l == "memset(m, 0, sizeof(*m));":
            groups.append(("<memset>", [], None))
            continue
        if dialect == "cLE" and direction == "enc":
            m = RE["c_enc_le"].match(l)
            if m:
                add(m.group(3), {"si": int(m.group(1)), "fi": int(m.group(4)), "shift": sh(m.group(5), m.group(6)),
                                 "mask": int(m.group(7)), "assign": m.group(2) == "="})
                continue
        if dialect == "cBE" and direction == "enc":
            m = RE["c_enc_be"].match(l)
            if m:
                add(m.group(4), {"si": int(m.group(1)), "total_shift": sh(m.group(5), m.group(6)), "mask": int(m.group(7)),
                                 "assign": m.group(2) == "=", "utype": m.group(3)})
                continue
        if dialect == "cLE" and direction == "dec":
            m = RE["c_dec_le"].match(l)
            if m:
                add(m.group(1), {"si": int(m.group(4)), "fi": int(m.group(2)), "shift": sh(m.group(5), m.group(6)),
                                 "mask": int(m.group(7)), "assign": m.group(3) == "="})
                continue
        if dialect == "cBE" and direction == "dec":
            m = RE["c_dec_be_b"].match(l)
            if m:
                add(m.group(1), {"si": int(m.group(4)), "fi": int(m.group(8)) // 8, "fi_rem": int(m.group(8)) % 8,
                                 "shift": sh(m.group(5), m.group(6)), "mask": int(m.group(7)), "assign": False,
                                 "type": m.group(2), "utype": m.group(3)})
                continue
            m = RE["c_dec_be_a"].match(l)
            if m:
                add(m.group(1), {"si": int(m.group(3)), "fi": 0, "fi_rem": 0, "shift": sh(m.group(4), m.group(5)),
                                 "mask": int(m.group(6)), "assign": False, "type": m.group(2)})
                continue
        if dialect in ("cLE", "cBE") and direction == "dec":
            m = RE["c_sign"].match(l)
            if m and m.group(1) == m.group(3):
                set_sign(m.group(1), {"bit": int(m.group(2)), "mask": m.group(4)})
                continue
        if dialect == "go" and direction == "enc":
            m = RE["go_enc"].match(l)
            if m:
                chain = m.group(2)
                b = re.match(r"^bool2byte\((?:bool\()?(.+?)\)?\)$", chain)
                add(b.group(1) if b else chain, {"si": int(m.group(1)), "fi": int(m.group(3) or 0) // 8, "fi_rem": int(m.group(3) or 0) % 8,
                                                  "shift": sh(m.group(4), m.group(5)), "mask": int(m.group(6)), "assign": False,
                                                  "bool": bool(b)})
                continue
        if dialect == "go" and direction == "dec":
            m = RE["go_shl"].match(l)
            if m:
                set_sign(m.group(1), {"shl": int(m.group(2))})
                continue
            m = RE["go_shr"].match(l)
            if m:
                set_sign(m.group(1), {"shr": int(m.group(2))})
                continue
            m = RE["go_dec"].match(l)
            if m:
                add(m.group(1), {"si": int(m.group(4)), "fi": int(m.group(8) or 0) // 8, "fi_rem": int(m.group(8) or 0) % 8,
                                 "shift": sh(m.group(5), m.group(6)), "mask": int(m.group(7)), "assign": m.group(2) == "=",
                                 "type": m.group(3)})
                continue
        bad.append(l)
    return groups, bad


def go_pascal(name: str) -> str:
    return "".join(w[:1].upper() + w[1:] for w in name.split("_"))


def go_struct_name(m) -> str:
    return "".join(G.scope_names(m))


def go_leaves(t, path: str, out: List[Tuple[str, Any]]) -> None:
    if isinstance(t, G.TArray):
        for k in range(t.cap):
            go_leaves(t.elem, f"{path}[{k}]", out)
        return
    if isinstance(t, G.TRef):
        d = t.d
        if isinstance(d, G.AliasDef):
            return go_leaves(d.type, path, out)
        if isinstance(d, G.MsgDef):
            for f in sorted(d.fields, key=lambda f: f.num):
                go_leaves(f.type, f"{path}.{go_pascal(f.name)}", out)
            return
    out.append((path, t))


def expected_utype(t) -> str:
    """the unsigned C type the big-endian items must cast the field to (storage width)"""
    if isinstance(t, G.TBool):
        return "uint8_t"
    if isinstance(t, G.TByte):
        return "unsigned char"
    if isinstance(t, (G.TUint, G.TInt)):
        return f"uint{8 * props_c.storage_size(t.n)}_t"
    if isinstance(t, G.TRef) and isinstance(t.d, G.EnumDef):
        return f"uint{8 * props_c.storage_size(t.d.nbits)}_t"
    return "?"


def compare_with_plan(run: common.Run, rep: Dict[str, Any], groups, bad, plan, leaves, dialect: str, direction: str) -> bool:
    """parsed statements vs the Lean plan; returns True if identical"""
    if bad:
        run.notes.setdefault("model_disagreements", []).append(dict(rep, note="statement outside the known templates", lines=bad[:5], dialect=dialect))
        return False
    gs = [g for g in groups if g[0] != "<memset>"]
    has_memset = any(g[0] == "<memset>" for g in groups)
    problems: List[str] = []
    if dialect == "cBE" and direction == "dec" and not has_memset and gs:
        problems.append("big-endian decoder without memset")
    nonempty = [(p, lf) for (p, lf) in zip(leaves, plan) if lf["items"]]
    if len(gs) != len(nonempty):
        problems.append(f"{len(gs)} statement groups for {len(nonempty)} leaves")
    for (chain, items, sign), ((path, t), lf) in zip(gs, nonempty):
        if chain.replace(" ", "") != path.replace(" ", ""):
            problems.append(f"chain {chain} != expected leaf {path}")
            break
        if len(items) != len(lf["items"]):
            problems.append(f"{chain}: {len(items)} items, plan has {len(lf['items'])}")
            break
        for it, pl in zip(items, lf["items"]):
            exp_assign = {("cLE", "enc"): pl["r"] == 0, ("cBE", "enc"): pl["r"] == 0, ("cLE", "dec"): pl["r"] == 0,
                          ("cBE", "dec"): False, ("go", "enc"): False, ("go", "dec"): isinstance(t, G.TBool)}[(dialect, direction)]
            if "utype" in it and it["utype"] != expected_utype(t):
                problems.append(f"{chain}: cast to {it['utype']}, expected {expected_utype(t)}")
                break
            if "total_shift" in it:
                ok = it["si"] == pl["si"] and it["total_shift"] == 8 * pl["fi"] + pl["shift"] and it["mask"] == pl["mask"]
            else:
                ok = it["si"] == pl["si"] and it["fi"] == pl["fi"] and it.get("fi_rem", 0) == 0 and it["shift"] == pl["shift"] and it["mask"] == pl["mask"]
            if not ok or it["assign"] != exp_assign:
                problems.append(f"{chain}: item {it} != plan {pl} (assign expected {exp_assign})")
                break
        # sign statement exactly for signed widths other than 8/16/32/64
        n = lf["n"]
        need = direction == "dec" and lf["signed"] and n not in (8, 16, 32, 64)
        if need != (sign is not None):
            problems.append(f"{chain}: sign statement {'missing' if need else 'unexpected'} (int{n})")
        elif sign is not None:
            if dialect == "go":
                dd = 8 * props_c.storage_size(n) - n
                if sign.get("shl") != dd or sign.get("shr") != dd:
                    problems.append(f"{chain}: go sign shifts {sign} != {dd}")
            else:
                m = sign["mask"].replace(" ", "")
                expm = -(1 << n)
                okm = m == str(expm) or (n == 63 and m == "(-9223372036854775807-1)")
                if sign["bit"] != n - 1 or not okm:
                    problems.append(f"{chain}: C sign statement {sign} != bit {n-1}, mask {expm}")
        if problems:
            break
    if problems:
        run.notes.setdefault("plan_mismatches", []).append(dict(rep, problems=problems[:3], dialect=dialect, direction=direction))
        return False
    return True


def check_opmode(run: common.Run, drv: common.Driver, rng: random.Random, sc: R.Scratch, n_schemas: int, n_values: int,
                 pid: str, exec_configs: List[Dict[str, Any]], overdriven: bool = False, parse: bool = True,
                 presets: Optional[List[G.Schema]] = None) -> None:
    opts = props_c.traditional_opts()
    presets = list(presets or [])
    for k in range(n_schemas + len(presets)):
        g = G.SchemaGen(rng, opts)
        s = presets[k] if k < len(presets) else g.schema()
        text = G.schema_text(s, rng)
        base = f"{pid.lower()}o{k}_{rng.randrange(1 << 30)}"
        path = sc.write(f"{base}.bitproto", text)
        try:
            proto = R.parse_file(path, traditional=True)
            c_both = R.render_strings(proto, "c", optimize=True, endian="both")[".c"]
            c_le = R.render_strings(proto, "c", optimize=True, endian="little")[".c"]
            c_be = R.render_strings(proto, "c", optimize=True, endian="big")[".c"]
            go = R.render_strings(proto, "go", optimize=True)[".go"]
        except Exception as e:
            run.violation({"kind": "compile-failed", "input": {"files": {"main.bitproto": text}}, "observed_impl": f"{type(e).__name__}: {e}"})
            continue
        msgs = s.messages()
        before = len(run.notes.get("plan_mismatches", [])) + len(run.notes.get("model_disagreements", []))
        if parse:
            plans = drv.batch([{"op": "op.plan", "ty": G.msg_ty_json(m), "enc": e} for m in msgs for e in (True, False)])
            for j, m in enumerate(msgs):
                cn = G.c_name(m)
                rep = {"input": {"files": {"main.bitproto": text}, "message": cn}}
                cl: List[Tuple[str, Any]] = []
                C.leaves(G.TRef(m), "(*m)", cl)
                gl: List[Tuple[str, Any]] = []
                go_leaves(G.TRef(m), "m", gl)
                fb, fl, fbe = c_function_bodies(c_both, cn), c_function_bodies(c_le, cn), c_function_bodies(c_be, cn)
                gb = go_function_bodies(go, cn)
                for di, direction in enumerate(("enc", "dec")):
                    plan = plans[2 * j + di].get("ok")
                    run.evaluated()
                    run.count("programs_parsed")
                    for t in shape_key(m):
                        run.nontrivial((pid, "plan", direction, t))
                    checks = [("cLE", fb.get(direction, {}).get("le", []), cl), ("cBE", fb.get(direction, {}).get("be", []), cl),
                              ("cLE", fl.get(direction, {}).get("any", []), cl), ("cBE", fbe.get(direction, {}).get("any", []), cl),
                              ("go", gb.get(direction, []), gl)]
                    if direction not in fb or direction not in fl or direction not in fbe or direction not in gb:
                        run.notes.setdefault("plan_mismatches", []).append(dict(rep, problems=["Encode/Decode function not found"], direction=direction))
                        continue
                    # --endian both must contain both branches unless the message has no leaf bits
                    for (dialect, lines, lv) in checks:
                        groups, bad = parse_items(lines, dialect, direction)
                        compare_with_plan(run, rep, groups, bad, plan, lv, dialect, direction)
        # execute the C variants (a program that left the plan gets a focused search: more values, all configs)
        focused = len(run.notes.get("plan_mismatches", [])) + len(run.notes.get("model_disagreements", [])) > before
        if focused:
            exec_configs = EXEC_ALL
        if k < len(presets):
            # megabytes of straight-line C: compiled without optimisation (the statements are what is under test, not gcc)
            exec_configs_k = [{"name": "O-little(-O0)", "endian": "little", "cflags": ("-O0",)},
                              {"name": "O-both-BP_BIG_ENDIAN(-O0)", "endian": "both", "cflags": ("-O0", "-DBP_BIG_ENDIAN")}]
        elif len(c_both) > 250000:
            # long straight-line functions: gcc -O2 needs minutes for them and is not what is under test
            exec_configs_k = [dict(cfg, name=cfg["name"] + "(-O0)", cflags=tuple("-O0" if f.startswith("-O") else f for f in cfg.get("cflags", ("-O2",))))
                              for cfg in exec_configs]
            run.count("opmode:long-functions-compiled-at-O0")
        else:
            exec_configs_k = exec_configs
        jobs = []
        for m in msgs:
            for _ in range(2 if k < len(presets) else 60 if focused else n_values):
                v = G.rand_msg_value(rng, m)
                if overdriven:
                    v = props_c.overdrive(rng, G.TRef(m), v)
                jobs.append((m, v))
        if not jobs or not exec_configs_k:
            continue
        reqs = []
        for (m, v) in jobs:
            reqs.append({"op": "spec.encode", "ty": G.msg_ty_json(m), "val": G.msg_val_json(m, v)})
            reqs.append({"op": "op.encode", "dialect": "cLE", "ty": G.msg_ty_json(m), "val": G.msg_val_json(m, v)})
        ans = drv.batch(reqs)
        # the generated Go, through the interpreter of its statement subset (tools/gointerp.py; no Go toolchain here)
        if not overdriven:
            from . import gointerp

            bodies = {id(m): go_function_bodies(go, go_struct_name(m)) for m in msgs}
            for j, (m, v) in enumerate(jobs):
                spec = ans[2 * j]
                gb = bodies[id(m)]
                if "enc" not in gb or "dec" not in gb or "ok" not in spec:
                    continue
                rep = {"input": {"files": {"main.bitproto": text}, "message": G.c_name(m), "ty": G.msg_ty_json(m),
                                 "val": G.msg_val_json(m, v), "config": "go -O (interpreted)"}}
                try:
                    got = gointerp.go_encode(s, m, gb["enc"], v).hex()
                    dv = gointerp.go_decode(s, m, gb["dec"], bytes.fromhex(spec["ok"]))
                except gointerp.Unsupported as e:
                    run.count("go_interp:unsupported")
                    run.notes.setdefault("go_interp_unsupported", []).append(str(e)[:160])
                    continue
                except IndexError as e:
                    run.violation(dict(rep, kind="impl-vs-spec", observed_impl=f"index out of range: {e}", expected_by_spec=spec))
                    continue
                run.evaluated()
                run.count("exec:go-O-interpreted")
                if got != spec["ok"]:
                    run.violation(dict(rep, kind="impl-vs-spec", expected_by_spec=spec, observed_impl={"bytes": got}))
                elif dv != v:
                    run.violation(dict(rep, kind="impl-vs-spec", expected_by_spec={"decode": v}, observed_impl={"decode": dv}))
        # what the `--endian both` and `--endian big` outputs do in BIG-endian memory (evaluated, see encode_on_big_endian_memory)
        if not overdriven:
            per_msg: Dict[int, Any] = {}
            for j, (m, v) in enumerate(jobs):
                spec = ans[2 * j]
                if "ok" not in spec:
                    continue
                if id(m) not in per_msg:
                    cl2: List[Tuple[str, Any]] = []
                    C.leaves(G.TRef(m), "(*m)", cl2)
                    per_msg[id(m)] = (cl2, [(variant, be_build_lines(ctext, G.c_name(m)))
                                            for variant, ctext in (("--endian both, BP_BIG_ENDIAN defined", c_both), ("--endian big", c_be))])
                cl2, variants = per_msg[id(m)]
                flat: List[int] = []
                C.flat_values(G.TRef(m), v, flat)
                for variant, lines_be in variants:
                    got = encode_on_big_endian_memory(lines_be, cl2, flat, (G.msg_nbits(m) + 7) // 8) if lines_be is not None else None
                    if got is None:
                        run.count("be-memory-evaluation:outside-the-subset")
                        continue
                    run.count("be-memory-evaluation")
                    if got.hex() != spec["ok"]:
                        run.violation({"kind": "impl-vs-spec", "input": {"files": {"main.bitproto": text}, "message": G.c_name(m), "ty": G.msg_ty_json(m),
                                                                           "val": G.msg_val_json(m, v), "config": variant + " on a big-endian host (statements evaluated with big-endian cells)"},
                                       "expected_by_spec": spec, "observed_impl": {"bytes": got.hex()},
                                       "note": "the statements a big-endian build compiles, evaluated with the struct in big-endian memory"})
        for cfg in exec_configs_k:
            try:
                mod = C.CModule(sc, s, text, base, cflags=cfg.get("cflags", ("-O2",)), optimize=True, endian=cfg["endian"])
            except Exception as e:
                run.violation({"kind": "compile-failed", "input": {"files": {"main.bitproto": text}, "config": cfg["name"]},
                               "observed_impl": str(e)[:800]})
                continue
            for j, (m, v) in enumerate(jobs):
                spec, model = ans[2 * j], ans[2 * j + 1]
                run.evaluated()
                run.count(f"exec:{cfg['name']}")
                for t in shape_key(m):
                    run.nontrivial((pid, cfg["name"], t))
                rep = {"input": {"files": {"main.bitproto": text}, "message": G.c_name(m), "ty": G.msg_ty_json(m),
                                 "val": G.msg_val_json(m, v), "config": cfg["name"]}}
                got, sok, bok = mod.encode(m, v, prefill=0)
                if got.hex() != spec.get("ok") or not sok or not bok:
                    run.violation(dict(rep, kind="impl-vs-spec", expected_by_spec=spec, model_answer=model,
                                       observed_impl={"bytes": got.hex(), "struct_guards_intact": sok, "buffer_guards_intact": bok}))
                    continue
                if model.get("ok") != got.hex():
                    run.notes.setdefault("model_disagreements", []).append(dict(rep, observed_impl=got.hex(), model_answer=model))
                if not overdriven:
                    dv, dok = mod.decode(m, bytes.fromhex(spec["ok"]))
                    if dv != v or not dok:
                        run.violation(dict(rep, kind="impl-vs-spec", expected_by_spec={"decode": v},
                                           observed_impl={"decode": dv, "struct_guards_intact_and_no_access_beyond_the_buffer": dok,
                                                          "decode_rc(2 = fault beyond the message's bytes)": getattr(mod, "last_decode_rc", 0)}))
                else:
                    # values are not comparable when fields were overdriven, but the decoder must still stay inside the
                    # ceil(N/8) bytes it is given (fenced buffer) and inside the struct (guard zones)
                    dv, dok = mod.decode(m, bytes.fromhex(spec["ok"]))
                    run.count(f"exec:{cfg['name']}:decode-stays-inside")
                    if not dok:
                        run.violation(dict(rep, kind="impl-vs-spec", expected_by_spec="decoding reads nothing beyond ceil(N/8) bytes and writes nothing outside the struct",
                                           observed_impl={"decode_rc(1 = struct guard damaged, 2 = fault beyond the message's bytes)": getattr(mod, "last_decode_rc", 0)}))
            del mod


EXEC_ALL = [{"name": "O-little", "endian": "little"}, {"name": "O-big", "endian": "big"}, {"name": "O-both", "endian": "both"},
            {"name": "O-both-BP_BIG_ENDIAN", "endian": "both", "cflags": ("-O2", "-DBP_BIG_ENDIAN")}]


def finish_plan(run: common.Run) -> None:
    """a generated program that differs from the plan breaks the correspondence"""
    pm = run.notes.get("plan_mismatches", [])
    run.notes["plan_mismatches_count"] = len(pm)
    if pm:
        run.notes.setdefault("model_disagreements", []).extend(pm[:5])
        run.notes["plan_mismatches"] = pm[:5]


def huge_schema() -> G.Schema:
    """one message whose -O functions have many thousands of statements (a generator that splits or batches long bodies must
    still produce the same bytes in every variant)"""
    sample = G.MsgDef("Sample", False)
    sample.fields = [G.Field("a", 1, G.TInt(12)), G.Field("b", 2, G.TInt(12))]
    huge = G.MsgDef("Huge", False)
    huge.fields = [G.Field("head", 1, G.TUint(5)), G.Field("samples", 2, G.TArray(G.TRef(sample), 1400, False)), G.Field("tail", 3, G.TUint(8))]
    return G.Schema("hugecase", [sample, huge])


def rows_schema() -> G.Schema:
    """byte-aligned arrays of eight and more one-byte elements - real bytes, and aliases of small arrays whose ROW is one byte
    on the wire but eight cells in memory"""
    row = G.AliasDef("Row", G.TArray(G.TBool(), 8, False))
    nib = G.AliasDef("Nib", G.TArray(G.TUint(4), 2, False))
    duo = G.AliasDef("Duo", G.TArray(G.TUint(2), 4, False))
    oct_ = G.AliasDef("Octet", G.TByte())
    m = G.MsgDef("Rows", False)
    m.fields = [G.Field("pad", 1, G.TUint(8)), G.Field("rows", 2, G.TArray(G.TRef(row), 8, False)), G.Field("nibs", 3, G.TArray(G.TRef(nib), 9, False)),
                G.Field("duos", 4, G.TArray(G.TRef(duo), 8, False)), G.Field("raw", 5, G.TArray(G.TByte(), 10, False)),
                G.Field("octs", 6, G.TArray(G.TRef(oct_), 8, False)), G.Field("u", 7, G.TArray(G.TUint(8), 9, False)),
                G.Field("i", 8, G.TArray(G.TInt(8), 8, False)), G.Field("tail", 9, G.TUint(8))]
    return G.Schema("rowscase", [row, nib, duo, oct_, m])


def check_c04(run, drv, rng, sc, n_schemas: int, n_values: int) -> None:
    check_opmode(run, drv, rng, sc, n_schemas, n_values, "C04", EXEC_ALL, presets=[huge_schema(), rows_schema(), mixed_schema()])
    finish_plan(run)


def mixed_schema() -> G.Schema:
    """messages that begin with one-byte fields (directly and through a nested message of one-byte fields) and go on with wide
    ones: whatever is decided per message about byte order must look at ALL its fields"""
    flags = G.MsgDef("Flags", False)
    flags.fields = [G.Field("a", 1, G.TUint(3)), G.Field("b", 2, G.TBool())]
    small = G.MsgDef("Small", False)
    small.fields = [G.Field("x", 1, G.TUint(7)), G.Field("y", 2, G.TByte()), G.Field("f", 3, G.TRef(flags))]
    packet = G.MsgDef("Packet", False)
    packet.fields = [G.Field("f", 1, G.TRef(flags)), G.Field("seq", 2, G.TUint(32)), G.Field("t", 3, G.TInt(16))]
    frame = G.MsgDef("Frame", False)
    frame.fields = [G.Field("k", 1, G.TUint(5)), G.Field("s", 2, G.TRef(small)), G.Field("w", 3, G.TUint(64)), G.Field("fs", 4, G.TArray(G.TRef(flags), 2, False)),
                    G.Field("v", 5, G.TInt(24))]
    return G.Schema("mixedcase", [flags, small, packet, frame])


def check_c06_opmode(run, drv, rng, sc, n: int) -> None:
    check_opmode(run, drv, rng, sc, n, 4, "C06", [EXEC_ALL[0], EXEC_ALL[3]], parse=True, presets=[mixed_schema()])
    finish_plan(run)


def check_c07_opmode(run, drv, rng, sc, n: int) -> None:
    check_opmode(run, drv, rng, sc, n, 4, "C07", [EXEC_ALL[0], EXEC_ALL[1]], overdriven=True, parse=False)


def check_c14_opmode(run, drv, rng, sc, frac: float) -> None:
    """frames through the -O generator: executed little- and big-endian branches"""
    for (kname, n, signed) in props_c.kind_list():
        if rng.random() > frac:
            continue
        s, msgs = props_c.frame_schema(kname, n)
        text = G.schema_text(s)
        base = f"c14o_{kname}{n}"
        vals = props_c.frame_values(kname, n, signed, rng)
        for cfg in (EXEC_ALL[0], EXEC_ALL[1]):
            try:
                mod = C.CModule(sc, s, text, base, optimize=True, endian=cfg["endian"])
            except Exception as e:
                run.violation({"kind": "compile-failed", "input": {"files": {"main.bitproto": text}}, "observed_impl": str(e)[:600]})
                continue
            jobs = [(m, props_c.frame_value(pos, off, x, vals, rng)) for (m, off, pos) in msgs for x in vals]
            ans = drv.batch([{"op": "spec.encode", "ty": G.msg_ty_json(m), "val": G.msg_val_json(m, v)} for (m, v) in jobs])
            for (m, v), a in zip(jobs, ans):
                run.evaluated()
                run.nontrivial(("c14op", cfg["name"], kname, n, m.name))
                run.count(f"opmode_frames:{cfg['name']}")
                got, sok, bok = mod.encode(m, v)
                dv, dok = mod.decode(m, bytes.fromhex(a["ok"]))
                if got.hex() != a["ok"] or dv != v or not (sok and bok and dok):
                    run.violation({"kind": "impl-vs-spec", "input": {"files": {"main.bitproto": text}, "message": m.name, "config": cfg["name"],
                                                                      "ty": G.msg_ty_json(m), "val": G.msg_val_json(m, v)},
                                   "observed_impl": {"bytes": got.hex(), "decode": dv, "guards": [sok, bok, dok]},
                                   "expected_by_spec": {"bytes": a["ok"], "decode": v}})
            del mod
