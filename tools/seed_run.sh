#!/bin/bash
# usage: tools/seed_run.sh <patch.diff> <Cxx> [quick|thorough]  — apply to /repo, run the check, undo
p=$(realpath "$1"); shift
git -C /repo apply "$p" || exit 2
cd /verif && timeout 3000 ./check.sh "$@" 2>&1 | grep -E "VIOLATION|KNOWN-FINDING|infrastructure|Traceback" | head -5
rc=${PIPESTATUS[0]}
git -C /repo checkout -- . 
git -C /verif checkout -- evidence 2>/dev/null  # evidence of a modified tree is never kept
echo "check_rc=$rc"
