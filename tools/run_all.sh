#!/bin/bash
# usage: tools/run_all.sh <quick|thorough> [seed]   — every registered check, sequentially; one summary line per check
cd "$(dirname "$0")/.." || exit 2
tier=${1:-quick}; seed=${2:-0}
[ -x lean/.lake/build/bin/bpdrv ] || ./setup.sh >/dev/null 2>&1 || { echo "setup failed"; exit 2; }
for i in $(seq -w 1 20); do
  s=$(date +%s)
  out=$(VERIF_SEED=$seed ./check.sh C$i $tier 2>&1); rc=$?
  echo "C$i tier=$tier seed=$seed rc=$rc $(( $(date +%s) - s ))s violations=$(echo "$out" | grep -c '^VIOLATION') known=$(echo "$out" | grep -c '^KNOWN-FINDING')"
  echo "$out" | grep -E "^VIOLATION|infrastructure|Traceback" | head -3
done
