#!/bin/bash
# usage: tools/seed_confirm.sh <seeded-dir>   (contains patch.diff, demo.py|demo.sh, meta.json)
# confirms in a scratch worktree: demo passes unpatched, tests still 62 passed with patch, demo fails with patch
d=$(realpath "$1"); wt=$(mktemp -d /tmp/confirm-XXXX); rmdir "$wt"
git -C /repo worktree add --detach "$wt" HEAD >/dev/null 2>&1 || exit 2
demo="$d/demo.py"; runner="/venv/bin/python"; [ -f "$d/demo.sh" ] && { demo="$d/demo.sh"; runner="bash"; }
$runner "$demo" "$wt" >/tmp/confirm.out 2>&1; clean=$?
git -C "$wt" apply "$d/patch.diff" || { echo "PATCH-DOES-NOT-APPLY"; git -C /repo worktree remove --force "$wt"; exit 2; }
tests=$(cd "$wt" && /venv/bin/python -m pytest -q -p no:cacheprovider --timeout=900 2>&1 | tail -1)
$runner "$demo" "$wt" >/tmp/confirm2.out 2>&1; patched=$?
git -C /repo worktree remove --force "$wt"
echo "clean_demo_rc=$clean patched_demo_rc=$patched tests='$tests'"
[ $clean -eq 0 ] && [ $patched -ne 0 ] && echo CONFIRMED || echo NOT-CONFIRMED
