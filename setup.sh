#!/bin/bash
# builds the Lean project (model, proofs, native driver) from files on disk only
cd "$(dirname "$0")" || exit 2
export PATH="/opt/veriftools/lean/bin:$PATH"
export PYTHONDONTWRITEBYTECODE=1
/venv/bin/python -m tools.translate >/dev/null || exit 2
cd lean && lake build BpModel bpdrv
