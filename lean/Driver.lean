import Lean.Data.Json
import BpModel.Model.PyRt
import BpModel.Model.CRtTree
import BpModel.Model.OpMode
import BpModel.Model.Wire
import BpModel.Model.Expr
import BpModel.Model.Lit
import BpModel.Model.Front
import BpModel.Model.Json
import BpModel.Model.Names
import BpModel.Model.Cli
import BpModel.Model.Emit
import BpModel.Model.Memo
import BpModel.Model.Lint
import BpModel.Model.Lexer
import BpModel.Model.Lex
import BpModel.Model.Parse
import BpModel.Model.JsonText
/-!
# bpdrv — line-protocol driver for the executable model

One JSON request per line on stdin, one JSON answer per line on stdout, in order.
See DESIGN.md §3.3.1.  Imports only the (import-free) model and `Lean.Data.Json`.
-/
open Lean Bp

namespace Drv

def err (msg : String) : Json := Json.mkObj [("err", msg)]

partial def tyOfJson (j : Json) : Except String Ty :=
  match j with
  | .str "bool" => .ok .bool
  | .str "byte" => .ok .byte
  | _ =>
    if let .ok n := j.getObjValAs? Nat "uint" then .ok (.uint n)
    else if let .ok n := j.getObjValAs? Nat "int" then .ok (.int n)
    else if let .ok n := j.getObjValAs? Nat "enum" then do
      let ms ← j.getObjValAs? (Array Nat) "members"
      .ok (.enum n ms.toList)
    else if let .ok t := j.getObjVal? "alias" then do
      let t ← tyOfJson t
      .ok (.alias t)
    else if let .ok t := j.getObjVal? "array" then do
      let t ← tyOfJson t
      let cap ← j.getObjValAs? Nat "cap"
      let ext ← j.getObjValAs? Bool "ext"
      .ok (.array ext cap t)
    else if let .ok fs := j.getObjValAs? (Array Json) "msg" then do
      let ext ← j.getObjValAs? Bool "ext"
      let fs ← fs.toList.mapM fun f => do
        let num ← f.getObjValAs? Nat "num"
        let t ← f.getObjVal? "ty"
        let t ← tyOfJson t
        pure (num, t)
      .ok (.msg ext fs)
    else .error s!"bad ty: {j.compress}"

/-- values: integers as JSON numbers, arrays as lists, messages as {"f":[[num,val],…]};
    returned aligned with the fields of `t` sorted by number. `t` is NOT yet normalised. -/
partial def valOfJson (t : Ty) (j : Json) : Except String Val :=
  match t, j with
  | .alias t, j => valOfJson t j
  | .array _ _ e, .arr vs => do
    let vs ← vs.toList.mapM (valOfJson e)
    .ok (.arr vs)
  | .msg _ fs, j => do
    let kvs ← j.getObjValAs? (Array Json) "f"
    let kvs ← kvs.toList.mapM fun kv => do
      let a ← kv.getArr?
      if h : a.size = 2 then
        let k ← (a[0]'(by omega)).getNat?
        pure (k, a[1]'(by omega))
      else .error "bad field pair"
    -- align with the declared fields, then sort by number
    let vs ← fs.mapM fun (k, ft) =>
      match kvs.find? (·.1 == k) with
      | some (_, vj) => do
        let v ← valOfJson ft vj
        pure (k, v)
      | none => .error s!"missing field {k}"
    .ok (.msg ((sortBy vs).map (·.2)))
  | _, .bool b => .ok (.int (if b then 1 else 0))
  | _, j =>
    match j.getInt? with
    | .ok x => .ok (.int x)
    | .error _ => .error s!"bad val: {j.compress}"

/-- `t` normalised -/
partial def valToJson (t : Ty) (v : Val) : Json :=
  match t, v with
  | .alias t, v => valToJson t v
  | .array _ _ e, .arr vs => .arr (vs.map (valToJson e)).toArray
  | .msg _ fs, .msg vs =>
    Json.mkObj [("f", .arr ((fs.zip vs).map fun ((k, ft), fv) =>
      Json.arr #[(k : Json), valToJson ft fv]).toArray)]
  | _, .int x => (x : Json)
  | _, _ => Json.null

def hexDigit (n : Nat) : Char := if n < 10 then Char.ofNat (48 + n) else Char.ofNat (87 + n)
def toHex (bs : List Nat) : String :=
  String.ofList (bs.flatMap fun b => [hexDigit (b / 16 % 16), hexDigit (b % 16)])
def hexVal (c : Char) : Option Nat :=
  if '0' ≤ c ∧ c ≤ '9' then some (c.toNat - 48)
  else if 'a' ≤ c ∧ c ≤ 'f' then some (c.toNat - 87)
  else if 'A' ≤ c ∧ c ≤ 'F' then some (c.toNat - 55) else none
def ofHex (s : String) : Except String (List Nat) :=
  let rec go : List Char → List Nat → Except String (List Nat)
    | [], acc => .ok acc.reverse
    | a :: b :: r, acc =>
      match hexVal a, hexVal b with
      | some x, some y => go r ((x * 16 + y) :: acc)
      | _, _ => .error "bad hex"
    | _, _ => .error "odd hex"
  go s.toList []

partial def tyToJson (t : Ty) : Json :=
  match t with
  | .bool => "bool"
  | .byte => "byte"
  | .uint n => Json.mkObj [("uint", n)]
  | .int n => Json.mkObj [("int", n)]
  | .enum n ms => Json.mkObj [("enum", n), ("members", .arr (ms.map fun (m : Nat) => toJson m).toArray)]
  | .alias t => Json.mkObj [("alias", tyToJson t)]
  | .array ext cap e => Json.mkObj [("array", tyToJson e), ("cap", cap), ("ext", ext)]
  | .msg ext fs => Json.mkObj [("msg", .arr (fs.map fun (k, ft) => Json.mkObj [("num", k), ("ty", tyToJson ft)]).toArray), ("ext", ext)]

def pathOfJson (j : Json) : Except String (List String) := do
  let a ← j.getArr?
  a.toList.mapM (·.getStr?)

def cexprOfJson (j : Json) : Except String Front.CExpr :=
  if let .ok v := j.getObjValAs? Int "int" then .ok (.lit (.int v))
  else if let .ok v := j.getObjValAs? Bool "bool" then .ok (.lit (.bool v))
  else if let .ok v := j.getObjValAs? String "str" then .ok (.lit (.str v))
  else if let .ok p := j.getObjVal? "ref" then do .ok (.ref (← pathOfJson p))
  else .error s!"bad cexpr {j.compress}"

partial def tyEOfJson (j : Json) : Except String Front.TyE :=
  match j with
  | .str "bool" => .ok .bool
  | .str "byte" => .ok .byte
  | _ =>
    if let .ok n := j.getObjValAs? Nat "uint" then .ok (.uint n)
    else if let .ok n := j.getObjValAs? Nat "int" then .ok (.int n)
    else if let .ok p := j.getObjVal? "ref" then do .ok (.ref (← pathOfJson p))
    else if let .ok e := j.getObjVal? "array" then do
      let e ← tyEOfJson e
      let cj ← j.getObjVal? "cap"
      let cap ← if let .ok n := cj.getObjValAs? Nat "lit" then pure (Front.CapE.lit n)
        else if let .ok p := cj.getObjVal? "cref" then do pure (Front.CapE.cref (← pathOfJson p))
        else .error "bad cap"
      let ext ← j.getObjValAs? Bool "ext"
      .ok (.array e cap ext)
    else .error s!"bad tyE {j.compress}"

partial def itemOfJson (j : Json) : Except String Front.Item := do
  let k ← j.getObjValAs? String "k"
  let line ← j.getObjValAs? Nat "line"
  match k with
  | "const" => .ok (.const line (← j.getObjValAs? String "name") (← cexprOfJson (← j.getObjVal? "v")))
  | "alias" => .ok (.alias line (← j.getObjValAs? String "name") (← tyEOfJson (← j.getObjVal? "ty")))
  | "enum" =>
    let ms ← j.getObjValAs? (Array Json) "members"
    let ms ← ms.toList.mapM fun m => do
      pure ((← m.getObjValAs? Nat "line"), (← m.getObjValAs? String "name"), (← m.getObjValAs? Nat "value"))
    let extra ← match j.getObjValAs? (Array Json) "extra" with
      | .ok a => a.toList.mapM itemOfJson
      | .error _ => pure []
    .ok (.enum line (← j.getObjValAs? String "name") (← j.getObjValAs? Nat "nbits") ms extra)
  | "msg" =>
    let its ← j.getObjValAs? (Array Json) "items"
    let its ← its.toList.mapM itemOfJson
    .ok (.msg line (← j.getObjValAs? String "name") (← j.getObjValAs? Bool "ext") its)
  | "field" => .ok (.field line (← j.getObjValAs? String "name") (← j.getObjValAs? Nat "num") (← tyEOfJson (← j.getObjVal? "ty")))
  | "option" => .ok (.option line (← j.getObjValAs? String "name") (← cexprOfJson (← j.getObjVal? "v")))
  | "import" =>
    let a := match j.getObjValAs? String "as" with | .ok a => some a | .error _ => none
    .ok (.import_ line a (← j.getObjValAs? String "file"))
  | _ => .error s!"bad item kind {k}"

partial def entMsgs (pre : String) (mem : List (String × Front.Ent)) : List Json :=
  mem.flatMap fun (n, e) =>
    match e with
    | .msg _ t inner => Json.mkObj [("path", pre ++ n), ("ty", tyToJson t.normalize), ("nbits", t.nbits)] :: entMsgs (pre ++ n ++ ".") inner
    | _ => []

def excJson (e : Exc) : Json := Json.mkObj [("exc", e.name)]
def okJson (j : Json) : Json := Json.mkObj [("ok", j)]

def getTy (req : Json) (key : String := "ty") : Except String (Ty × Ty) := do
  let tj ← req.getObjVal? key
  let t ← tyOfJson tj
  pure (t, t.normalize)

partial def jvalToJson : JVal → Json
  | .num x => (x : Int)
  | .bool b => b
  | .arr xs => .arr (xs.map jvalToJson).toArray
  | .obj kvs => Json.mkObj (kvs.map fun (k, v) => (toString k, jvalToJson v))

partial def dOfJson (j : Json) : Except String C10.D := do
  let id ← j.getObjValAs? Nat "id"
  let cs ← j.getObjValAs? (Array Json) "children"
  let cs ← cs.toList.mapM dOfJson
  pure (.mk id cs)

def langOf (l : String) : Names.Lang := if l == "py" then .py else if l == "go" then .go else .c
def kindOf (k : String) : Names.Kind :=
  if k == "enum" then .enum else if k == "alias" then .alias else if k == "constant" then .constant else .message

/-- memo tie: ops `["set",k,v]` (ignored by the harness for frozen nodes), `["freeze",k]`, `["get",k]` -/
def memoRun (ops : List (String × Nat × Int)) : List Int :=
  let step := fun (st : (List (Nat × Int) × List Nat × C18.Memo Nat Int) × List Int) (op : String × Nat × Int) =>
    let ((vals, frozen, memo), out) := st
    let f := fun k => ((vals.find? (·.1 = k)).map (·.2)).getD 0
    match op with
    | ("set", k, v) => (((k, v) :: vals.filter (·.1 ≠ k), frozen, memo), out)
    | ("freeze", k, _) => ((vals, k :: frozen, memo), out)
    | (_, k, _) =>
      let (v, memo') := memo.get f (fun k => frozen.contains k) k
      ((vals, frozen, memo'), out ++ [v])
  (ops.foldl step (([], [], {}), [])).2

def tokJson (t : Lex.Token) : Json :=
  let (k, v) : String × Json := match t.kind with
    | .newline => ("NEWLINE", Json.null) | .comment => ("COMMENT", Json.null)
    | .boolType => ("BOOL_TYPE", Json.null) | .uintType n => ("UINT_TYPE", (n : Nat)) | .intType n => ("INT_TYPE", (n : Nat))
    | .byteType => ("BYTE_TYPE", Json.null) | .hex v => ("HEX_LITERAL", (v : Nat)) | .int v => ("INT_LITERAL", (v : Nat))
    | .boolLit b => ("BOOL_LITERAL", b) | .ident s => ("IDENTIFIER", s) | .kw s => (s.toUpper, s) | .str v => ("STRING_LITERAL", v)
    | .plus => ("PLUS", Json.null) | .minus => ("MINUS", Json.null) | .times => ("TIMES", Json.null) | .divide => ("DIVIDE", Json.null)
    | .lit c => (String.singleton c, Json.null)
  Json.mkObj [("k", k), ("v", v), ("line", t.line)]

def fileOfText (name text : String) : Front.File :=
  let p := Parse.parseText text.toList
  { name := name, proto := p.proto, items := p.items }

/-- order-preserving wire form of a JSON value: numbers, booleans, arrays, and `{"o": [[key, value], ...]}` -/
partial def jtOfJson (j : Json) : Except String JsonText.JT :=
  match j with
  | .bool b => .ok (.bool b)
  | .num _ => match j.getInt? with | .ok i => .ok (.num i) | .error e => .error e
  | .arr a => do .ok (.arr (← a.toList.mapM jtOfJson))
  | _ => do
    let kvs ← j.getObjValAs? (Array Json) "o"
    let kvs ← kvs.toList.mapM fun kv => do
      let a ← kv.getArr?
      if a.size ≠ 2 then throw "bad member"
      pure ((← a[0]!.getStr?).toList, (← jtOfJson a[1]!))
    .ok (.obj kvs)

partial def jtToJson : JsonText.JT → Json
  | .num x => (x : Int)
  | .bool b => b
  | .arr xs => .arr (xs.map jtToJson).toArray
  | .obj kvs => Json.mkObj [("o", .arr (kvs.map fun (k, v) => Json.arr #[Json.str (String.ofList k), jtToJson v]).toArray)]

def handle (op : String) (req : Json) : Except String Json := do
  match op with
  | "echo" => pure (okJson req)
  | "spec.nbits" =>
    let (_, t) ← getTy req
    pure (okJson (t.nbits : Nat))
  | "spec.wf" =>
    let (_, t) ← getTy req
    pure (okJson (t.wf && t.isMsg))
  | "spec.inrange" =>
    let (t0, t) ← getTy req
    let v ← valOfJson t0 (← req.getObjVal? "val")
    pure (okJson (inRange t v))
  | "echo.val" =>
    let (t0, t) ← getTy req
    let v ← valOfJson t0 (← req.getObjVal? "val")
    pure (okJson (valToJson t v))
  | "spec.encode" =>
    let (t0, t) ← getTy req
    let v ← valOfJson t0 (← req.getObjVal? "val")
    pure (okJson (toHex (Spec.encode t v)))
  | "spec.decode" =>
    let (_, t) ← getTy req
    let bs ← ofHex (← req.getObjValAs? String "bytes")
    match Spec.decode t bs with
    | some v => pure (okJson (valToJson t v))
    | none => pure (Json.mkObj [("exc", "short")])
  | "spec.project" =>
    let (_, t) ← getTy req
    let (t20, _) ← getTy req "ty_new"
    let v ← valOfJson t20 (← req.getObjVal? "val")
    pure (okJson (valToJson t (Spec.proj t v)))
  | "py.encode" =>
    let (t0, t) ← getTy req
    let v ← valOfJson t0 (← req.getObjVal? "val")
    match PyRt.encode t v with
    | .ok bs => pure (okJson (toHex bs))
    | .error e => pure (excJson e)
  | "py.decode" =>
    let (t0, t) ← getTy req
    let bs ← ofHex (← req.getObjValAs? String "bytes")
    let cur ← match req.getObjVal? "cur" with
      | .ok cj => valOfJson t0 cj
      | .error _ => pure (PyRt.fresh t)
    match PyRt.decode t bs cur with
    | .ok v => pure (okJson (valToJson t v))
    | .error e => pure (excJson e)
  | "py.fresh" =>
    let (_, t) ← getTy req
    pure (okJson (valToJson t (PyRt.fresh t)))
  | "c.encode" =>
    let (t0, t) ← getTy req
    let be ← req.getObjValAs? Bool "be"
    let v ← valOfJson t0 (← req.getObjVal? "val")
    match CRt.encode be t v with
    | .ok bs => pure (okJson (toHex bs))
    | .error e => pure (excJson e)
  | "c.decode" =>
    let (_, t) ← getTy req
    let be ← req.getObjValAs? Bool "be"
    let bs ← ofHex (← req.getObjValAs? String "bytes")
    match CRt.decode be t bs with
    | .ok v => pure (okJson (valToJson t v))
    | .error e => pure (excJson e)
  | "c.copybits" =>
    let be ← req.getObjValAs? Bool "be"
    let n ← req.getObjValAs? Nat "n"
    let di ← req.getObjValAs? Nat "di"
    let si ← req.getObjValAs? Nat "si"
    let dst ← ofHex (← req.getObjValAs? String "dst")
    let src ← ofHex (← req.getObjValAs? String "src")
    let st := CRt.copyBits be n (bytesToNat dst) (bytesToNat src) di si
    if st.whi ≤ dst.length ∧ st.rhi ≤ src.length then
      pure (Json.mkObj [("ok", toHex (natToBytes dst.length st.D)), ("whi", st.whi), ("rhi", st.rhi)])
    else pure (Json.mkObj [("exc", "oob"), ("whi", st.whi), ("rhi", st.rhi)])
  | "c.encbase" =>
    let be ← req.getObjValAs? Bool "be"
    let n ← req.getObjValAs? Nat "n"
    let i ← req.getObjValAs? Nat "i"
    let mem ← ofHex (← req.getObjValAs? String "mem")
    let wire ← ofHex (← req.getObjValAs? String "wire")
    let st := CRt.encBase be n mem (bytesToNat wire) i
    if st.whi ≤ wire.length then pure (okJson (toHex (natToBytes wire.length st.D)))
    else pure (Json.mkObj [("exc", "oob")])
  | "c.decbase" =>
    let be ← req.getObjValAs? Bool "be"
    let n ← req.getObjValAs? Nat "n"
    let i ← req.getObjValAs? Nat "i"
    let signed ← req.getObjValAs? Bool "signed"
    let mem ← ofHex (← req.getObjValAs? String "mem")
    let wire ← ofHex (← req.getObjValAs? String "wire")
    let r := CRt.decBase be n mem (bytesToNat wire) i
    if r.2.rhi ≤ wire.length then
      -- BpEndecodeInt: sign handling on the integer the cell holds, stored back in host order
      let mem' := if signed then
          let u := CRt.cellVal be r.1
          CRt.cellOf be mem.length (CRt.signFix mem.length n u)
        else r.1
      pure (okJson (toHex mem'))
    else pure (Json.mkObj [("exc", "oob")])
  | "op.plan" =>
    let (_, t) ← getTy req
    let enc ← req.getObjValAs? Bool "enc"
    let leaves := (OpMode.planTree enc t 0).1
    pure (okJson (.arr (leaves.map fun (n, sg, its) => Json.mkObj [("n", n), ("signed", sg),
      ("items", .arr (its.map fun it => Json.mkObj [("si", it.si), ("fi", it.fi), ("shift", it.shift),
        ("mask", it.mask), ("r", it.r)]).toArray)]).toArray))
  | "op.encode" =>
    let (t0, t) ← getTy req
    let d ← req.getObjValAs? String "dialect"
    let dl := if d == "cBE" then OpMode.Dialect.cBE else if d == "go" then OpMode.Dialect.go else OpMode.Dialect.cLE
    let v ← valOfJson t0 (← req.getObjVal? "val")
    match Wire.encodeWith (OpMode.encLeaf dl) t v with
    | .ok bs => pure (okJson (toHex bs))
    | .error e => pure (excJson e)
  | "op.decode" =>
    let (_, t) ← getTy req
    let bs ← ofHex (← req.getObjValAs? String "bytes")
    match Wire.decodeWith OpMode.decLeaf t bs with
    | .ok v => pure (okJson (valToJson t v))
    | .error e => pure (excJson e)
  | "front.eval" =>
    let text ← req.getObjValAs? String "text"
    let envj ← req.getObjValAs? (Array Json) "env"
    let env ← envj.toList.mapM fun kv => do
      let a ← kv.getArr?
      if h : a.size = 2 then
        let k ← (a[0]'(by omega)).getStr?
        let v ← (a[1]'(by omega)).getInt?
        pure (k, v)
      else .error "bad env pair"
    match Expr.evalText (fun n => (env.find? (·.1 == n)).map (·.2)) text with
    | .ok v => pure (okJson (v : Int))
    | .error e => pure (Json.mkObj [("exc", e)])
  | "emit.intlit" =>
    let v ← req.getObjValAs? Int "v"
    pure (okJson (String.ofList (Lit.intLit v)))
  | "emit.strlit" =>
    let v ← req.getObjValAs? String "s"
    pure (okJson (String.ofList (Lit.strLit v.toList)))
  | "emit.boollit" =>
    let l ← req.getObjValAs? String "lang"
    let b ← req.getObjValAs? Bool "b"
    let lang := if l == "py" then Lit.Lang.py else if l == "go" then Lit.Lang.go else Lit.Lang.c
    pure (okJson (Lit.boolLit lang b))
  | "lang.denotestr" =>
    let t ← req.getObjValAs? String "text"
    match Lit.denoteStr t.toList with
    | some v => pure (okJson (String.ofList v))
    | none => pure (Json.mkObj [("exc", "not-a-literal")])
  | "lang.denoteint" =>
    let t ← req.getObjValAs? String "text"
    match Lit.denoteInt t.toList with
    | some v => pure (okJson (v : Int))
    | none => pure (Json.mkObj [("exc", "not-a-literal")])
  | "front.check" =>
    let fsj ← req.getObjValAs? (Array Json) "files"
    let files ← fsj.toList.mapM fun f => do
      let its ← f.getObjValAs? (Array Json) "items"
      let its ← its.toList.mapM itemOfJson
      pure ({ name := (← f.getObjValAs? String "name"), proto := (← f.getObjValAs? String "proto"), items := its } : Front.File)
    let main ← req.getObjValAs? String "main"
    let trad := match req.getObjValAs? Bool "traditional" with | .ok b => b | .error _ => false
    match Front.checkProgram files main trad with
    | .ok (.proto _ _ mem) => pure (Json.mkObj [("ok", .arr (entMsgs "" mem).toArray)])
    | .ok _ => pure (Json.mkObj [("ok", .arr #[])])
    | .error d => pure (Json.mkObj [("diag", Json.mkObj [("rule", d.rule), ("file", d.file), ("line", d.line)])])
  | "names.def" =>
    let l ← req.getObjValAs? String "lang"
    let k ← req.getObjValAs? String "kind"
    let pre ← req.getObjValAs? String "prefix"
    let scopes ← req.getObjValAs? (Array String) "scopes"
    let n ← req.getObjValAs? String "name"
    pure (okJson (String.ofList (Names.defName (langOf l) (kindOf k) pre.toList (scopes.toList.map (·.toList)) n.toList)))
  | "names.pascal" => pure (okJson (String.ofList (Names.pascalCase (← req.getObjValAs? String "s").toList)))
  | "names.upper" => pure (okJson (String.ofList (Names.upperCase (← req.getObjValAs? String "s").toList)))
  | "names.isupper" => pure (okJson (Names.pyIsUpper (← req.getObjValAs? String "s").toList))
  | "lint.name" =>
    let r ← req.getObjValAs? String "rule"
    let n ← req.getObjValAs? String "name"
    pure (okJson (if r == "upper" then C20.warnsUpper n.toList else C20.warnsPascal n.toList))
  | "lint.enum0" => pure (okJson (C20.warnsEnumNoZero (← req.getObjValAs? (Array Nat) "values").toList))
  | "json.render" =>
    let (t0, t) ← getTy req
    let v ← valOfJson t0 (← req.getObjVal? "val")
    pure (okJson (jvalToJson (Spec.json t v)))
  | "json.roundtrip" =>
    let (t0, t) ← getTy req
    let v ← valOfJson t0 (← req.getObjVal? "val")
    match Spec.ofJson t (Spec.json t v) with
    | some v' => pure (okJson (valToJson t v'))
    | none => pure (Json.mkObj [("exc", "not-readable")])
  | "cli.main" =>
    let w ← req.getObjVal? "world"
    let known ← w.getObjValAs? (Array String) "known"
    let supO ← w.getObjValAs? (Array String) "supports_o"
    let files ← w.getObjValAs? (Array String) "files"
    let world : Cli.World := {
      hasOtherError := (← w.getObjValAs? Bool "other_error"), hasExtensible := (← w.getObjValAs? Bool "has_ext"),
      warnings := (← w.getObjValAs? Nat "warnings"), supportsO := fun l => supO.contains l, knownLang := fun l => known.contains l,
      files := fun _ _ _ => files.toList }
    let lang := match req.getObjValAs? String "lang" with | .ok l => some l | .error _ => none
    let o : Cli.Opts := { lang := lang, check := (← req.getObjValAs? Bool "check"), optimize := (← req.getObjValAs? Bool "optimize"),
                          filter := (← req.getObjValAs? (Array String) "filter").toList, quiet := (← req.getObjValAs? Bool "quiet") }
    let r := Cli.main world o
    pure (okJson (Json.mkObj [("exit", r.exit), ("written", .arr (r.written.map Json.str).toArray)]))
  | "cli.emitted" =>
    let names ← req.getObjValAs? (Array String) "messages"
    let filter ← req.getObjValAs? (Array String) "filter"
    pure (okJson (.arr ((Cli.emitted id id filter.toList names.toList).map Json.str).toArray))
  | "emit.order" =>
    let ds ← req.getObjValAs? (Array Json) "defs"
    let ds ← ds.toList.mapM dOfJson
    pure (okJson (.arr ((C10.emitAll ds).map fun (n : Nat) => (n : Json)).toArray))
  | "memo.run" =>
    let ops ← req.getObjValAs? (Array Json) "ops"
    let ops ← ops.toList.mapM fun o => do
      let a ← o.getArr?
      if a.size < 2 then throw "memo op"
      let k ← a[1]!.getNat?
      let v := match a[2]? with | some j => (match j.getInt? with | .ok i => i | .error _ => 0) | none => 0
      pure ((← a[0]!.getStr?), k, v)
    pure (okJson (.arr ((memoRun ops).map fun (i : Int) => (i : Json)).toArray))
  | "lex.string" =>
    let t ← req.getObjValAs? String "text"
    match Lexer.lexString t.toList with
    | none => pure (Json.mkObj [("none", true)])
    | some (.ok v, rest) => pure (Json.mkObj [("ok", String.ofList v), ("rest", String.ofList rest)])
    | some (.error .invalidEscapingChar, _) => pure (Json.mkObj [("exc", "InvalidEscapingChar")])
    | some (.error .indexError, _) => pure (Json.mkObj [("exc", "IndexError")])
    | some (.error .outOfFuel, _) => pure (Json.mkObj [("exc", "hang")])
  | "text.lex" =>
    let t ← req.getObjValAs? String "text"
    let (ts, e) := Lex.lex t.toList
    let ej : Json := match e with
      | none => Json.null
      | some (.invalidToken line c) => Json.mkObj [("exc", "LexerError"), ("line", line), ("char", String.singleton c)]
      | some (.invalidEscape line) => Json.mkObj [("exc", "InvalidEscapingChar"), ("line", line)]
      | some (.invalidWidth line sg _) => Json.mkObj [("exc", if sg then "InvalidIntCap" else "InvalidUintCap"), ("line", line)]
      | some .outOfFuel => Json.mkObj [("exc", "hang")]
    pure (Json.mkObj [("tokens", .arr (ts.map tokJson).toArray), ("error", ej)])
  | "text.check" =>
    let fsj ← req.getObjValAs? (Array Json) "files"
    let files ← fsj.toList.mapM fun f => do
      pure (fileOfText (← f.getObjValAs? String "name") (← f.getObjValAs? String "text"))
    let main ← req.getObjValAs? String "main"
    let trad := match req.getObjValAs? Bool "traditional" with | .ok b => b | .error _ => false
    match Front.checkProgram files main trad with
    | .ok (.proto _ _ mem) => pure (Json.mkObj [("ok", .arr (entMsgs "" mem).toArray)])
    | .ok _ => pure (Json.mkObj [("ok", .arr #[])])
    | .error d => pure (Json.mkObj [("diag", Json.mkObj [("rule", d.rule), ("file", d.file), ("line", d.line)])])
  | "jsontext.render" =>
    let j ← jtOfJson (← req.getObjVal? "value")
    let py := match req.getObjValAs? Bool "py" with | .ok b => b | .error _ => false
    pure (okJson (String.ofList (JsonText.renderWith (if py then JsonText.pyDefault else JsonText.compact) j)))
  | "jsontext.parse" =>
    let t ← req.getObjValAs? String "text"
    match JsonText.parse t.toList with
    | some j => pure (okJson (jtToJson j))
    | none => pure (Json.mkObj [("exc", "not-json")])
  | _ => .error s!"unknown op {op}"

def handleLine (line : String) : Json :=
  match Json.parse line with
  | .error e => err s!"parse: {e}"
  | .ok req =>
    match req.getObjValAs? String "op" with
    | .error e => err e
    | .ok op =>
      match handle op req with
      | .ok j => j
      | .error e => err e

partial def loop (hin hout : IO.FS.Stream) : IO Unit := do
  let line ← hin.getLine
  if line.isEmpty then return ()
  let t := line.trimAscii.toString
  if t.isEmpty then loop hin hout else
  hout.putStrLn (handleLine t).compress
  hout.flush
  loop hin hout

end Drv

def main : IO Unit := do
  Drv.loop (← IO.getStdin) (← IO.getStdout)
