import BpModel.Model.PyRt
import BpModel.Model.CRt
/-!
# L5 OpMode — the compile-time copy plan of optimization mode and the meaning of its items

`planLeaf` mirrors `Formatter.format_op_mode_endecode_single_type`: the runtime loop of
`process_base_type` evaluated at compile time, one `Item` per chunk, with the
`(shift, mask, si, fi, r)` of `format_op_mode_{en,de}code_single_byte`.
Item semantics, per emitted dialect:

* C little-endian byte-pointer form and Go: byte `fi` of the field (`((unsigned char*)&f)[fi]`,
  `byte(f >> 8·fi)`); C encoder assigns (`=`) when `r = 0`, Go always ORs;
* C big-endian value-shift form: the whole value shifted by `8·fi + shift`.

mirrors: compiler/bitproto/renderer/formatter.py:606-791; impls/c/formatter.py:314-495;
         impls/go/formatter.py:188-286
-/
namespace Bp.OpMode
open Bp

structure Item where
  si : Nat        -- byte index in the wire buffer
  fi : Nat        -- byte index in the field
  shift : Int     -- smart shift: right if positive, left if negative
  mask : Nat
  r : Nat         -- bit offset inside the destination byte (0 ⇒ first write to that byte)
  deriving Repr, BEq, DecidableEq

/-- `format_op_mode_encode_single_byte(t, chain, i, j, c)` -/
def mkEnc (i j c : Nat) : Item :=
  { si := i / 8, fi := j / 8, shift := ((j % 8 : Nat) : Int) - ((i % 8 : Nat) : Int), mask := getMask (i % 8) c, r := i % 8 }

/-- `format_op_mode_decode_single_byte(t, chain, i, j, c)` -/
def mkDec (i j c : Nat) : Item :=
  { si := i / 8, fi := j / 8, shift := ((i % 8 : Nat) : Int) - ((j % 8 : Nat) : Int), mask := getMask (j % 8) c, r := j % 8 }

/-- the `while j < n` loop of `format_op_mode_endecode_single_type` (fuel = n suffices) -/
def planLeaf (enc : Bool) (n : Nat) : Nat → Nat → Nat → List Item
  | 0, _, _ => []
  | fuel+1, i, j =>
    if j < n then
      let c := nbitsToCopy i j n
      (if enc then mkEnc i j c else mkDec i j c) :: planLeaf enc n fuel (i + c) (j + c)
    else []

/-- the chunk sizes of the plan (for the coverage statement) -/
def planChunks (n : Nat) : Nat → Nat → Nat → List Nat
  | 0, _, _ => []
  | fuel+1, i, j =>
    if j < n then nbitsToCopy i j n :: planChunks n fuel (i + nbitsToCopy i j n) (j + nbitsToCopy i j n) else []

/-- `=` or `|=` -/
def newByte (assign : Bool) (old d : Nat) : Nat := if assign then d else old ||| d

/-- byte-form encoder statement: `s[si] (=|or)= (byte_fi(U) shift) & mask` -/
def execEnc (assignOnR0 : Bool) (U : Nat) (it : Item) (s : List Nat) : Except Exc (List Nat) :=
  let d := smartShift ((U >>> (8 * it.fi)) % 256) it.shift &&& it.mask
  match s[it.si]? with
  | none => .error .oob
  | some old => .ok (setAt s it.si (newByte (assignOnR0 && it.r == 0) old d))

/-- value-shift encoder statement (C big-endian branch): `s[si] (=|or)= ((uT)f shifted by 8·fi+shift) & mask` -/
def execEncBE (U : Nat) (it : Item) (s : List Nat) : Except Exc (List Nat) :=
  let d := smartShift U ((8 * it.fi : Nat) + it.shift) &&& it.mask
  match s[it.si]? with
  | none => .error .oob
  | some old => .ok (setAt s it.si (newByte (it.r == 0) old d))

def runEnc (f : Item → List Nat → Except Exc (List Nat)) : List Item → List Nat → Except Exc (List Nat)
  | [], s => .ok s
  | it :: its, s =>
    match f it s with
    | .error e => .error e
    | .ok s' => runEnc f its s'

inductive Dialect where
  | cLE | cBE | go
  deriving Repr, BEq, DecidableEq

/-- the leaf encoder of a dialect as an action on the wire; the field holds the two's complement
of `x` at storage width -/
def encLeaf (d : Dialect) (n : Nat) (x : Int) (s : List Nat) (i : Nat) : Except Exc (List Nat × Nat) :=
  let U := tc x (8 * CRt.storageSize n)
  let items := planLeaf true n n i 0
  let r := match d with
    | .cLE => runEnc (execEnc true U) items s
    | .go => runEnc (execEnc false U) items s
    | .cBE => runEnc (execEncBE U) items s
  match r with
  | .error e => .error e
  | .ok s' => .ok (s', i + n)

/-- byte-form decoder statement on the field's unsigned pattern `u` (a zeroed field to start):
`byte_fi(f) (=|or)= (s[si] shift) & mask`; value form: `f |= (T)((uT)((s[si] shift) & mask) << 8·fi)` -/
def execDec (s : List Nat) (it : Item) (u : Nat) : Except Exc Nat :=
  match s[it.si]? with
  | none => .error .oob
  | some b => .ok (u ||| ((smartShift b it.shift &&& it.mask) <<< (8 * it.fi)))

def runDec (s : List Nat) : List Item → Nat → Except Exc Nat
  | [], u => .ok u
  | it :: its, u =>
    match execDec s it u with
    | .error e => .error e
    | .ok u' => runDec s its u'

/-- the leaf decoder: items into a zeroed field, then the sign statement
(C: `if ((f >> (n-1)) & 1) f |= ~((1<<n)-1)`; Go: `f <<= d; f >>= d`) for signed widths that are
not 8/16/32/64; returns the integer the field holds -/
def decLeaf (signed : Bool) (n : Nat) (s : List Nat) (i : Nat) : Except Exc (Int × Nat) :=
  match runDec s (planLeaf false n n i 0) 0 with
  | .error e => .error e
  | .ok u =>
    let size := CRt.storageSize n
    .ok (if signed then sgn (CRt.signFix size n u) (8 * size) else (u : Int), i + n)

/-! ## the plan of a whole (traditional) message: items per leaf, in emission order -/

def planArrWith (f : Nat → List (Nat × Bool × List Item) × Nat) : Nat → Nat → List (Nat × Bool × List Item) × Nat
  | 0, i => ([], i)
  | k+1, i =>
    let r := f i
    let rs := planArrWith f k r.2
    (r.1 ++ rs.1, rs.2)

mutual
/-- per leaf: (width, signed, items); cursor threaded exactly as `i[0]` in the formatter -/
def planTree (enc : Bool) : Ty → Nat → List (Nat × Bool × List Item) × Nat
  | .bool, i => ([(1, false, planLeaf enc 1 1 i 0)], i + 1)
  | .byte, i => ([(8, false, planLeaf enc 8 8 i 0)], i + 8)
  | .uint n, i => ([(n, false, planLeaf enc n n i 0)], i + n)
  | .int n, i => ([(n, true, planLeaf enc n n i 0)], i + n)
  | .enum n _, i => ([(n, false, planLeaf enc n n i 0)], i + n)
  | .alias t, i => planTree enc t i
  | .array _ cap e, i => planArrWith (planTree enc e) cap i
  | .msg _ fs, i => planFields enc fs i
def planFields (enc : Bool) : List (Nat × Ty) → Nat → List (Nat × Bool × List Item) × Nat
  | [], i => ([], i)
  | (_, t) :: fs, i =>
    let r := planTree enc t i
    let rs := planFields enc fs r.2
    (r.1 ++ rs.1, rs.2)
end

end Bp.OpMode
