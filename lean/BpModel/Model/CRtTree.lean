import BpModel.Model.CRt
/-!
# CRt on type trees: `BpEndecodeMessage`, `BpEndecodeArray`, `BpEndecodeAlias`

Struct padding is abstracted away: each scalar is its own cell (addressed through the
descriptor's `data` pointer, which the C compiler computes), an array of scalars is a contiguous
run of cells.  Values are the integers the cells hold (`Val`), two's complement at storage width.

mirrors: lib/c/bitproto.c:67-98 (message walk, prefix, skip), 146-238 (array: batch path vs
per-element loop, prefix, skip), 126-142 (alias dispatch), 437-473 (prefix temporaries)
-/
namespace Bp.CRt
open Bp

/-- width of an element type if it is "integer like" for the batch predicate
(`BpIsBaseIntegerType(flag) || BpIsBaseIntegerType(to_flag)`): byte/uint/int/enum or an alias of
one of them -/
def intLikeBits : Ty → Option Nat
  | .byte => some 8
  | .uint n | .int n | .enum n _ => some n
  | .alias .byte => some 8
  | .alias (.uint n) | .alias (.int n) => some n
  | _ => none

/-- the integer of a scalar value (arrays/messages: 0, never used) -/
def Val.toInt : Val → Int
  | .int x => x
  | _ => 0

/-- the contiguous little-endian memory of an array of `size`-byte cells -/
def cellsOf (size : Nat) : List Val → List Nat
  | [] => []
  | v :: vs => natToBytes size (tc (Val.toInt v) (8 * size)) ++ cellsOf size vs

/-- batch path (little-endian build only): one `BpEndecodeBaseType(element_nbits * cap, …)` over
the contiguous array -/
def encBatch (n : Nat) (vs : List Val) (s : List Nat) (i : Nat) : Except Exc (List Nat × Nat) :=
  let mem := cellsOf (storageSize n) vs
  let st := encBase false (n * vs.length) mem (bytesToNat s) i
  if st.whi ≤ s.length ∧ st.rhi ≤ mem.length then .ok (natToBytes s.length st.D, i + n * vs.length)
  else .error .oob

def encPrefix (be ext : Bool) (v : Nat) (s : List Nat) (i : Nat) : Except Exc (List Nat × Nat) :=
  if ext then encLeafAct be 16 (v : Int) s i else .ok (s, i)

def encArrWith (f : Val → List Nat → Nat → Except Exc (List Nat × Nat)) :
    Nat → List Val → List Nat → Nat → Except Exc (List Nat × Nat)
  | 0, _, s, i => .ok (s, i)
  | _+1, [], _, _ => .error .oob
  | k+1, v :: vs, s, i =>
    match f v s i with
    | .error e => .error e
    | .ok (s', i') => encArrWith f k vs s' i'

def useBatch (be : Bool) (e : Ty) : Bool :=
  !be && match intLikeBits e with
    | some n => n == 8 || n == 16 || n == 32 || n == 64
    | none => false

mutual
def enc (be : Bool) : Ty → Val → List Nat → Nat → Except Exc (List Nat × Nat)
  | .bool, .int x, s, i => encLeafAct be 1 x s i
  | .byte, .int x, s, i => encLeafAct be 8 x s i
  | .uint n, .int x, s, i => encLeafAct be n x s i
  | .int n, .int x, s, i => encLeafAct be n x s i
  | .enum n _, .int x, s, i => encLeafAct be n x s i
  | .alias t, v, s, i => enc be t v s i
  | .array ext cap e, .arr vs, s, i =>
    match encPrefix be ext cap s i with
    | .error er => .error er
    | .ok (s', i') =>
      if useBatch be e ∧ vs.length = cap then encBatch e.nbits vs s' i'
      else encArrWith (enc be e) cap vs s' i'
  | .msg ext fs, .msg vs, s, i =>
    match encPrefix be ext (extBits ext + fieldsBits fs) s i with
    | .error e => .error e
    | .ok (s', i') => encFields be fs vs s' i'
  | _, _, _, _ => .error .typeError
def encFields (be : Bool) : List (Nat × Ty) → List Val → List Nat → Nat → Except Exc (List Nat × Nat)
  | [], _, s, i => .ok (s, i)
  | (_, t) :: fs, v :: vs, s, i =>
    match enc be t v s i with
    | .error e => .error e
    | .ok (s', i') => encFields be fs vs s' i'
  | _ :: _, [], _, _ => .error .typeError
end

/-- generated `Encode<Msg>(m, s)` with `unsigned char s[BYTES_LENGTH] = {0}` -/
def encode (be : Bool) (t : Ty) (v : Val) : Except Exc (List Nat) :=
  match enc be t v (zeros (nbytes t.nbits)) 0 with
  | .error e => .error e
  | .ok (s, _) => .ok s

/-! ## decode into a zeroed struct -/

def decAhead (be : Bool) (s : List Nat) (i : Nat) : Except Exc (Nat × Nat) :=
  match decLeafVal be false 16 s i with
  | .error e => .error e
  | .ok (x, i') => .ok (x.toNat, i')

def decArrWith (f : Nat → Except Exc (Val × Nat)) : Nat → Nat → Except Exc (List Val × Nat)
  | 0, i => .ok ([], i)
  | k+1, i =>
    match f i with
    | .error e => .error e
    | .ok (v, i') =>
      match decArrWith f k i' with
      | .error e => .error e
      | .ok (vs, i'') => .ok (v :: vs, i'')

/-- batch path, decode: one copy of `n * cap` bits into the zeroed contiguous array, then the
integers the cells hold (`BpHandleIntSignAfterEndecode` is a no-op for the standard widths) -/
def decBatch (signed : Bool) (n cap : Nat) (s : List Nat) (i : Nat) : Except Exc (List Val × Nat) :=
  let size := storageSize n
  let r := decBase false (n * cap) (zeros (size * cap)) (bytesToNat s) i
  if r.2.rhi ≤ s.length ∧ r.2.whi ≤ size * cap then
    .ok ((List.range cap).map (fun k =>
      let u := rd (bytesToNat r.1) (size * k) size
      Val.int (if signed then sgn (signFix size n u) (8 * size) else (u : Int))), i + n * cap)
  else .error .oob

def isSignedLike : Ty → Bool
  | .int _ | .alias (.int _) => true
  | _ => false

mutual
def dec (be : Bool) : Ty → List Nat → Nat → Except Exc (Val × Nat)
  | .bool, s, i => (decLeafVal be false 1 s i).map fun r => (.int r.1, r.2)
  | .byte, s, i => (decLeafVal be false 8 s i).map fun r => (.int r.1, r.2)
  | .uint n, s, i => (decLeafVal be false n s i).map fun r => (.int r.1, r.2)
  | .int n, s, i => (decLeafVal be true n s i).map fun r => (.int r.1, r.2)
  | .enum n _, s, i => (decLeafVal be false n s i).map fun r => (.int r.1, r.2)
  | .alias t, s, i => dec be t s i
  | .array ext cap e, s, i =>
    let body (j : Nat) : Except Exc (List Val × Nat) :=
      if useBatch be e then decBatch (isSignedLike e) e.nbits cap s j
      else decArrWith (fun j => dec be e s j) cap j
    if ext then
      match decAhead be s i with
      | .error er => .error er
      | .ok (ahead, i1) =>
        match body i1 with
        | .error er => .error er
        | .ok (vs, i2) =>
          .ok (.arr vs, if ahead > cap then i2 + (ahead - cap) * ((i2 - i - 16) / cap) else i2)
    else
      match body i with
      | .error er => .error er
      | .ok (vs, i2) => .ok (.arr vs, i2)
  | .msg ext fs, s, i =>
    if ext then
      match decAhead be s i with
      | .error e => .error e
      | .ok (ahead, i1) =>
        match decFields be fs s i1 with
        | .error e => .error e
        | .ok (vs, i2) => .ok (.msg vs, if i + ahead ≥ i2 then i + ahead else i2)
    else
      match decFields be fs s i with
      | .error e => .error e
      | .ok (vs, i2) => .ok (.msg vs, i2)
def decFields (be : Bool) : List (Nat × Ty) → List Nat → Nat → Except Exc (List Val × Nat)
  | [], _, i => .ok ([], i)
  | (_, t) :: fs, s, i =>
    match dec be t s i with
    | .error e => .error e
    | .ok (v, i') =>
      match decFields be fs s i' with
      | .error e => .error e
      | .ok (vs, i'') => .ok (v :: vs, i'')
end

/-- generated `Decode<Msg>(m, s)` with `struct Msg m = {0}` -/
def decode (be : Bool) (t : Ty) (s : List Nat) : Except Exc Val :=
  match dec be t s 0 with
  | .error e => .error e
  | .ok (v, _) => .ok v

end Bp.CRt
