import BpModel.Model.Lit
/-!
# L7 (part) — JSON as TEXT

`render` is the text `Json<Msg>()` of the C runtime writes (lib/c/bitproto.c BpJsonFormat*): compact,
`{"name":value,...}`, `[a,b]`, `true` / `false`, decimal integers; `renderWith` takes the two
separators, so that `json.dumps`' default (`", "` and `": "`, Python `to_json()`) is the same
function.  `parse` is a JSON reader for this subset (objects with string keys without escapes,
arrays, booleans, integers, blanks after separators).  Keys are field names (identifiers).
-/
namespace Bp.JsonText

inductive JT where
  | num (x : Int)
  | bool (b : Bool)
  | arr (xs : List JT)
  | obj (kvs : List (List Char × JT))
  deriving Repr, Inhabited

structure Sep where
  item : List Char   -- between members / elements
  key : List Char    -- between a key and its value

def compact : Sep := ⟨[','], [':']⟩
def pyDefault : Sep := ⟨[',', ' '], [':', ' ']⟩

mutual
def renderWith (s : Sep) : JT → List Char
  | .num x => Lit.intLit x
  | .bool b => if b then ['t', 'r', 'u', 'e'] else ['f', 'a', 'l', 's', 'e']
  | .arr [] => ['[', ']']
  | .arr (x :: xs) => '[' :: renderWith s x ++ renderElems s xs ++ [']']
  | .obj [] => ['{', '}']
  | .obj ((k, v) :: kvs) => '{' :: '"' :: k ++ '"' :: s.key ++ renderWith s v ++ renderFields s kvs ++ ['}']
def renderElems (s : Sep) : List JT → List Char
  | [] => []
  | x :: xs => s.item ++ renderWith s x ++ renderElems s xs
def renderFields (s : Sep) : List (List Char × JT) → List Char
  | [] => []
  | (k, v) :: kvs => s.item ++ '"' :: k ++ '"' :: s.key ++ renderWith s v ++ renderFields s kvs
end

def render : JT → List Char := renderWith compact

/-! ### reader -/
def isDigit (c : Char) : Bool := '0' ≤ c && c ≤ '9'

/-- digits at the front, accumulated -/
def readPre : Nat → List Char → Nat × List Char
  | a, c :: cs => if isDigit c then readPre (10 * a + (c.toNat - 48)) cs else (a, c :: cs)
  | a, [] => (a, [])

def skipBlanks : List Char → List Char
  | ' ' :: cs => skipBlanks cs
  | cs => cs

/-- a key: everything up to the closing quote (no escapes) -/
def readKey : List Char → Option (List Char × List Char)
  | [] => none
  | '"' :: cs => some ([], cs)
  | c :: cs => match readKey cs with
    | some (k, r) => some (c :: k, r)
    | none => none

mutual
def parseVal : Nat → List Char → Option (JT × List Char)
  | 0, _ => none
  | _+1, 't' :: 'r' :: 'u' :: 'e' :: r => some (.bool true, r)
  | _+1, 'f' :: 'a' :: 'l' :: 's' :: 'e' :: r => some (.bool false, r)
  | _+1, '[' :: ']' :: r => some (.arr [], r)
  | f+1, '[' :: r =>
    match parseVal f r with
    | some (x, r1) =>
      match parseElems f r1 with
      | some (xs, r2) => some (.arr (x :: xs), r2)
      | none => none
    | none => none
  | _+1, '{' :: '}' :: r => some (.obj [], r)
  | f+1, '{' :: '"' :: r =>
    match readKey r with
    | some (k, ':' :: r1) =>
      match parseVal f (skipBlanks r1) with
      | some (v, r2) =>
        match parseFields f r2 with
        | some (kvs, r3) => some (.obj ((k, v) :: kvs), r3)
        | none => none
      | none => none
    | _ => none
  | _+1, '-' :: c :: r =>
    if isDigit c then
      let (n, r') := readPre 0 (c :: r)
      some (.num (-(n : Int)), r')
    else none
  | _+1, c :: r =>
    if isDigit c then
      let (n, r') := readPre 0 (c :: r)
      some (.num (n : Int), r')
    else none
  | _+1, [] => none
/-- `(, value)* ]` -/
def parseElems : Nat → List Char → Option (List JT × List Char)
  | 0, _ => none
  | _+1, ']' :: r => some ([], r)
  | f+1, ',' :: r =>
    match parseVal f (skipBlanks r) with
    | some (x, r1) =>
      match parseElems f r1 with
      | some (xs, r2) => some (x :: xs, r2)
      | none => none
    | none => none
  | _+1, _ => none
/-- `(, "key": value)* }` -/
def parseFields : Nat → List Char → Option (List (List Char × JT) × List Char)
  | 0, _ => none
  | _+1, '}' :: r => some ([], r)
  | f+1, ',' :: r =>
    match skipBlanks r with
    | '"' :: r0 =>
      match readKey r0 with
      | some (k, ':' :: r1) =>
        match parseVal f (skipBlanks r1) with
        | some (v, r2) =>
          match parseFields f r2 with
          | some (kvs, r3) => some ((k, v) :: kvs, r3)
          | none => none
        | none => none
      | _ => none
    | _ => none
  | _+1, _ => none
end

/-- a complete JSON text -/
def parse (cs : List Char) : Option JT :=
  match parseVal (cs.length + 1) cs with
  | some (j, []) => some j
  | _ => none

end Bp.JsonText
