/-!
# L0 Bits — byte buffers and their Nat view

A wire buffer is a `List Nat` of bytes (each `< 256`, `AllBytes`).  Its *Nat view*
`bytesToNat bs = Σ bs[j]·256^j` has stream bit `k` (byte `k / 8`, bit position `k % 8`) as its
`testBit k` — exactly the wire convention of property C01.  All bit-level proofs are done on the
Nat view; the faithful byte-list operations (`orAt`, `getByte?`) are the ones that can fail
(Python `IndexError`, C out-of-bounds).

Import-free (core only) so that the native driver can link it.
-/

namespace Bp

/-- Nat view of a byte list (little-endian: byte 0 is least significant). -/
def bytesToNat : List Nat → Nat
  | [] => 0
  | b :: bs => b + 256 * bytesToNat bs

/-- Every element is a byte. -/
def AllBytes (bs : List Nat) : Prop := ∀ b ∈ bs, b < 256

/-- The `len` low bytes of `n`, least significant first. -/
def natToBytes : Nat → Nat → List Nat
  | 0, _ => []
  | len + 1, n => n % 256 :: natToBytes len (n / 256)

/-- Stream bit `k` of a byte list: byte `k / 8`, bit position `k % 8` (false beyond the end). -/
def streamBit (bs : List Nat) (k : Nat) : Bool := (bs.getD (k / 8) 0).testBit (k % 8)

/-- Value of a bit list, LSB first. -/
def bitsToNat : List Bool → Nat
  | [] => 0
  | b :: bs => (if b then 1 else 0) + 2 * bitsToNat bs

/-- `bs[idx] |= d` without bounds check (identity beyond the end; the checked form is in the
runtimes' models). -/
def orAt : List Nat → Nat → Nat → List Nat
  | [], _, _ => []
  | b :: bs, 0, d => (b ||| d) :: bs
  | b :: bs, i+1, d => b :: orAt bs i d

/-- `bs[idx] = d` without bounds check. -/
def setAt : List Nat → Nat → Nat → List Nat
  | [], _, _ => []
  | _ :: bs, 0, d => d :: bs
  | b :: bs, i+1, d => b :: setAt bs i d

/-- `n` zero bytes. -/
def zeros (n : Nat) : List Nat := List.replicate n 0

/-- two's complement of `x` at width `W`: the natural number `x mod 2^W`. -/
def tc (x : Int) (W : Nat) : Nat := (x % (2:Int)^W).toNat

/-- signed reading of a `W`-bit pattern `u < 2^W`. -/
def sgn (u W : Nat) : Int := if u.testBit (W - 1) then (u : Int) - (2:Int)^W else (u : Int)

/-- bit `k` of a chunk, false outside. -/
def bitAt (c : List Bool) (k : Nat) : Bool := c.getD k false

end Bp
