import BpModel.Model.PyRt
/-!
# Generic straight-line encoder / decoder over a *traditional* type tree (no extensible node),
parameterised by the leaf writer / reader of a dialect (optimization mode: C little-endian items,
C big-endian items, Go items).
-/
namespace Bp.Wire
open Bp

abbrev Act := List Nat → Nat → Except Exc (List Nat × Nat)

mutual
/-- no extensible marker anywhere (optimization mode's precondition, `traditional_mode`) -/
def noExt : Ty → Bool
  | .alias t => noExt t
  | .array ext _ e => !ext && noExt e
  | .msg ext fs => !ext && noExtFields fs
  | _ => true
def noExtFields : List (Nat × Ty) → Bool
  | [] => true
  | (_, t) :: fs => noExt t && noExtFields fs
end

mutual
def encWith (L : Nat → Int → Act) : Ty → Val → Act
  | .bool, .int x => L 1 x
  | .byte, .int x => L 8 x
  | .uint n, .int x => L n x
  | .int n, .int x => L n x
  | .enum n _, .int x => L n x
  | .alias t, v => encWith L t v
  | .array _ cap e, .arr vs => PyRt.encArrWith (encWith L e) cap vs
  | .msg _ fs, .msg vs => encFieldsWith L fs vs
  | _, _ => fun _ _ => .error .typeError
def encFieldsWith (L : Nat → Int → Act) : List (Nat × Ty) → List Val → Act
  | [], _ => fun s i => .ok (s, i)
  | (_, t) :: fs, v :: vs => fun s i =>
    match encWith L t v s i with
    | .error e => .error e
    | .ok (s', i') => encFieldsWith L fs vs s' i'
  | _ :: _, [] => fun _ _ => .error .typeError
end

def encodeWith (L : Nat → Int → Act) (t : Ty) (v : Val) : Except Exc (List Nat) :=
  match encWith L t v (zeros (nbytes t.nbits)) 0 with
  | .error e => .error e
  | .ok (s, _) => .ok s

abbrev Reader := Bool → Nat → List Nat → Nat → Except Exc (Int × Nat)

def decArrWith (f : Nat → Except Exc (Val × Nat)) : Nat → Nat → Except Exc (List Val × Nat)
  | 0, i => .ok ([], i)
  | k+1, i =>
    match f i with
    | .error e => .error e
    | .ok (v, i') =>
      match decArrWith f k i' with
      | .error e => .error e
      | .ok (vs, i'') => .ok (v :: vs, i'')

mutual
def decWith (D : Reader) : Ty → List Nat → Nat → Except Exc (Val × Nat)
  | .bool, s, i => (D false 1 s i).map fun r => (.int r.1, r.2)
  | .byte, s, i => (D false 8 s i).map fun r => (.int r.1, r.2)
  | .uint n, s, i => (D false n s i).map fun r => (.int r.1, r.2)
  | .int n, s, i => (D true n s i).map fun r => (.int r.1, r.2)
  | .enum n _, s, i => (D false n s i).map fun r => (.int r.1, r.2)
  | .alias t, s, i => decWith D t s i
  | .array _ cap e, s, i =>
    match decArrWith (fun j => decWith D e s j) cap i with
    | .error er => .error er
    | .ok (vs, i2) => .ok (.arr vs, i2)
  | .msg _ fs, s, i =>
    match decFieldsWith D fs s i with
    | .error e => .error e
    | .ok (vs, i2) => .ok (.msg vs, i2)
def decFieldsWith (D : Reader) : List (Nat × Ty) → List Nat → Nat → Except Exc (List Val × Nat)
  | [], _, i => .ok ([], i)
  | (_, t) :: fs, s, i =>
    match decWith D t s i with
    | .error e => .error e
    | .ok (v, i') =>
      match decFieldsWith D fs s i' with
      | .error e => .error e
      | .ok (vs, i'') => .ok (v :: vs, i'')
end

def decodeWith (D : Reader) (t : Ty) (s : List Nat) : Except Exc Val :=
  match decWith D t s 0 with
  | .error e => .error e
  | .ok (v, _) => .ok v

end Bp.Wire
