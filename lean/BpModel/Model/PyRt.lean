import BpModel.Model.Spec
import BpModel.Model.Helpers
import BpModel.Model.PyInt
import BpModel.Model.Exc
/-!
# L3 PyRt — the Python runtime (`bp.py`) driven by the generated accessor code

Structural model: a recursion over `(Ty, Val)` whose leaves are the `process_base_type` loop
with the generated `bp_get_byte` / `bp_set_byte` / `bp_process_int` bodies inlined for the leaf
kind.  The buffer is a faithful byte list: `ctx.s[k]` raises `IndexError` beyond the end and a
`bytearray` item assignment raises `ValueError` for a value above 255.

mirrors: lib/py/bitprotolib/bp.py:294-331 (Array), 405-449 (MessageProcessor),
         452-545 (helpers, encode_single_byte, decode_single_byte, process_base_type);
         compiler/bitproto/renderer/impls/py/renderer.py bp_set_byte / bp_get_byte /
         bp_process_int / encode / decode / field defaults
-/
namespace Bp.PyRt
open Bp

/-- generated `bp_get_byte`: `(x >> rshift) & 255` on an unbounded Python int -/
def getByte (x : Int) (r : Nat) : Nat := (PyInt.and (PyInt.shr x r) 255).toNat

/-- `encode_single_byte`: `ctx.s[int(ctx.i / 8)] |= smart_shift(b, shift) & mask` -/
def encChunk (s : List Nat) (i : Nat) (x : Int) (j c : Nat) : Except Exc (List Nat) :=
  let b := getByte x (j / 8 * 8)
  let d := smartShift b (((j % 8 : Nat) : Int) - ((i % 8 : Nat) : Int)) &&& getMask (i % 8) c
  match s[i / 8]? with
  | none => .error .indexError
  | some old => if (old ||| d) < 256 then .ok (setAt s (i / 8) (old ||| d)) else .error .valueError

/-- `process_base_type` (encode direction); fuel = number of bits is enough -/
def procBaseEnc (n : Nat) (x : Int) : Nat → List Nat → Nat → Nat → Except Exc (List Nat × Nat)
  | 0, s, i, _ => .ok (s, i)
  | fuel+1, s, i, j =>
    if j < n then
      match encChunk s i x j (nbitsToCopy i j n) with
      | .error e => .error e
      | .ok s' => procBaseEnc n x fuel s' (i + nbitsToCopy i j n) (j + nbitsToCopy i j n)
    else .ok (s, i)

def encLeaf (n : Nat) (x : Int) (s : List Nat) (i : Nat) : Except Exc (List Nat × Nat) :=
  procBaseEnc n x n s i 0

def encPrefix (ext : Bool) (v : Nat) (s : List Nat) (i : Nat) : Except Exc (List Nat × Nat) :=
  if ext then encLeaf 16 (v : Int) s i else .ok (s, i)

/-- `for k in range(capacity): element_processor.process(...)` over a Python list -/
def encArrWith (f : Val → List Nat → Nat → Except Exc (List Nat × Nat)) :
    Nat → List Val → List Nat → Nat → Except Exc (List Nat × Nat)
  | 0, _, s, i => .ok (s, i)
  | _+1, [], _, _ => .error .indexError
  | k+1, v :: vs, s, i =>
    match f v s i with
    | .error e => .error e
    | .ok (s', i') => encArrWith f k vs s' i'

mutual
def enc : Ty → Val → List Nat → Nat → Except Exc (List Nat × Nat)
  | .bool, .int x, s, i => encLeaf 1 x s i
  | .byte, .int x, s, i => encLeaf 8 x s i
  | .uint n, .int x, s, i => encLeaf n x s i
  | .int n, .int x, s, i => encLeaf n x s i
  | .enum n _, .int x, s, i => encLeaf n x s i
  | .alias t, v, s, i => enc t v s i
  | .array ext cap e, .arr vs, s, i =>
    match encPrefix ext cap s i with
    | .error e => .error e
    | .ok (s', i') => encArrWith (enc e) cap vs s' i'
  | .msg ext fs, .msg vs, s, i =>
    match encPrefix ext (extBits ext + fieldsBits fs) s i with
    | .error e => .error e
    | .ok (s', i') => encFields fs vs s' i'
  | _, _, _, _ => .error .typeError
def encFields : List (Nat × Ty) → List Val → List Nat → Nat → Except Exc (List Nat × Nat)
  | [], _, s, i => .ok (s, i)
  | (_, t) :: fs, v :: vs, s, i =>
    match enc t v s i with
    | .error e => .error e
    | .ok (s', i') => encFields fs vs s' i'
  | _ :: _, [], _, _ => .error .typeError
end

/-- generated `encode()`: `s = bytearray(BYTES_LENGTH)`, process, return `ctx.s` -/
def encode (t : Ty) (v : Val) : Except Exc (List Nat) :=
  match enc t v (zeros (nbytes t.nbits)) 0 with
  | .error e => .error e
  | .ok (s, _) => .ok s

/-! ## decode -/

/-- how the generated `bp_set_byte` / `bp_process_int` treat a leaf -/
inductive Kind where
  | bool              -- `self.f = bool(b)`
  | uint              -- `self.f |= (int(b) << lshift)`       (uint, byte, enum)
  | int (n : Nat)     -- `self.f |= bp.intW((int(b) << lshift))`, then `bp_process_int`
  deriving Repr

/-- `bp.int8 … bp.int64` -/
def intW (W : Nat) (v : Int) : Int := if v < (2:Int)^(W-1) then v else v - (2:Int)^W

def setByte (k : Kind) (cur : Int) (lshift d : Nat) : Int :=
  match k with
  | .bool => if d = 0 then 0 else 1
  | .uint => PyInt.or cur (PyInt.shl (d : Int) lshift)
  | .int n => PyInt.or cur (intW (storageBits n) (PyInt.shl (d : Int) lshift))

/-- `decode_single_byte` -/
def decChunk (s : List Nat) (i : Nat) (k : Kind) (cur : Int) (j c : Nat) : Except Exc Int :=
  match s[i / 8]? with
  | none => .error .indexError
  | some b =>
    let d := smartShift b (((i % 8 : Nat) : Int) - ((j % 8 : Nat) : Int)) &&& getMask (j % 8) c
    .ok (setByte k cur (j / 8 * 8) d)

def procBaseDec (n : Nat) (k : Kind) (s : List Nat) : Nat → Int → Nat → Nat → Except Exc (Int × Nat)
  | 0, cur, i, _ => .ok (cur, i)
  | fuel+1, cur, i, j =>
    if j < n then
      match decChunk s i k cur j (nbitsToCopy i j n) with
      | .error e => .error e
      | .ok cur' => procBaseDec n k s fuel cur' (i + nbitsToCopy i j n) (j + nbitsToCopy i j n)
    else .ok (cur, i)

/-- generated `bp_process_int` for `int n`: nothing for 8/16/32/64, else
`if (x >> (n-1)) & 1: x |= ~((1 << n) - 1)` -/
def processInt (n : Nat) (x : Int) : Int :=
  if n = 8 ∨ n = 16 ∨ n = 32 ∨ n = 64 then x
  else if PyInt.and (PyInt.shr x (n - 1)) 1 ≠ 0 then PyInt.or x (-((2:Int)^n)) else x

def decLeaf (n : Nat) (k : Kind) (cur : Int) (s : List Nat) (i : Nat) : Except Exc (Int × Nat) :=
  match procBaseDec n k s n cur i 0 with
  | .error e => .error e
  | .ok (x, i') =>
    match k with
    | .int m => .ok (processInt m x, i')
    | _ => .ok (x, i')

/-- `decode_extensible_ahead`: a fresh `IntAccessor`, 16 bits -/
def decAhead (s : List Nat) (i : Nat) : Except Exc (Nat × Nat) :=
  match decLeaf 16 .uint 0 s i with
  | .error e => .error e
  | .ok (x, i') => .ok (x.toNat, i')

def decArrWith (f : Val → Nat → Except Exc (Val × Nat)) :
    Nat → List Val → Nat → Except Exc (List Val × Nat)
  | 0, cur, i => .ok (cur, i)
  | _+1, [], _ => .error .indexError
  | k+1, v :: vs, i =>
    match f v i with
    | .error e => .error e
    | .ok (v', i') =>
      match decArrWith f k vs i' with
      | .error e => .error e
      | .ok (vs', i'') => .ok (v' :: vs', i'')

mutual
/-- decode into the current value `cur` of the target message (ORs onto it, as the code does) -/
def dec : Ty → Val → List Nat → Nat → Except Exc (Val × Nat)
  | .bool, .int cur, s, i => (decLeaf 1 .bool cur s i).map fun r => (.int r.1, r.2)
  | .byte, .int cur, s, i => (decLeaf 8 .uint cur s i).map fun r => (.int r.1, r.2)
  | .uint n, .int cur, s, i => (decLeaf n .uint cur s i).map fun r => (.int r.1, r.2)
  | .int n, .int cur, s, i => (decLeaf n (.int n) cur s i).map fun r => (.int r.1, r.2)
  | .enum n _, .int cur, s, i => (decLeaf n .uint cur s i).map fun r => (.int r.1, r.2)
  | .alias t, cur, s, i => dec t cur s i
  | .array ext cap e, .arr cur, s, i =>
    if ext then
      match decAhead s i with
      | .error e => .error e
      | .ok (ahead, i1) =>
        match decArrWith (fun v j => dec e v s j) cap cur i1 with
        | .error e => .error e
        | .ok (vs, i2) =>
          .ok (.arr vs, if ahead > cap then i2 + (ahead - cap) * ((i2 - i - 16) / cap) else i2)
    else
      match decArrWith (fun v j => dec e v s j) cap cur i with
      | .error e => .error e
      | .ok (vs, i2) => .ok (.arr vs, i2)
  | .msg ext fs, .msg cur, s, i =>
    if ext then
      match decAhead s i with
      | .error e => .error e
      | .ok (ahead, i1) =>
        match decFields fs cur s i1 with
        | .error e => .error e
        | .ok (vs, i2) => .ok (.msg vs, if i + ahead ≥ i2 then i + ahead else i2)
    else
      match decFields fs cur s i with
      | .error e => .error e
      | .ok (vs, i2) => .ok (.msg vs, i2)
  | _, _, _, _ => .error .typeError
def decFields : List (Nat × Ty) → List Val → List Nat → Nat → Except Exc (List Val × Nat)
  | [], cur, _, i => .ok (cur, i)
  | (_, t) :: fs, v :: vs, s, i =>
    match dec t v s i with
    | .error e => .error e
    | .ok (v', i') =>
      match decFields fs vs s i' with
      | .error e => .error e
      | .ok (vs', i'') => .ok (v' :: vs', i'')
  | _ :: _, [], _, _ => .error .typeError
end

mutual
/-- a freshly constructed message, as the renderer builds it (enum fields default to the
first declared member) -/
def fresh : Ty → Val
  | .bool | .byte | .uint _ | .int _ => .int 0
  | .enum _ ms => .int (ms.headD 0 : Nat)
  | .alias t => fresh t
  | .array _ cap e => .arr (List.replicate cap (fresh e))
  | .msg _ fs => .msg (freshFields fs)
def freshFields : List (Nat × Ty) → List Val
  | [] => []
  | (_, t) :: fs => fresh t :: freshFields fs
end

/-- generated `decode(s)`: `assert len(s) >= BYTES_LENGTH`, then process -/
def decode (t : Ty) (s : List Nat) (cur : Val) : Except Exc Val :=
  if s.length < nbytes t.nbits then .error .assertion
  else match dec t cur s 0 with
    | .error e => .error e
    | .ok (v, _) => .ok v

/-- the result is `.ok v` (structural test, for witness theorems closed by evaluation) -/
def okIs (r : Except Exc Val) (v : Val) : Bool :=
  match r with
  | .ok w => Val.eqb w v
  | .error _ => false

end Bp.PyRt
