/-!
# Python's integer operators on unbounded ints

`|`, `&`, `>>`, `<<` of CPython act on the infinite two's complement of their operands.  They
are defined here by cases on the sign (`-[n+1]` is the bitwise complement of `n`), together with
`tb x k`, bit `k` of that infinite two's complement.  The proofs (`Proofs/PyInt.lean`) show
`tb (or a b) k = (tb a k || tb b k)` etc., so the definitions are what they claim to be; the
correspondence self-test (`echo.pyint`) additionally runs them against CPython.
-/

namespace Bp.PyInt

/-- bit `k` of the infinite two's complement of `x` -/
def tb : Int → Nat → Bool
  | .ofNat m, k => m.testBit k
  | .negSucc m, k => !m.testBit k

/-- `n & ~m` on naturals -/
def andNot (n m : Nat) : Nat := n ^^^ (n &&& m)

def or : Int → Int → Int
  | .ofNat m, .ofNat n => .ofNat (m ||| n)
  | .ofNat m, .negSucc n => .negSucc (andNot n m)
  | .negSucc m, .ofNat n => .negSucc (andNot m n)
  | .negSucc m, .negSucc n => .negSucc (m &&& n)

def and : Int → Int → Int
  | .ofNat m, .ofNat n => .ofNat (m &&& n)
  | .ofNat m, .negSucc n => .ofNat (andNot m n)
  | .negSucc m, .ofNat n => .ofNat (andNot n m)
  | .negSucc m, .negSucc n => .negSucc (m ||| n)

/-- `x >> k` (floor division by `2^k`) -/
def shr (x : Int) (k : Nat) : Int := x >>> k

/-- `x << k` -/
def shl (x : Int) (k : Nat) : Int := x * (2:Int)^k

end Bp.PyInt
