import BpModel.Model.Bits
/-!
# L1 Schema — resolved type trees and values

`Ty` is the *resolved* type of a field or message (names gone, references followed).  Message
fields carry their field number.  The wire layers work on *normalised* types: the fields of
every message sorted by ascending field number (`Ty.normalize`, insertion sort — the model of
`Message.sorted_fields()`); values travel aligned with that order.

mirrors: compiler/bitproto/_ast.py (Type.nbits, Array.nbits, Message.nbits, sorted_fields)
-/

namespace Bp

inductive Ty where
  | bool | byte
  | uint (n : Nat) | int (n : Nat)
  | enum (n : Nat) (members : List Nat)           -- members in declaration order
  | alias (t : Ty)                                -- transparent; runtimes dispatch on it
  | array (ext : Bool) (cap : Nat) (elem : Ty)
  | msg (ext : Bool) (fields : List (Nat × Ty))   -- (field number, type)
  deriving Repr, Inhabited, BEq

inductive Val where
  | int (x : Int)                                 -- bool as 0/1, byte, (u)int, enum value
  | arr (vs : List Val)
  | msg (vs : List Val)                           -- aligned with the (sorted) field list
  deriving Repr, Inhabited, BEq

mutual
/-- structural (kernel-reducible) equality test on values -/
def Val.eqb : Val → Val → Bool
  | .int a, .int b => decide (a = b)
  | .arr xs, .arr ys => Val.eqbList xs ys
  | .msg xs, .msg ys => Val.eqbList xs ys
  | _, _ => false
def Val.eqbList : List Val → List Val → Bool
  | [], [] => true
  | a :: xs, b :: ys => Val.eqb a b && Val.eqbList xs ys
  | _, _ => false
end

def extBits (ext : Bool) : Nat := if ext then 16 else 0

mutual
/-- number of bits on the wire.  mirrors `_ast.py` `nbits()` of each type class -/
def Ty.nbits : Ty → Nat
  | .bool => 1 | .byte => 8 | .uint n => n | .int n => n | .enum n _ => n
  | .alias t => t.nbits
  | .array ext cap e => extBits ext + cap * e.nbits
  | .msg ext fs => extBits ext + fieldsBits fs
def fieldsBits : List (Nat × Ty) → Nat
  | [] => 0
  | (_, t) :: fs => t.nbits + fieldsBits fs
end

/-- insertion sort of (number, a) pairs by number (stable) — model of `sorted_fields()` -/
def insertBy {α} (p : Nat × α) : List (Nat × α) → List (Nat × α)
  | [] => [p]
  | q :: qs => if p.1 ≤ q.1 then p :: q :: qs else q :: insertBy p qs
def sortBy {α} : List (Nat × α) → List (Nat × α)
  | [] => []
  | p :: ps => insertBy p (sortBy ps)

mutual
/-- sort the fields of every message by field number, recursively -/
def Ty.normalize : Ty → Ty
  | .alias t => .alias t.normalize
  | .array ext cap e => .array ext cap e.normalize
  | .msg ext fs => .msg ext (sortBy (normalizeFields fs))
  | t => t
def normalizeFields : List (Nat × Ty) → List (Nat × Ty)
  | [] => []
  | (k, t) :: fs => (k, t.normalize) :: normalizeFields fs
end

def Ty.isMsg : Ty → Bool
  | .msg _ _ => true
  | _ => false

/-- types that an alias may name (unnamed types): bool, byte, uint, int, array -/
def Ty.aliasable : Ty → Bool
  | .bool | .byte | .uint _ | .int _ | .array _ _ _ => true
  | _ => false

def Ty.isArray : Ty → Bool
  | .array _ _ _ => true
  | _ => false

def strictAsc : List Nat → Bool
  | a :: b :: r => decide (a < b) && strictAsc (b :: r)
  | _ => true

def nodupNat : List Nat → Bool
  | [] => true
  | a :: r => !r.contains a && nodupNat r

mutual
/-- documented well-formedness of a resolved, normalised type -/
def Ty.wf : Ty → Bool
  | .bool | .byte => true
  | .uint n | .int n => decide (1 ≤ n) && decide (n ≤ 64)
  | .enum n ms => decide (1 ≤ n) && decide (n ≤ 64) && nodupNat ms && ms.all (fun m => decide (m < 2^n))
  | .alias t => t.aliasable && t.wf
  | .array _ cap e => decide (1 ≤ cap) && decide (cap ≤ 65535) && !e.isArray && e.wf
  | .msg ext fs =>
      strictAsc (fs.map (·.1)) && fs.all (fun f => decide (1 ≤ f.1) && decide (f.1 ≤ 255))
        && decide (extBits ext + fieldsBits fs ≤ 65535) && wfFields fs
def wfFields : List (Nat × Ty) → Bool
  | [] => true
  | (_, t) :: fs => t.wf && wfFields fs
end

mutual
/-- `v` is a value of type `t` with every leaf inside its declared range -/
def inRange : Ty → Val → Bool
  | .bool, .int x => decide (x = 0) || decide (x = 1)
  | .byte, .int x => decide (0 ≤ x) && decide (x < 256)
  | .uint n, .int x => decide (0 ≤ x) && decide (x < (2:Int)^n)
  | .int n, .int x => decide (-(2:Int)^(n-1) ≤ x) && decide (x < (2:Int)^(n-1))
  | .enum n ms, .int x => decide (0 ≤ x) && decide (x < (2:Int)^n) && ms.contains x.toNat
  | .alias t, v => inRange t v
  | .array _ cap e, .arr vs => decide (vs.length = cap) && vs.all (inRange e)
  | .msg _ fs, .msg vs => inRangeFields fs vs
  | _, _ => false
def inRangeFields : List (Nat × Ty) → List Val → Bool
  | [], [] => true
  | (_, t) :: fs, v :: vs => inRange t v && inRangeFields fs vs
  | _, _ => false
end

mutual
/-- `v` has the shape of `t` (leaf values arbitrary integers) — C07's out-of-range inputs -/
def shape : Ty → Val → Bool
  | .bool, .int _ | .byte, .int _ | .uint _, .int _ | .int _, .int _ | .enum _ _, .int _ => true
  | .alias t, v => shape t v
  | .array _ cap e, .arr vs => decide (vs.length = cap) && vs.all (shape e)
  | .msg _ fs, .msg vs => shapeFields fs vs
  | _, _ => false
def shapeFields : List (Nat × Ty) → List Val → Bool
  | [], [] => true
  | (_, t) :: fs, v :: vs => shape t v && shapeFields fs vs
  | _, _ => false
end

end Bp
