import BpModel.Model.Spec
import BpModel.Model.Helpers
import BpModel.Model.Exc
/-!
# L4 CRt — the C runtime `lib/c/bitproto.c`

Memory objects (the wire buffer, an integer cell, a contiguous array of cells, the 8-byte staging
buffer) are seen through their little-endian Nat view (byte `k` = bits `[8k, 8k+8)`); every
access also records the highest byte index it touched (`whi` for writes into the destination,
`rhi` for reads of the source) so that "touches only its bytes" is a statement about the model.

mirrors: lib/c/bitproto.c BpCopyBufferBits (both the little-endian build with the 32/16-bit
assign fast paths and the BP_BIG_ENDIAN build without them), BpEndecodeBaseType (direct and
big-endian staging), BpBaseTypeStorageSize, BpHandleIntSignAfterEndecode, BpEndecodeInt,
BpEndecodeArray (batch predicate, per-element loop, extensible prefix and skip),
BpEndecodeMessage (prefix and skip)
-/
namespace Bp.CRt
open Bp

/-- read `k` bytes (little-endian) at byte offset `b` -/
def rd (M b k : Nat) : Nat := (M >>> (8*b)) % 2^(8*k)

/-- overwrite `k` bytes at byte offset `b` with `v` (truncated to `k` bytes) -/
def wr (M b k v : Nat) : Nat :=
  (M % 2^(8*b)) ||| ((v % 2^(8*k)) <<< (8*b)) ||| ((M >>> (8*(b+k))) <<< (8*(b+k)))

/-- C: `v & ~(0xff << a)` for a non-negative `int` `v`: clears bits `[a, a+8)` -/
def andNotFF (v a : Nat) : Nat := (v % 2^a) ||| ((v >>> (a+8)) <<< (a+8))

/-- state of the `while (n)` loop of `BpCopyBufferBits` -/
structure St where
  n : Nat      -- bits remaining
  D : Nat      -- destination memory (Nat view)
  dp : Nat     -- destination byte pointer (relative to the object start)
  sp : Nat     -- source byte pointer
  di : Nat
  si : Nat
  whi : Nat    -- 1 + highest destination byte index written so far (0 = none)
  rhi : Nat    -- 1 + highest source byte index read so far
  deriving Repr

/-- one iteration of the loop body. `be = true` is the `BP_BIG_ENDIAN` build (no word fast paths). -/
def step (be : Bool) (S : Nat) (s : St) : St :=
  let dp := s.dp + s.di / 8
  let sp := s.sp + s.si / 8
  let di := s.di % 8
  let si := s.si % 8
  if di = 0 then
    let bits := s.n + si
    if !be && bits ≥ 32 then
      let c := 32 - si
      { n := s.n - c, D := wr s.D dp 4 (rd S sp 4 >>> si), dp, sp, di := di + c, si := si + c,
        whi := max s.whi (dp + 4), rhi := max s.rhi (sp + 4) }
    else if !be && bits ≥ 16 then
      let c := 16 - si
      { n := s.n - c, D := wr s.D dp 2 (rd S sp 2 >>> si), dp, sp, di := di + c, si := si + c,
        whi := max s.whi (dp + 2), rhi := max s.rhi (sp + 2) }
    else if bits ≥ 8 then
      let c := 8 - si
      { n := s.n - c, D := wr s.D dp 1 ((rd S sp 1 >>> si) &&& 255), dp, sp, di := di + c, si := si + c,
        whi := max s.whi (dp + 1), rhi := max s.rhi (sp + 1) }
    else
      let c := min (8 - si) s.n
      let v := andNotFF (rd S sp 1 >>> si) c
      { n := s.n - c, D := wr s.D dp 1 (rd s.D dp 1 ||| v), dp, sp, di := di + c, si := si + c,
        whi := max s.whi (dp + 1), rhi := max s.rhi (sp + 1) }
  else
    let c := min (8 - di) (min (8 - si) s.n)
    let ch := rd S sp 1
    if ch ≠ 0 then
      { n := s.n - c, D := wr s.D dp 1 (rd s.D dp 1 ||| andNotFF ((ch >>> si) <<< di) (di + c)),
        dp, sp, di := di + c, si := si + c, whi := max s.whi (dp + 1), rhi := max s.rhi (sp + 1) }
    else
      { n := s.n - c, D := s.D, dp, sp, di := di + c, si := si + c, whi := s.whi, rhi := max s.rhi (sp + 1) }

def St.DI (s : St) : Nat := 8 * s.dp + s.di
def St.SI (s : St) : Nat := 8 * s.sp + s.si

/-- `while (n) { … }` with fuel -/
def copyLoop (be : Bool) (S : Nat) : Nat → St → St
  | 0, s => s
  | fuel+1, s => if s.n = 0 then s else copyLoop be S fuel (step be S s)

/-- `BpCopyBufferBits(n, dst, src, di, si)` -/
def copyBits (be : Bool) (n D S di si : Nat) : St :=
  copyLoop be S n { n, D, dp := 0, sp := 0, di, si, whi := 0, rhi := 0 }

/-- `BpBaseTypeStorageSize(nbits)` (bytes) -/
def storageSize (nbits : Nat) : Nat :=
  if nbits ≤ 8 then 1 else if nbits ≤ 16 then 2 else if nbits ≤ 32 then 4 else 8

/-! ## base types.  A cell is a byte list of `size` bytes in HOST order. -/

/-- the integer a cell holds: little-endian host reads the bytes as they are, a big-endian host
reversed -/
def cellVal (be : Bool) (mem : List Nat) : Nat := bytesToNat (if be then mem.reverse else mem)

/-- the cell that holds `u` (`< 2^(8·size)`) on the host -/
def cellOf (be : Bool) (size u : Nat) : List Nat :=
  if be then (natToBytes size u).reverse else natToBytes size u

/-- big-endian staging: `for k < size: le[k] = p[size-1-k]`, `le[8] = {0}` -/
def stageIn (size : Nat) (mem : List Nat) : List Nat :=
  (List.range 8).map fun k => if k < size then mem.getD (size - 1 - k) 0 else 0

/-- `for k < size: p[size-1-k] = le[k]` (other bytes of `mem` untouched) -/
def stageOut (size : Nat) (le mem : List Nat) : List Nat :=
  (List.range mem.length).map fun j => if j < size then le.getD (size - 1 - j) 0 else mem.getD j 0

/-- `BpEndecodeBaseType`, encode direction: returns the new wire (Nat view) and the extents.
`mem` is the cell (or, on the little-endian batch path, the whole contiguous array). -/
def encBase (be : Bool) (nbits : Nat) (mem : List Nat) (wire i : Nat) : St :=
  if be then copyBits true nbits wire (bytesToNat (stageIn (storageSize nbits) mem)) i 0
  else copyBits false nbits wire (bytesToNat mem) i 0

/-- `BpEndecodeBaseType`, decode direction: returns the new cell memory and the copier's state -/
def decBase (be : Bool) (nbits : Nat) (mem : List Nat) (wire i : Nat) : List Nat × St :=
  if be then
    let st := copyBits true nbits 0 wire 0 i
    (stageOut (storageSize nbits) (natToBytes 8 st.D) mem, st)
  else
    let st := copyBits false nbits (bytesToNat mem) wire 0 i
    (natToBytes mem.length st.D, st)

/-- `BpHandleIntSignAfterEndecode` (decode direction) on the integer the cell holds:
`if (v & (1 << (nbits-1))) v |= ~((1 << nbits) - 1)` at the width of the C type -/
def signFix (size nbits v : Nat) : Nat :=
  if nbits = 8 ∨ nbits = 16 ∨ nbits = 32 ∨ nbits = 64 then v
  else if v.testBit (nbits - 1) then v ||| (2^(8*size) - 2^nbits) else v

/-- the batch predicate of `BpEndecodeArray` on a little-endian build -/
def batchOk (nbits : Nat) (integerLike : Bool) : Bool :=
  (nbits == 8 || nbits == 16 || nbits == 32 || nbits == 64) && integerLike

end Bp.CRt

namespace Bp.CRt
open Bp

/-- `BpEndecodeBaseType` (encode) as an action on the wire byte list.  The cell holds the two's
complement of `x` at the storage width the compiler chose (`storageSize n` bytes), in host
order.  `.oob` if the copier leaves the wire buffer or the cell / staging buffer. -/
def encLeafAct (be : Bool) (n : Nat) (x : Int) (s : List Nat) (i : Nat) : Except Exc (List Nat × Nat) :=
  let size := storageSize n
  let cell := cellOf be size (tc x (8 * size))
  let st := encBase be n cell (bytesToNat s) i
  if st.whi ≤ s.length ∧ st.rhi ≤ (if be then 8 else size) then .ok (natToBytes s.length st.D, i + n)
  else .error .oob

/-- `BpEndecodeBaseType` / `BpEndecodeInt` (decode) into a zeroed cell; returns the integer the
cell holds afterwards (signed reading for `int`). -/
def decLeafVal (be signed : Bool) (n : Nat) (s : List Nat) (i : Nat) : Except Exc (Int × Nat) :=
  let size := storageSize n
  let r := decBase be n (zeros size) (bytesToNat s) i
  if r.2.rhi ≤ s.length ∧ r.2.whi ≤ (if be then 8 else size) then
    let u := cellVal be r.1
    if signed then .ok (sgn (signFix size n u) (8 * size), i + n) else .ok ((u : Int), i + n)
  else .error .oob

end Bp.CRt
