/-!
# Go operator semantics for translated helpers (`Gen/GoHelpers.lean`)
`int` operands are modelled as unbounded `Int` (all uses stay far below 2^63); `%` on non-negative
operands; shift counts non-negative (Go panics on a negative count; here it behaves as 0 and every
bridge lemma is stated where counts are non-negative); `shl8` is the typed shift of a `byte`
(result truncated to 8 bits).
-/
namespace Bp.GoOp
def add (a b : Int) : Int := a + b
def sub (a b : Int) : Int := a - b
def mul (a b : Int) : Int := a * b
def mod (a b : Int) : Int := Int.tmod a b
def div (a b : Int) : Int := Int.tdiv a b
def shl (a b : Int) : Int := a * (2:Int) ^ b.toNat
def shr (a b : Int) : Int := a / (2:Int) ^ b.toNat
def shl8 (a b : Int) : Int := (a * (2:Int) ^ b.toNat) % 256
def and (a b : Int) : Int := ((a.toNat &&& b.toNat : Nat) : Int)
def or (a b : Int) : Int := ((a.toNat ||| b.toNat : Nat) : Int)
end Bp.GoOp
