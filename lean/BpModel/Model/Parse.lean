import BpModel.Model.Lex
import BpModel.Model.Front
/-!
# L6 (text level) — the bitproto grammar

A predictive recursive-descent parser for the grammar of `compiler/bitproto/grammars.py`, from the
token list of `Lex.lex` to the abstract surface syntax of `Front.lean`.  The grammar is LL(1) except
for two places resolved as PLY's LALR(1) tables resolve them: inside an enum, `IDENTIFIER '='` starts
an enum member and any other continuation a (misplaced) message field; a constant whose value is a
single dotted name is a *reference* (it keeps the referenced constant's kind), any longer expression
is a calculation.  NEWLINE and COMMENT are tokens of the grammar: a statement header cannot span
lines, and a comment must be followed by a newline.

The line of a definition is the line of its name token (imports: of the `import` keyword), which
is what the real parser attaches to the AST node; since a statement header cannot span lines, every
token of the header is on that line.

Errors: a syntax error carries the line of the first token that cannot continue any sentence
(`none` = end of input); the lexer's pending error replaces it when the parser runs out of tokens
(PLY lexes lazily).  Two parse-time semantic errors of the real parser are modelled here because
they have no counterpart in the item tree: a `proto` statement inside a message or an enum, and a
file without a `proto` statement.
-/
namespace Bp.Parse
open Bp Lex Front

inductive PErr where
  | syntax (line : Option Nat)
  | lex (e : LexErr)
  | protoInScope (line : Nat)
  | protoNameUndefined
  | outOfFuel
  deriving Repr, DecidableEq

abbrev P := Except PErr

/-- the error for "this token cannot continue" -/
def bad (pend : Option LexErr) : List Token → PErr
  | t :: _ => .syntax (some t.line)
  | [] => match pend with | some e => .lex e | none => .syntax none

def optSemi : List Token → List Token
  | ⟨.lit ';', _⟩ :: r => r
  | ts => ts

/-- `dotted_identifier`, given that the first IDENTIFIER has been consumed -/
def dottedRest (pend : Option LexErr) : Nat → List String → List Token → P (List String × List Token)
  | 0, _, _ => .error .outOfFuel
  | f+1, acc, ts =>
    match ts with
    | ⟨.lit '.', _⟩ :: ⟨.ident s, _⟩ :: ts' => dottedRest pend f (acc ++ [s]) ts'
    | ⟨.lit '.', _⟩ :: r => .error (bad pend r)
    | _ => .ok (acc, ts)

def dotted (pend : Option LexErr) (s : String) (ts : List Token) : P (List String × List Token) :=
  dottedRest pend (ts.length + 1) [s] ts

/-- `single_type` -/
def singleType (pend : Option LexErr) : List Token → P (TyE × List Token)
  | ⟨.boolType, _⟩ :: ts => .ok (.bool, ts)
  | ⟨.byteType, _⟩ :: ts => .ok (.byte, ts)
  | ⟨.uintType n, _⟩ :: ts => .ok (.uint n, ts)
  | ⟨.intType n, _⟩ :: ts => .ok (.int n, ts)
  | ⟨.ident s, _⟩ :: ts => do
    let (p, ts') ← dotted pend s ts
    .ok (.ref p, ts')
  | ts => .error (bad pend ts)

def optExt : List Token → Bool × List Token
  | ⟨.lit '\'', _⟩ :: r => (true, r)
  | ts => (false, ts)

/-- `type` -/
def type_ (pend : Option LexErr) (ts : List Token) : P (TyE × List Token) := do
  let (t, ts1) ← singleType pend ts
  match ts1 with
  | ⟨.lit '[', _⟩ :: ts2 =>
    let (cap, ts3) ← (match ts2 with
      | ⟨.int n, _⟩ :: r => .ok (CapE.lit n, r)
      | ⟨.ident s, _⟩ :: r => do
        let (p, r') ← dotted pend s r
        .ok (CapE.cref p, r')
      | _ => .error (bad pend ts2) : P (CapE × List Token))
    match ts3 with
    | ⟨.lit ']', _⟩ :: ts4 =>
      let (ext, ts5) := optExt ts4
      .ok (.array t cap ext, ts5)
    | _ => .error (bad pend ts3)
  | _ => .ok (t, ts1)

/-! ### calculation expressions (precedence climbing, as `Expr.parseExpr`, over `Lex` tokens) -/
def opOf : Lex.Kind → Option Expr.Op
  | .plus => some .add | .minus => some .sub | .times => some .mul | .divide => some .div
  | _ => none

mutual
def exprAtom (pend : Option LexErr) : Nat → List Token → P (Expr.E × List Token)
  | 0, _ => .error .outOfFuel
  | f+1, ts =>
    match ts with
    | ⟨.int n, _⟩ :: r => .ok (.num n, r)
    | ⟨.hex n, _⟩ :: r => .ok (.num n, r)
    | ⟨.ident s, _⟩ :: r =>
      match dotted pend s r with
      | .ok (p, r') => .ok (.ref (".".intercalate p), r')
      | .error e => .error e
    | ⟨.lit '(', _⟩ :: r =>
      match exprPrec pend f 1 r with
      | .ok (e, ⟨.lit ')', _⟩ :: r') => .ok (e, r')
      | .ok (_, r') => .error (bad pend r')
      | .error e => .error e
    | _ => .error (bad pend ts)
def exprPrec (pend : Option LexErr) : Nat → Nat → List Token → P (Expr.E × List Token)
  | 0, _, _ => .error .outOfFuel
  | f+1, p, ts =>
    match exprAtom pend f ts with
    | .ok (l, ts') => exprLoop pend f p l ts'
    | .error e => .error e
def exprLoop (pend : Option LexErr) : Nat → Nat → Expr.E → List Token → P (Expr.E × List Token)
  | 0, _, _, _ => .error .outOfFuel
  | f+1, p, l, ts =>
    match ts with
    | t :: r =>
      match opOf t.kind with
      | some o =>
        if o.prec ≥ p then
          match exprPrec pend f (o.prec + 1) r with
          | .ok (rhs, ts') => exprLoop pend f p (.bin o l rhs) ts'
          | .error e => .error e
        else .ok (l, ts)
      | none => .ok (l, ts)
    | [] => .ok (l, [])
end

/-- `const_value`: a literal, a lone reference, or a calculation -/
def constValue (pend : Option LexErr) (ts : List Token) : P (CExpr × List Token) :=
  match ts with
  | ⟨.boolLit b, _⟩ :: r => .ok (.lit (.bool b), r)
  | ⟨.str s, _⟩ :: r => .ok (.lit (.str s), r)
  | _ => do
    let (e, r) ← exprPrec pend (2 * ts.length + 2) 1 ts
    match e with
    | .num n => .ok (.lit (.int n), r)
    | .ref s => .ok (.ref (s.splitOn "."), r)
    | _ => .ok (.expr e, r)

/-- `option_value` -/
def optionValue (pend : Option LexErr) : List Token → P (CExpr × List Token)
  | ⟨.boolLit b, _⟩ :: r => .ok (.lit (.bool b), r)
  | ⟨.str s, _⟩ :: r => .ok (.lit (.str s), r)
  | ⟨.int n, _⟩ :: r => .ok (.lit (.int n), r)
  | ⟨.hex n, _⟩ :: r => .ok (.lit (.int n), r)
  | ⟨.ident s, _⟩ :: r => do
    let (p, r') ← dotted pend s r
    .ok (.ref p, r')
  | ts => .error (bad pend ts)

def expectLit (pend : Option LexErr) (c : Char) : List Token → P (List Token)
  | ⟨.lit d, l⟩ :: r => if c = d then .ok r else .error (.syntax (some l))
  | ts => .error (bad pend ts)

/-- `message_field`, from its first token -/
def field (pend : Option LexErr) (ts : List Token) : P (Item × List Token) := do
  let (t, ts1) ← type_ pend ts
  let (name, line, ts2) ← (match ts1 with
    | ⟨.ident s, l⟩ :: r => .ok (s, l, r)
    | ⟨.kw "type", l⟩ :: r => .ok ("type", l, r)
    | _ => .error (bad pend ts1) : P (String × Nat × List Token))
  let ts3 ← expectLit pend '=' ts2
  match ts3 with
  | ⟨.int n, _⟩ :: r => .ok (.field line name n t, optSemi r)
  | _ => .error (bad pend ts3)

/-- statements that start with a keyword other than `enum` / `message`, after the keyword (at line `kl`) -/
def simpleStmt (pend : Option LexErr) (kwd : String) (kl : Nat) (ts : List Token) : P (Option Item × Option String × List Token) :=
  match kwd with
  | "proto" =>
    match ts with
    | ⟨.ident s, _⟩ :: r => .ok (none, some s, optSemi r)
    | _ => .error (bad pend ts)
  | "import" =>
    match ts with
    | ⟨.str f, _⟩ :: r => .ok (some (.import_ kl none f), none, optSemi r)
    | ⟨.ident a, _⟩ :: ⟨.str f, _⟩ :: r => .ok (some (.import_ kl (some a) f), none, optSemi r)
    | ⟨.ident _, _⟩ :: r => .error (bad pend r)
    | _ => .error (bad pend ts)
  | "option" =>
    match ts with
    | ⟨.ident s, l⟩ :: r => do
      let (p, r1) ← dotted pend s r
      let r2 ← expectLit pend '=' r1
      let (v, r3) ← optionValue pend r2
      .ok (some (.option l (".".intercalate p) v), none, optSemi r3)
    | _ => .error (bad pend ts)
  | "type" =>
    match ts with
    | ⟨.ident s, l⟩ :: r => do
      let r1 ← expectLit pend '=' r
      let (t, r2) ← type_ pend r1
      .ok (some (.alias l s t), none, optSemi r2)
    | _ => .error (bad pend ts)
  | "typedef" => do
    let (t, r1) ← type_ pend ts
    match r1 with
    | ⟨.ident s, l⟩ :: r => .ok (some (.alias l s t), none, optSemi r)
    | _ => .error (bad pend r1)
  | "const" =>
    match ts with
    | ⟨.ident s, l⟩ :: r => do
      let r1 ← expectLit pend '=' r
      let (v, r2) ← constValue pend r1
      .ok (some (.const l s v), none, optSemi r2)
    | _ => .error (bad pend ts)
  | _ => .error (bad pend ts)

inductive Scope | top | msg | enum deriving DecidableEq

def stopOf : PErr → Item
  | .syntax (some l) => .stop "syntax" l
  | .syntax none => .stop "syntax" 0
  | .lex (.invalidToken l _) => .stop "lex" l
  | .lex (.invalidEscape l) => .stop "invalid-escape" l
  | .lex (.invalidWidth l sg _) => .stop (if sg then "invalid-int-width" else "invalid-uint-width") l
  | .lex .outOfFuel => .stop "hang" 0
  | .protoInScope l => .stop "proto-in-scope" l
  | .protoNameUndefined => .stop "proto-name-undefined" 0
  | .outOfFuel => .stop "hang" 0

/-- what one scope contains: items in source order (inside an enum: the members, then everything
that is not a member — the first such item is an error, so members after it are dropped), the
`proto` names declared, and whether reading stopped inside (the last item is then a `.stop`, at
some depth) -/
structure Body where
  items : List Item := []
  members : List (Nat × String × Nat) := []
  protos : List String := []
  stopped : Bool := false
  /-- ghost flag: reading stopped because a fuel bound was hit (proved never to happen, `Proofs/Parse.lean`) -/
  hung : Bool := false

def PErr.isFuel : PErr → Bool
  | .outOfFuel => true
  | .lex .outOfFuel => true
  | _ => false

def Body.stopWith (e : PErr) : Body := { items := [stopOf e], stopped := true, hung := e.isFuel }

/-- put one thing that was read in front of what the rest of the scope contains -/
def Body.push (it : Option Item) (mem : Option (Nat × String × Nat)) (pr : Option String) (res : Body × List Token) : Body × List Token :=
  -- inside an enum, members that follow a non-member item are never reached
  ({ items := it.toList ++ res.1.items, members := if it.isSome then [] else mem.toList ++ res.1.members,
     protos := pr.toList ++ res.1.protos, stopped := res.1.stopped, hung := res.1.hung }, res.2)

/-- a definition with a body in which reading stopped: it is the last thing read -/
def Body.last (it : Item) (inner : Body) : Body × List Token := ({ items := [it], stopped := true, hung := inner.hung }, [])

def Body.stop (e : PErr) : Body × List Token := (Body.stopWith e, [])

/-- the items of a scope up to its closing brace (or the end of input at the top level).  An error
ends the reading: the item list then ends in a `.stop` carrying the error. -/
def items (pend : Option LexErr) : Nat → Scope → List Token → Body × List Token
  | 0, _, _ => Body.stop .outOfFuel
  | _+1, sc, [] =>
    if sc = .top then
      match pend with
      | some e => Body.stop (.lex e)     -- the parser asks for one more token: the lexer's error
      | none => ({}, [])
    else Body.stop (bad pend [])
  | f+1, sc, t :: ts =>
    match t.kind with
    | .newline => Body.push none none none (items pend f sc ts)
    | .comment =>
      match ts with
      | ⟨.newline, _⟩ :: r => Body.push none none none (items pend f sc r)
      | _ => Body.stop (bad pend ts)
    | .lit '}' => if sc = .top then Body.stop (.syntax (some t.line)) else ({}, ts)
    | .kw "enum" =>
      match ts with
      | ⟨.ident name, l⟩ :: ⟨.lit ':', _⟩ :: ⟨.uintType n, _⟩ :: ⟨.lit '{', _⟩ :: r =>
        let inner := items pend f .enum r
        if inner.1.stopped then Body.last (.enum l name n inner.1.members inner.1.items) inner.1
        else Body.push (some (.enum l name n inner.1.members inner.1.items)) none none (items pend f sc inner.2)
      | ⟨.ident _, _⟩ :: ⟨.lit ':', _⟩ :: ⟨.uintType _, _⟩ :: r => Body.stop (bad pend r)
      | ⟨.ident _, _⟩ :: ⟨.lit ':', _⟩ :: r => Body.stop (bad pend r)
      | ⟨.ident _, _⟩ :: r => Body.stop (bad pend r)
      | _ => Body.stop (bad pend ts)
    | .kw "message" =>
      match ts with
      | ⟨.ident name, l⟩ :: r =>
        match (optExt r).2 with
        | ⟨.lit '{', _⟩ :: r1 =>
          let inner := items pend f .msg r1
          if inner.1.stopped then Body.last (.msg l name (optExt r).1 inner.1.items) inner.1
          else Body.push (some (.msg l name (optExt r).1 inner.1.items)) none none (items pend f sc inner.2)
        | r0 => Body.stop (bad pend r0)
      | _ => Body.stop (bad pend ts)
    | .kw k =>
      match simpleStmt pend k t.line ts with
      | .error e => Body.stop e
      | .ok (it, pr, r) =>
        match pr with
        | some s => if sc = .top then Body.push none none (some s) (items pend f sc r) else Body.stop (.protoInScope t.line)
        | none => Body.push it none none (items pend f sc r)
    | .ident s =>
      if sc = .enum then
        match ts with
        | ⟨.lit '=', _⟩ :: ⟨.int v, _⟩ :: r' => Body.push none (some (t.line, s, v)) none (items pend f sc (optSemi r'))
        | ⟨.lit '=', _⟩ :: ⟨.hex v, _⟩ :: r' => Body.push none (some (t.line, s, v)) none (items pend f sc (optSemi r'))
        | ⟨.lit '=', _⟩ :: r => Body.stop (bad pend r)
        | _ =>
          match field pend (t :: ts) with
          | .error e => Body.stop e
          | .ok (it, r) => Body.push (some it) none none (items pend f sc r)
      else if sc = .msg then
        match field pend (t :: ts) with
        | .error e => Body.stop e
        | .ok (it, r) => Body.push (some it) none none (items pend f sc r)
      else Body.stop (.syntax (some t.line))
    | .boolType | .byteType | .uintType _ | .intType _ =>
      if sc = .top then Body.stop (.syntax (some t.line)) else
        match field pend (t :: ts) with
        | .error e => Body.stop e
        | .ok (it, r) => Body.push (some it) none none (items pend f sc r)
    | _ => Body.stop (.syntax (some t.line))

structure Parsed where
  proto : String
  items : List Item

/-- `open(path).read()` in text mode: universal newlines (`\r\n` and a lone `\r` become `\n`) -/
def universalNewlines : List Char → List Char
  | '\r' :: '\n' :: cs => '\n' :: universalNewlines cs
  | '\r' :: cs => '\n' :: universalNewlines cs
  | c :: cs => c :: universalNewlines cs
  | [] => []

/-- everything read from a whole file -/
def parseBody (raw : List Char) : Body :=
  let lexed := Lex.lex (universalNewlines raw)
  (items lexed.2 (lexed.1.length + 1) .top lexed.1).1

/-- a whole file: always an item list; an error is its last item (at some depth) -/
def parseText (raw : List Char) : Parsed :=
  let b := parseBody raw
  if b.stopped then ⟨(b.protos.getLast?).getD "", b.items⟩
  else
    match b.protos.getLast? with
    | some p => ⟨p, b.items⟩
    | none => ⟨"", b.items ++ [.stop "proto-name-undefined" 0]⟩

/-- verdict of a one-file program given as text: `accept` or `rule@line` -/
def textVerdict (text : String) : String :=
  let p := parseText text.toList
  match Front.checkProgram [{ name := "m", proto := p.proto, items := p.items }] "m" false with
  | .ok _ => "accept"
  | .error d => d.rule ++ "@" ++ toString d.line

end Bp.Parse
