import BpModel.Model.Lexer
/-!
# L6 (text level) — the bitproto lexer

mirrors: compiler/bitproto/lexer.py as PLY runs it: at every position the characters of `t_ignore`
(space, tab, CR) are skipped; then the function rules are tried IN DEFINITION ORDER (`t_newline`,
`t_COMMENT`, `t_BOOL_TYPE`, `t_UINT_TYPE`, `t_INT_TYPE`, `t_BYTE_TYPE`, `t_HEX_LITERAL`,
`t_INT_LITERAL`, `t_BOOL_LITERAL`, `t_IDENTIFIER`, `t_STRING_LITERAL`), then the string rules
(`+`, `*`, `-`, `/`), then the one-character `literals`; the first rule that matches wins (not the
longest).  `\b` is the boundary between a word character and a non-word character; the previous
character is therefore part of the state.  Anything else is `t_error` (a lexer error).

Word characters: exact for ASCII; every non-ASCII character is taken to be a word character except
the few listed in `nonWordHigh` (the correspondence alphabet only contains characters for which this
is what Python's `\w` says).  Decimal literals are unbounded here (the real lexer reports literals
beyond CPython's int-conversion limit as a lexer error).
-/
namespace Bp.Lex

inductive Kind where
  | newline | comment
  | boolType | uintType (n : Nat) | intType (n : Nat) | byteType
  | hex (v : Nat) | int (v : Nat) | boolLit (b : Bool)
  | ident (s : String) | kw (s : String)
  | str (v : String)
  | plus | minus | times | divide
  | lit (c : Char)
  deriving Repr, DecidableEq, Inhabited

structure Token where
  kind : Kind
  line : Nat
  deriving Repr, DecidableEq, Inhabited

inductive LexErr where
  | invalidToken (line : Nat) (c : Char)
  | invalidEscape (line : Nat)
  | invalidWidth (line : Nat) (signed : Bool) (n : Nat)   -- `uint0`, `int65`: the type node validates itself in the lexer
  | outOfFuel
  deriving Repr, DecidableEq

def isDigit (c : Char) : Bool := '0' ≤ c && c ≤ '9'
def isHex (c : Char) : Bool := isDigit c || ('a' ≤ c && c ≤ 'f') || ('A' ≤ c && c ≤ 'F')
def isIdStart (c : Char) : Bool := ('a' ≤ c && c ≤ 'z') || ('A' ≤ c && c ≤ 'Z') || c = '_'
def isIdChar (c : Char) : Bool := isIdStart c || isDigit c
def nonWordHigh : List Nat := [0xA0, 0x20AC, 0x2028, 0x3000]
def isWord (c : Char) : Bool := if c.toNat < 128 then isIdChar c else !nonWordHigh.contains c.toNat
def hexVal (c : Char) : Nat :=
  if isDigit c then c.toNat - 48 else if 'a' ≤ c && c ≤ 'f' then c.toNat - 87 else c.toNat - 55
def keywords : List String := ["proto", "import", "option", "type", "const", "enum", "message", "typedef"]
def literals : List Char := [':', ';', '{', '}', '[', ']', '(', ')', '/', '=', '\\', '\'', '.']

/-- longest prefix satisfying `p`, and the rest -/
def span (p : Char → Bool) : List Char → List Char × List Char
  | [] => ([], [])
  | c :: cs => if p c then ((span p cs).1.cons c, (span p cs).2) else ([], c :: cs)

def dropPrefix : List Char → List Char → Option (List Char)
  | [], cs => some cs
  | _ :: _, [] => none
  | p :: ps, c :: cs => if p = c then dropPrefix ps cs else none

/-- `\b` after a word character: the next character is not a word character (or the input ends) -/
def boundaryAfter : List Char → Bool
  | [] => true
  | c :: _ => !isWord c

/-- `\bWORD\b` -/
def wordRule (prevWord : Bool) (w : String) (cs : List Char) : Option (List Char) :=
  if prevWord then none else
  match dropPrefix w.toList cs with
  | some rest => if boundaryAfter rest then some rest else none
  | none => none

/-- `\bPREFIX[0-9]+\b` -/
def widthRule (prevWord : Bool) (pre : String) (cs : List Char) : Option (Nat × List Char) :=
  if prevWord then none else
  match dropPrefix pre.toList cs with
  | some rest =>
    let (ds, rest') := span isDigit rest
    if ds.isEmpty then none
    else if boundaryAfter rest' then some (ds.foldl (fun a d => 10 * a + (d.toNat - 48)) 0, rest') else none
  | none => none

/-- one token at `cs` (which does not start with an ignored character); `prevWord` says whether the
character just before is a word character.  Returns the kind, the number of newlines consumed (0 or
1) and the rest. -/
def next (prevWord : Bool) (line : Nat) (cs : List Char) : Except LexErr (Kind × List Char) :=
  match cs with
  | [] => .error (.invalidToken line ' ')     -- never called on empty input
  | c :: rest =>
    if c = '\n' then .ok (.newline, rest)
    else if c = '/' && rest.head? = some '/' then .ok (.comment, (span (· ≠ '\n') cs).2)
    else if let some r := wordRule prevWord "bool" cs then .ok (.boolType, r)
    else if let some (n, r) := widthRule prevWord "uint" cs then .ok (.uintType n, r)
    else if let some (n, r) := widthRule prevWord "int" cs then .ok (.intType n, r)
    else if let some r := wordRule prevWord "byte" cs then .ok (.byteType, r)
    else if c = '0' && rest.head? = some 'x' && (rest.tail.head?.map isHex = some true) then
      let (hs, r) := span isHex rest.tail
      .ok (.hex (hs.foldl (fun a d => 16 * a + hexVal d) 0), r)
    else if isDigit c then
      let (ds, r) := span isDigit cs
      .ok (.int (ds.foldl (fun a d => 10 * a + (d.toNat - 48)) 0), r)
    else if let some r := wordRule prevWord "true" cs then .ok (.boolLit true, r)
    else if let some r := wordRule prevWord "false" cs then .ok (.boolLit false, r)
    else if let some r := wordRule prevWord "yes" cs then .ok (.boolLit true, r)
    else if let some r := wordRule prevWord "no" cs then .ok (.boolLit false, r)
    else if isIdStart c then
      let (w, r) := span isIdChar cs
      let s := String.ofList w
      .ok (if keywords.contains s then .kw s else .ident s, r)
    else if c = '"' then
      match Lexer.lexString rest with
      | none => .error (.invalidToken line c)
      | some (.ok v, r) => .ok (.str (String.ofList v), r)
      | some (.error _, _) => .error (.invalidEscape line)
    else if c = '+' then .ok (.plus, rest)
    else if c = '*' then .ok (.times, rest)
    else if c = '-' then .ok (.minus, rest)
    else if c = '/' then .ok (.divide, rest)
    else if literals.contains c then .ok (.lit c, rest)
    else .error (.invalidToken line c)

def isIgnored (c : Char) : Bool := c = ' ' || c = '\t' || c = '\r'

/-- the last character of what was consumed between `before` and `after` (a suffix of it) -/
def lastConsumed (before after : List Char) : Option Char :=
  (before.take (before.length - after.length)).getLast?

def widthOk : Kind → Option (Bool × Nat)
  | .uintType n => if 1 ≤ n ∧ n ≤ 64 then none else some (false, n)
  | .intType n => if 1 ≤ n ∧ n ≤ 64 then none else some (true, n)
  | _ => none

/-- all tokens of a text up to the first lexical error (PLY lexes lazily, so the parser sees the
tokens before the error first); fuel = one unit per character is enough (`Proofs/Lex.lean`) -/
def lexAll : Nat → Bool → Nat → List Char → List Token × Option LexErr
  | _, _, _, [] => ([], none)
  | 0, _, _, _ :: _ => ([], some .outOfFuel)
  | f+1, prevWord, line, c :: cs =>
    if isIgnored c then lexAll f false line cs
    else
      match next prevWord line (c :: cs) with
      | .error e => ([], some e)
      | .ok (k, rest) =>
        match widthOk k with
        | some (sg, n) => ([], some (.invalidWidth line sg n))
        | none =>
          let pw := match lastConsumed (c :: cs) rest with | some l => isWord l | none => false
          let r := lexAll f pw (if k = .newline then line + 1 else line) rest
          (⟨k, line⟩ :: r.1, r.2)

def lex (text : List Char) : List Token × Option LexErr := lexAll text.length false 1 text

end Bp.Lex
