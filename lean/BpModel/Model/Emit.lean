/-!
# L7 (part) — emission order of definitions
`Scope.filter(recursive=True, bound=…)` / the renderers' block order: a definition nested in a
message is emitted before that message, siblings in declaration order.
-/
namespace Bp.C10

inductive D where
  | mk (id : Nat) (children : List D)

mutual
/-- emission order: children first, then the definition itself -/
def emit : D → List Nat
  | .mk id cs => emitAll cs ++ [id]
def emitAll : List D → List Nat
  | [] => []
  | d :: ds => emit d ++ emitAll ds
end

mutual
/-- all definitions, in declaration (pre-)order -/
def ids : D → List Nat
  | .mk id cs => id :: idsAll cs
def idsAll : List D → List Nat
  | [] => []
  | d :: ds => ids d ++ idsAll ds
end

end Bp.C10
