/-!
# L8 Cli — the decision logic of `bitproto._main.main` and the `-F` filter
mirrors: compiler/bitproto/_main.py:141-190 (order: parse, lint, check-only, language, validation
of the filter and optimize flags, render), renderer/renderer.py:86-97 (language capability check),
the message filters of the C and Go renderers.
-/
namespace Bp.Cli

structure Opts where
  lang : Option String := none
  check : Bool := false       -- -c
  optimize : Bool := false    -- -O
  filter : List String := []  -- -F names
  quiet : Bool := false       -- -q (disable linter)
  deriving Repr

structure Outcome where
  exit : Nat
  written : List String       -- generated files
  deriving Repr, DecidableEq

/-- what the parser / linter / renderer report for the given input, abstractly -/
structure World where
  /-- `parse(file, traditional_mode)`: error or accepted; extensible markers anywhere (imports
  included) are an error exactly in traditional mode -/
  hasOtherError : Bool
  hasExtensible : Bool
  warnings : Nat                          -- what the linter would report
  supportsO : String → Bool               -- language supports optimization mode
  knownLang : String → Bool
  files : String → Bool → List String → List String   -- lang, optimize, filter ↦ files written

def parseFails (w : World) (o : Opts) : Bool :=
  w.hasOtherError || ((o.optimize && !o.check) && w.hasExtensible)

def main (w : World) (o : Opts) : Outcome :=
  if parseFails w o then ⟨1, []⟩ else
  let warns := if o.quiet then 0 else w.warnings
  if o.check then (if warns > 0 then ⟨1, []⟩ else ⟨0, []⟩) else
  match o.lang with
  | none => ⟨1, []⟩
  | some l =>
    if !o.optimize && !o.filter.isEmpty then ⟨1, []⟩ else
    if !w.knownLang l then ⟨1, []⟩ else
    if o.optimize && !w.supportsO l then ⟨1, []⟩ else
    ⟨0, w.files l o.optimize o.filter⟩

/-- the functions a renderer emits in optimization mode: one encoder/decoder pair per message that
passes the filter (empty filter = all) -/
def emitted {α} (name : α → String) (render : α → String) (filter : List String) (msgs : List α) : List String :=
  (msgs.filter fun m => filter.isEmpty || filter.contains (name m)).map render

end Bp.Cli
