/-!
# L6 (part) — the string-literal rule of the bitproto lexer
mirrors: compiler/bitproto/lexer.py `t_STRING_LITERAL` — the token regular expression
`"([^\\\n]|(\\.))*?"` and the index-driven escape loop that follows it.  `s[i]` is modelled as a
CHECKED access: an out-of-range index is the explicit error `indexError` (Python's IndexError, an
internal exception), running out of fuel is `outOfFuel` (a hang).
-/
namespace Bp.Lexer

/-- the regular expression, from just after the opening quote: the lazy star stops at the first
quote that is not part of an escape pair; `.` does not match a newline.  Returns (body, rest). -/
def matchBody : List Char → Option (List Char × List Char)
  | [] => none
  | '"' :: rest => some ([], rest)
  | '\\' :: c :: rest =>
    if c = '\n' then none else
    match matchBody rest with
    | some (b, r) => some ('\\' :: c :: b, r)
    | none => none
  | '\\' :: [] => none
  | c :: rest =>
    if c = '\n' then none else
    match matchBody rest with
    | some (b, r) => some (c :: b, r)
    | none => none

inductive EscErr | invalidEscapingChar | indexError | outOfFuel deriving DecidableEq, Repr

/-- `Lexer.escaping_chars` -/
def escTable (c : Char) : Option Char :=
  if c = 't' then some '\t' else if c = 'r' then some '\r' else if c = 'n' then some '\n'
  else if c = '\\' then some '\\' else if c = '\'' then some '\'' else if c = '"' then some '"' else none

/-- the `while i < len(s)` loop -/
def escLoop (s : List Char) : Nat → Nat → List Char → Except EscErr (List Char)
  | 0, i, val => if i < s.length then .error .outOfFuel else .ok val
  | f+1, i, val =>
    if i < s.length then
      match s[i]? with
      | none => .error .indexError
      | some c =>
        if c = '\\' then
          match s[i+1]? with
          | none => .error .indexError
          | some e =>
            match escTable e with
            | some r => escLoop s f (i + 2) (val ++ [r])
            | none => .error .invalidEscapingChar
        else escLoop s f (i + 1) (val ++ [c])
    else .ok val

/-- value of a string token whose text (after the opening quote) is `cs` -/
def lexString (cs : List Char) : Option (Except EscErr (List Char) × List Char) :=
  match matchBody cs with
  | none => none                                            -- no token: `t_error` (a lexer error)
  | some (body, rest) => some (escLoop body body.length 0 [], rest)

end Bp.Lexer
