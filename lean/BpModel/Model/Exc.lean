/-! Exceptions the models can raise (the classes the properties distinguish). -/
namespace Bp

inductive Exc where
  | indexError        -- Python IndexError / list index out of range
  | valueError        -- Python ValueError (byte must be in range(0, 256), IntEnum(...) of a non-member)
  | typeError         -- value of the wrong shape for the type
  | oob               -- C: access outside the modelled object
  | assertion         -- Python AssertionError (decode() of a short buffer)
  deriving Repr, BEq, DecidableEq, Inhabited

def Exc.name : Exc → String
  | .indexError => "IndexError" | .valueError => "ValueError" | .typeError => "TypeError"
  | .oob => "oob" | .assertion => "AssertionError"

end Bp
