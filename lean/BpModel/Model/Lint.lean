import BpModel.Model.Names
/-!
# L7 (part) — lint rules
mirrors: compiler/bitproto/linter.py: message / enum / alias names must be fixed points of
`pascal_case`; constant and enum-member names must satisfy `str.isupper()`; an enum needs a member
of value 0.
-/
namespace Bp.C20
open Bp Names

def warnsPascal (name : List Char) : Bool := decide (pascalCase name ≠ name)
def warnsUpper (name : List Char) : Bool := !pyIsUpper name
def warnsEnumNoZero (values : List Nat) : Bool := !values.contains 0

end Bp.C20
