/-!
# L7 (part) — case converters and generated names
`pascal_case` and `upper_case` of `compiler/bitproto/utils.py` on `List Char` (ASCII), Python's
`str.isupper`, and the composition of a generated definition name
(`renderer/formatter.py` `_format_definition_name_inner_proto`): prefix + enclosing message names
+ own name, joined by the language's delimiter, then case-converted per definition kind.
`snake_case` (a cascade of regular-expression substitutions) is not modelled; it is tied by the
correspondence check only.
-/
namespace Bp.Names

def isUpperC (c : Char) : Bool := 'A' ≤ c && c ≤ 'Z'
def isLowerC (c : Char) : Bool := 'a' ≤ c && c ≤ 'z'
def toUpperC (c : Char) : Char := if isLowerC c then Char.ofNat (c.toNat - 32) else c
def toLowerC (c : Char) : Char := if isUpperC c then Char.ofNat (c.toNat + 32) else c

/-- Python `str.isupper()` on ASCII: at least one cased character and no lowercase one -/
def pyIsUpper (s : List Char) : Bool := s.any isUpperC && !s.any isLowerC

/-- `s.split("_")` -/
def splitUs : List Char → List (List Char)
  | [] => [[]]
  | c :: cs =>
    match splitUs cs with
    | [] => [[c]]                 -- unreachable: splitUs never returns []
    | p :: ps => if c = '_' then [] :: p :: ps else (c :: p) :: ps

def pascalPart : List Char → List Char
  | [] => []
  | c :: rest => toUpperC c :: (if rest ≠ [] ∧ pyIsUpper rest then rest.map toLowerC else rest)

/-- `bitproto.utils.pascal_case` -/
def pascalCase (s : List Char) : List Char := ((splitUs s).map pascalPart).flatten

/-- `bitproto.utils.upper_case` -/
def upperCase (s : List Char) : List Char := s.map toUpperC

inductive Lang | c | go | py deriving DecidableEq, Repr
inductive Kind | message | enum | alias | constant deriving DecidableEq, Repr

/-- delimiter between enclosing message names and the own name (`delimer_inner_proto`): `_` in every
language; C and Go messages lose it again in the PascalCase conversion -/
def delim : Lang → Kind → List Char
  | _, _ => ['_']

def joinWith (d : List Char) : List (List Char) → List Char
  | [] => []
  | [x] => x
  | x :: xs => x ++ d ++ joinWith d xs

/-- case conversion per language and kind (`case_style_mapping`) -/
def convert : Lang → Kind → List Char → List Char
  | .c, .constant, s | .go, .constant, s | .py, .constant, s => upperCase s
  | .c, _, s => pascalCase s
  | .go, .message, s | .go, .alias, s => pascalCase s
  | .go, .enum, s => s
  | .py, _, s => s

/-- the generated name of a definition: `prefix` is the C name prefix ("" for Go and Python) -/
def defName (l : Lang) (k : Kind) (pre : List Char) (scopes : List (List Char)) (name : List Char) : List Char :=
  convert l k (pre ++ joinWith (delim l k) (scopes ++ [name]))

end Bp.Names
