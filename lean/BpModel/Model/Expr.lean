/-!
# L6 (part) — integer constant expressions

Tokens, expression trees, the printer with minimal parentheses, the precedence-climbing parser
that PLY's precedence table (`parser.py:75-79`: `+ -` below `* /`, all left associative) induces,
the tokenizer of expression text, and evaluation (floor division; division by zero is a parser
error).  mirrors: compiler/bitproto/parser.py p_calculation_expression_*; lexer.py HEX/INT literals
-/
namespace Bp.Expr

inductive Op | add | sub | mul | div deriving DecidableEq, Repr
def Op.prec : Op → Nat | .add => 1 | .sub => 1 | .mul => 2 | .div => 2

inductive Tok | num (n : Nat) | ref (name : String) | op (o : Op) | lp | rp deriving DecidableEq, Repr
inductive E | num (n : Nat) | ref (name : String) | bin (o : Op) (l r : E) deriving DecidableEq, Repr

def inner (prl prr : List Tok) (o : Op) : List Tok := prl ++ (.op o :: prr)

/-- print with minimal parentheses (left associative: right operand one level higher) -/
def pr : Nat → E → List Tok
  | _, .num n => [.num n]
  | _, .ref s => [.ref s]
  | p, .bin o l r =>
    if o.prec < p then .lp :: (inner (pr o.prec l) (pr (o.prec + 1) r) o ++ [.rp])
    else inner (pr o.prec l) (pr (o.prec + 1) r) o

mutual
def parseAtom : Nat → List Tok → Option (E × List Tok)
  | 0, _ => none
  | _+1, .num n :: ts => some (.num n, ts)
  | _+1, .ref s :: ts => some (.ref s, ts)
  | f+1, .lp :: ts =>
    match parseExpr f 1 ts with
    | some (e, .rp :: ts') => some (e, ts')
    | _ => none
  | _+1, _ => none
def parseExpr : Nat → Nat → List Tok → Option (E × List Tok)
  | 0, _, _ => none
  | f+1, p, ts =>
    match parseAtom f ts with
    | some (l, ts') => parseLoop f p l ts'
    | none => none
def parseLoop : Nat → Nat → E → List Tok → Option (E × List Tok)
  | 0, _, _, _ => none
  | f+1, p, l, .op o :: ts =>
    if o.prec ≥ p then
      match parseExpr f (o.prec + 1) ts with
      | some (r, ts') => parseLoop f p (.bin o l r) ts'
      | none => none
    else some (l, .op o :: ts)
  | _+1, _, l, ts => some (l, ts)
end

/-- parse a complete token list -/
def parse (ts : List Tok) : Option E :=
  match parseExpr (2 * ts.length + 2) 1 ts with
  | some (e, []) => some e
  | _ => none

inductive EvalErr | divZero | unbound (name : String) deriving DecidableEq, Repr

/-- evaluation: ordinary integer arithmetic, `/` is floor division -/
def eval (env : String → Option Int) : E → Except EvalErr Int
  | .num n => .ok n
  | .ref s => match env s with | some v => .ok v | none => .error (.unbound s)
  | .bin o l r =>
    match eval env l, eval env r with
    | .ok a, .ok b =>
      match o with
      | .add => .ok (a + b)
      | .sub => .ok (a - b)
      | .mul => .ok (a * b)
      | .div => if b = 0 then .error .divZero else .ok (Int.fdiv a b)
    | .error e, _ => .error e
    | _, .error e => .error e

/-! ## tokenizer -/
def isDigit (c : Char) : Bool := '0' ≤ c && c ≤ '9'
def isHex (c : Char) : Bool := isDigit c || ('a' ≤ c && c ≤ 'f') || ('A' ≤ c && c ≤ 'F')
def isIdStart (c : Char) : Bool := ('a' ≤ c && c ≤ 'z') || ('A' ≤ c && c ≤ 'Z') || c = '_'
def isIdChar (c : Char) : Bool := isIdStart c || isDigit c || c = '.'
def hexVal (c : Char) : Nat :=
  if isDigit c then c.toNat - 48 else if 'a' ≤ c && c ≤ 'f' then c.toNat - 87 else c.toNat - 55

def takeWhileAcc (p : Char → Bool) : List Char → List Char → List Char × List Char
  | c :: cs, acc => if p c then takeWhileAcc p cs (c :: acc) else (acc.reverse, c :: cs)
  | [], acc => (acc.reverse, [])

/-- tokens of an expression text (fuel = length) -/
def tokenize : Nat → List Char → Option (List Tok)
  | 0, [] => some []
  | 0, _ => none
  | _+1, [] => some []
  | f+1, c :: cs =>
    if c = ' ' || c = '\t' then tokenize f cs
    else if c = '+' then (tokenize f cs).map (Tok.op .add :: ·)
    else if c = '-' then (tokenize f cs).map (Tok.op .sub :: ·)
    else if c = '*' then (tokenize f cs).map (Tok.op .mul :: ·)
    else if c = '/' then (tokenize f cs).map (Tok.op .div :: ·)
    else if c = '(' then (tokenize f cs).map (Tok.lp :: ·)
    else if c = ')' then (tokenize f cs).map (Tok.rp :: ·)
    else if c = '0' && (cs.head? = some 'x') && (cs.tail.head?.map isHex = some true) then
      let r := takeWhileAcc isHex cs.tail []
      (tokenize f r.2).map (Tok.num (r.1.foldl (fun a d => 16 * a + hexVal d) 0) :: ·)
    else if isDigit c then
      let r := takeWhileAcc isDigit (c :: cs) []
      (tokenize f r.2).map (Tok.num (r.1.foldl (fun a d => 10 * a + (d.toNat - 48)) 0) :: ·)
    else if isIdStart c then
      let r := takeWhileAcc isIdChar (c :: cs) []
      (tokenize f r.2).map (Tok.ref (String.ofList r.1) :: ·)
    else none

def evalText (env : String → Option Int) (text : String) : Except String Int :=
  match tokenize text.length text.toList with
  | none => .error "lex"
  | some ts =>
    match parse ts with
    | none => .error "parse"
    | some e =>
      match eval env e with
      | .ok v => .ok v
      | .error .divZero => .error "div0"
      | .error (.unbound s) => .error s!"unbound {s}"

end Bp.Expr
