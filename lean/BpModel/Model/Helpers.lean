import BpModel.Model.Bits
/-!
# The runtimes' shared helper arithmetic, on naturals

Clean definitions used by the runtime models and the proofs.  The *current source text* of the
same helpers is regenerated on every run into `BpModel/Gen/PyHelpers.lean` /
`BpModel/Gen/GoHelpers.lean`; `Proofs/Bridge.lean` proves the generated definitions equal to
these on their whole domain, which is the translator tie (T) of DESIGN.md §3.3.

mirrors: lib/py/bitprotolib/bp.py smart_shift, get_mask, get_nbits_to_copy;
         lib/go/bitproto.go smartShift, getMask, getNbitsToCopy
-/
namespace Bp

/-- `get_mask(k, c)`, both branches as written in `bp.py` -/
def getMask (k c : Nat) : Nat :=
  if k = 0 then (1 <<< c) - 1 else (1 <<< ((k+1+c)-1)) - (1 <<< ((k+1)-1))

/-- `smart_shift(n, k)`: right shift for `k > 0`, left for `k < 0` -/
def smartShift (n : Nat) (k : Int) : Nat :=
  if k > 0 then n >>> k.toNat else if k < 0 then n <<< (-k).toNat else n

/-- `get_nbits_to_copy(i, j, n)` -/
def nbitsToCopy (i j n : Nat) : Nat := min (n - j) (min (8 - j % 8) (8 - i % 8))

/-- smallest of 8/16/32/64 covering `n` bits. mirrors renderer/formatter.py get_nbits_of_integer -/
def storageBits (n : Nat) : Nat := if n ≤ 8 then 8 else if n ≤ 16 then 16 else if n ≤ 32 then 32 else 64

end Bp
