import BpModel.Model.Schema
import BpModel.Model.Expr
/-!
# L6 Front — the documented acceptance rules and name resolution, as an executable reference

Written from the documented constraints (docs/language.rst and the property text), over an abstract
surface syntax with line numbers: the harness prints the same program to `.bitproto` text for the
real compiler and sends this AST to the driver.  `check` answers accept / reject with a rule id,
file and line; `resolve` is the declarative reading of name resolution (C11): innermost enclosing
scope first, only definitions that end before the use are visible, a dotted path must resolve as
a whole inside one scope before the search moves outward.

Not modelled: the lexer and PLY's automaton (text level), comments, option/constant expressions
beyond literals and references (C13 covers expressions).
-/
namespace Bp.Front
open Bp

inductive CapE where
  | lit (n : Nat)
  | cref (path : List String)
  deriving Repr, Inhabited

inductive TyE where
  | bool | byte
  | uint (n : Nat) | int (n : Nat)
  | ref (path : List String)
  | array (elem : TyE) (cap : CapE) (ext : Bool)
  deriving Repr, Inhabited

inductive CVal where
  | int (v : Int) | bool (b : Bool) | str (s : String)
  deriving Repr, Inhabited, BEq

inductive CExpr where
  | lit (v : CVal)
  | ref (path : List String)
  | expr (e : Expr.E)            -- a calculation expression; names in it are dotted paths joined by `.`
  deriving Repr, Inhabited

inductive Item where
  | const (line : Nat) (name : String) (v : CExpr)
  | alias (line : Nat) (name : String) (ty : TyE)
  | enum (line : Nat) (name : String) (nbits : Nat) (members : List (Nat × String × Nat)) (extra : List Item)
  | msg (line : Nat) (name : String) (ext : Bool) (items : List Item)
  | field (line : Nat) (name : String) (num : Nat) (ty : TyE)
  | option (line : Nat) (name : String) (v : CExpr)
  | import_ (line : Nat) (asName : Option String) (file : String)
  /-- text level only: reading stopped here (syntax / lexical error, misplaced or missing `proto`); everything before
  it has been read and is checked first, nothing after it exists -/
  | stop (rule : String) (line : Nat)
  deriving Repr, Inhabited

structure File where
  name : String
  proto : String
  items : List Item
  deriving Repr, Inhabited

/-- a resolved definition; scopes carry their members (pushed so far / all, once closed) -/
inductive Ent where
  | const (v : CVal)
  | alias (t : Ty)
  | enum (id : Nat) (n : Nat) (values : List Nat) (members : List (String × Ent))
  | enumField (v : Nat)
  | msg (id : Nat) (t : Ty) (members : List (String × Ent))
  | field (t : Ty)
  | option
  | proto (file : String) (name : String) (members : List (String × Ent))
  deriving Repr, Inhabited

structure Diag where
  rule : String
  file : String
  line : Nat
  deriving Repr, Inhabited, BEq

abbrev Scope := List (String × Ent)      -- members pushed so far, oldest first

def lookup (s : Scope) (n : String) : Option Ent := (s.find? (·.1 == n)).map (·.2)

/-- `get_member(*names)`: the first name among the scope's members, the rest inside it -/
def lookupPath : Scope → List String → Option Ent
  | _, [] => none
  | s, [n] => lookup s n
  | s, n :: rest =>
    match lookup s n with
    | some (.msg _ _ mem) => lookupPath mem rest
    | some (.enum _ _ _ mem) => lookupPath mem rest
    | some (.proto _ _ mem) => lookupPath mem rest
    | _ => none

/-- **name resolution**: scopes innermost first; the whole dotted path per scope, then outward -/
def resolve : List Scope → List String → Option Ent
  | [], _ => none
  | s :: outer, path =>
    match lookupPath s path with
    | some e => some e
    | none => resolve outer path

def isAliasable : TyE → Bool
  | .bool | .byte | .uint _ | .int _ | .array _ _ _ => true
  | .ref _ => false

structure Ctx where
  file : String
  traditional : Bool
  stack : List Scope            -- innermost first; the last element is the proto scope of this file

def err {α} (c : Ctx) (rule : String) (line : Nat) : Except Diag α := .error ⟨rule, c.file, line⟩

/-- array capacity: literal or reference to an integer constant declared earlier -/
def evalCap (c : Ctx) (line : Nat) : CapE → Except Diag Nat
  | .lit n => .ok n
  | .cref p =>
    match resolve c.stack p with
    | none => err c "undefined-constant" line
    | some (.const (.int v)) => .ok v.toNat
    | some (.const _) => err c "invalid-array-capacity" line     -- a non-integer constant
    | some _ => err c "not-a-constant" line

/-- elaborate a type expression at a use site -/
def elabTy (c : Ctx) (line : Nat) : TyE → Except Diag Ty
  | .bool => .ok .bool
  | .byte => .ok .byte
  | .uint n => if 1 ≤ n ∧ n ≤ 64 then .ok (.uint n) else err c "invalid-uint-width" line
  | .int n => if 1 ≤ n ∧ n ≤ 64 then .ok (.int n) else err c "invalid-int-width" line
  | .ref p =>
    match resolve c.stack p with
    | none => err c "undefined-type" line
    | some (.alias t) => .ok (.alias t)
    | some (.enum _ n vs _) => .ok (.enum n vs)
    | some (.msg _ t _) => .ok t
    | some _ => err c "not-a-type" line
  | .array e cap ext =>
    -- in reading order: element type, capacity reference, extensible mark, then the array node validates itself
    match e with
    | .array _ _ _ => err c "array-of-array" line
    | _ => do
      let t ← elabTy c line e
      let n ← evalCap c line cap
      if ext && c.traditional then err c "extensible-in-traditional-mode" line else
      if ¬ (1 ≤ n ∧ n ≤ 65535) then err c "invalid-array-capacity" line else
      .ok (.array ext n t)

/-- constants referenced inside a calculation expression must be integer constants -/
def exprEnv (c : Ctx) (name : String) : Option Int :=
  match resolve c.stack (name.splitOn ".") with
  | some (.const (.int v)) => some v
  | _ => none

def evalConst (c : Ctx) (line : Nat) : CExpr → Except Diag CVal
  | .lit v => .ok v
  | .ref p =>
    match resolve c.stack p with
    | none => err c "undefined-constant" line
    | some (.const v) => .ok v
    | some _ => err c "not-a-constant" line
  | .expr e =>
    match Expr.eval (exprEnv c) e with
    | .ok v => .ok (.int v)
    | .error .divZero => err c "division-by-zero" line
    | .error (.unbound name) =>
      match resolve c.stack (name.splitOn ".") with
      | none => err c "undefined-constant" line
      | some (.const _) => err c "non-integer-in-expression" line
      | some _ => err c "not-a-constant" line

/-- an import path names a FILE: `./` segments are dropped (all files of a program live in one
directory here, so any other directory segment names a directory that does not exist; the real
parser compares files with `os.path.samefile`) -/
def normPath (p : String) : String :=
  "/".intercalate ((p.splitOn "/").filter (fun s => s ≠ "." && s ≠ ""))

inductive Kind | proto | msg | enum deriving DecidableEq

def checkOption (c : Ctx) (k : Kind) (line : Nat) (name : String) (v : CVal) : Except Diag Unit :=
  match k, name, v with
  | .msg, "max_bytes", .int _ => .ok ()
  | .msg, "max_bytes", _ => err c "invalid-option-value" line
  | .proto, "c.struct_packing_alignment", .int x => if 0 ≤ x ∧ x ≤ 8 then .ok () else err c "invalid-option-value" line
  | .proto, "c.struct_packing_alignment", _ => err c "invalid-option-value" line
  | .proto, "c.name_prefix", .str _ => .ok ()
  | .proto, "c.name_prefix", _ => err c "invalid-option-value" line
  | .proto, "go.package_path", .str _ => .ok ()
  | .proto, "go.package_path", _ => err c "invalid-option-value" line
  | .proto, "py.module_name", .str _ => .ok ()
  | .proto, "py.module_name", _ => err c "invalid-option-value" line
  | _, _, _ => err c "unsupported-option" line

def checkEnumMembers (c : Ctx) (nbits : Nat) : List (Nat × String × Nat) → List String → List Nat →
    Except Diag (List (String × Ent) × List Nat)
  | [], _, _ => .ok ([], [])
  | (line, name, v) :: rest, names, vals =>
    if names.contains name then err c "duplicate-definition" line
    else if ¬ (v < 2 ^ nbits) then err c "enum-value-overflow" line
    else if vals.contains v then err c "duplicate-enum-value" line
    else do
      let r ← checkEnumMembers c nbits rest (name :: names) (v :: vals)
      .ok ((name, .enumField v) :: r.1, v :: r.2)

/-- state threaded through the items of one scope -/
structure St where
  members : Scope := []                 -- pushed so far (oldest first)
  fields : List (Nat × Ty) := []        -- message fields in declaration order
  maxBytes : Option Nat := none
  nextId : Nat := 0

def push (c : Ctx) (line : Nat) (st : St) (name : String) (e : Ent) : Except Diag St :=
  if (lookup st.members name).isSome then err c "duplicate-definition" line
  else .ok { st with members := st.members ++ [(name, e)] }

/-- `push_member` of the implementation: the name must be free — checked FIRST —, then the scope accepts or refuses this kind
of member (`validate_member_on_push`).  A misplaced statement whose name is also taken is a duplicate definition. -/
def pushIf (c : Ctx) (line : Nat) (st : St) (name : String) (e : Ent) (refuse : Option String) : Except Diag St :=
  if (lookup st.members name).isSome then err c "duplicate-definition" line else
  match refuse with
  | some r => err c r line
  | none => .ok { st with members := st.members ++ [(name, e)] }

mutual
/-- one scope: items in source order, every definition pushed when it closes -/
def checkItems (imp : Ctx → Nat → String → Except Diag Ent) (c : Ctx) (k : Kind) : List Item → St → Except Diag St
  | [], st => .ok st
  | it :: rest, st => do
    let st' ← checkItem imp { c with stack := st.members :: c.stack } k it st
    checkItems imp c k rest st'
def checkItem (imp : Ctx → Nat → String → Except Diag Ent) (c : Ctx) (k : Kind) : Item → St → Except Diag St
  -- A statement in the wrong kind of scope is reported when the statement is complete: what it refers
  -- to has been resolved (and, for definitions with a body, the body has been read) by then, so an
  -- error in there comes first.
  | .const line name v, st => do
    let cv ← evalConst c line v
    pushIf c line st name (.const cv) (if k ≠ .proto then some (if k = .msg then "const-in-message" else "const-in-enum") else none)
  | .alias line name ty, st =>
    if ¬ isAliasable ty then
      -- a reference: undefined names are reported as such, defined ones may not be aliased
      match ty with
      | .ref p =>
        match resolve c.stack p with
        | none => err c "undefined-type" line
        | some (.alias _) | some (.enum _ _ _ _) | some (.msg _ _ _) => err c "invalid-aliased-type" line
        | some _ => err c "not-a-type" line
      | _ => err c "invalid-aliased-type" line
    else do
    let t ← elabTy c line ty
    pushIf c line st name (.alias t) (if k ≠ .proto then some (if k = .msg then "alias-in-message" else "alias-in-enum") else none)
  | .enum line name nbits members extra, st =>
    if ¬ (1 ≤ nbits ∧ nbits ≤ 64) then err c "invalid-uint-width" line else do
    let r ← checkEnumMembers c nbits members [] []
    -- nothing but members may be declared inside an enum
    let _ ← checkItems imp c .enum extra { members := r.1 }   -- the members read so far are in the enum's scope
    pushIf c line { st with nextId := st.nextId + 1 } name (.enum (1000 * c.stack.length + st.nextId) nbits r.2 r.1)
      (if k = .enum then some "enum-in-enum" else none)
  | .msg line name ext items, st =>
    if ext && c.traditional then err c "extensible-in-traditional-mode" line else do
    let inner ← checkItems imp c .msg items { nextId := 0 }
    -- post-freeze validation of the message
    let nb := extBits ext + fieldsBits inner.fields
    if nb > 65535 then err c "message-size-overflow" line else
    match inner.maxBytes with
    | some mb => if mb > 0 ∧ (nb + 7) / 8 > mb then err c "message-size-overflow" line else
        pushIf c line { st with nextId := st.nextId + 1 } name
          (.msg (1000 * c.stack.length + st.nextId) (.msg ext inner.fields) inner.members)
          (if k = .enum then some "message-in-enum" else none)
    | none =>
      pushIf c line { st with nextId := st.nextId + 1 } name
        (.msg (1000 * c.stack.length + st.nextId) (.msg ext inner.fields) inner.members)
        (if k = .enum then some "message-in-enum" else none)
  | .field line name num ty, st => do
    let t ← elabTy c line ty
    if ¬ (1 ≤ num ∧ num ≤ 255) then err c "invalid-field-number" line else
    if k ≠ .msg then
      -- the field is pushed into the enclosing scope before the placement is rejected
      let _ ← push c line st name (.field t)
      err c (if k = .enum then "field-in-enum" else "field-at-top-level") line
    else
    -- `push_member`: the name first, then the field number
    let st' ← push c line st name (.field t)
    if (st.fields.map (·.1)).contains num then err c "duplicate-field-number" line else
    .ok { st' with fields := st'.fields ++ [(num, t)] }
  | .option line name v, st => do
    let cv ← evalConst c line v
    -- `push_member` looks at the name first; an enum has no option table, the statement is refused when it is complete
    if k = .enum then pushIf c line st name .option (some "option-in-enum") else
    if (lookup st.members name).isSome then err c "duplicate-definition" line else do
    checkOption c k line name cv
    let st' ← push c line st name .option
    match name, cv with
    | "max_bytes", .int x => .ok { st' with maxBytes := some x.toNat }
    | _, _ => .ok st'
  | .import_ line asName file0, st =>
    let file := normPath file0
    if k ≠ .proto then do
      -- the imported file is read, the file and the name are compared with what the PROTO already has and the name is pushed
      -- into the current scope before the placement is rejected
      let e ← imp c line file
      let top := c.stack.getLast?.getD []
      if top.any (fun m => match m.2 with | .proto f _ _ => f == file | _ => false) then err c "duplicate-import" line else
      let nm := match asName, e with
        | some a, _ => a
        | none, .proto _ pn _ => pn
        | none, _ => ""
      if (lookup top nm).isSome then err c "duplicate-definition" line else
      pushIf c line st nm e (some (if k = .msg then "import-in-message" else "import-in-enum"))
    else do
    let e ← imp c line file
    -- the same file twice in one proto
    if st.members.any (fun m => match m.2 with | .proto f _ _ => f == file | _ => false) then err c "duplicate-import" line else
    let nm := match asName, e with
      | some a, _ => a
      | none, .proto _ pn _ => pn
      | none, _ => ""
    push c line st nm e
  | .stop rule line, _ => err c rule line
end

/-- one file, and through `imp` the files it imports (fuel bounds the import depth; the cyclic check
makes any depth beyond the number of files impossible) -/
def checkFile (files : List File) (trad : Bool) : Nat → List String → String → Ctx → Nat → Except Diag Ent
  | 0, _, _, c, line => err c "import-too-deep" line
  | fuel+1, parsing, fname, c, line =>
    if parsing.contains fname then err c "cyclic-import" line else
    match files.find? (·.name == fname) with
    | none => err c "os-error" line
    | some f => do
      let c' : Ctx := { file := fname, traditional := trad, stack := [] }
      let st ← checkItems (fun ci l file' => checkFile files trad fuel (fname :: parsing) file' ci l) c' .proto f.items {}
      .ok (.proto fname f.proto st.members)

mutual
/-- every message type an accepted program declares (normalised) -/
def msgTys : Ent → List Ty
  | .msg _ t mem => t.normalize :: msgTysList mem
  | .proto _ _ mem => msgTysList mem
  | _ => []
def msgTysList : List (String × Ent) → List Ty
  | [] => []
  | (_, e) :: r => msgTys e ++ msgTysList r
end

/-- acceptance of a program (the file named `main`): all rules, and — redundantly with respect to
the implementation — well-formedness of every elaborated message type, so that acceptance by the
model implies the hypothesis of the wire-level theorems by construction -/
def checkProgram (files : List File) (main : String) (trad : Bool) : Except Diag Ent :=
  match checkFile files trad (files.length + 1) [] main { file := main, traditional := trad, stack := [] } 0 with
  | .error d => .error d
  | .ok e => if (msgTys e).all (fun t => t.wf) then .ok e else .error ⟨"model-wf", main, 0⟩

end Bp.Front
