import BpModel.Model.Schema
/-!
# L2 Spec — the wire format, written to be read in a minute

* `Spec.bits t v` — the bit stream of value `v` of (normalised) type `t`, first bit first:
  a scalar contributes the `n` low bits of its two's complement, least significant first; an
  array its elements in order, preceded by its capacity as a 16-bit number when extensible; a
  message its fields in list order (ascending field number after normalisation), preceded by its
  own size in bits (prefix included) as a 16-bit number when extensible.
* `Spec.encode t v` — those bits packed into `⌈N/8⌉` bytes, stream bit `k` at byte `k / 8`,
  position `k % 8`, zero padded.
* `Spec.dec t W L i` — prefix-honouring decoder of a wire `W` (Nat view, `L` bits long) from bit
  `i`: returns the value and the position of the next sibling (`none` if a read leaves the wire).  An extensible node's announced size / capacity
  decides where the next sibling starts (forward compatibility, C05).
* `Spec.proj t v` — restriction of a value of a newer schema to the older schema `t`.
-/

namespace Bp

/-- the `n` low bits of `u`, LSB first -/
def natBits (n u : Nat) : List Bool := (List.range n).map (fun k => u.testBit k)

/-- a scalar: the `n` low bits of the two's complement of `x` -/
def leafBits (n : Nat) (x : Int) : List Bool := natBits n (tc x n)

mutual
def Spec.bits : Ty → Val → List Bool
  | .bool, .int x => leafBits 1 x
  | .byte, .int x => leafBits 8 x
  | .uint n, .int x => leafBits n x
  | .int n, .int x => leafBits n x
  | .enum n _, .int x => leafBits n x
  | .alias t, v => Spec.bits t v
  | .array ext cap e, .arr vs => (if ext then natBits 16 cap else []) ++ vs.flatMap (Spec.bits e)
  | .msg ext fs, .msg vs =>
      (if ext then natBits 16 (extBits ext + fieldsBits fs) else []) ++ Spec.bitsFields fs vs
  | _, _ => []
def Spec.bitsFields : List (Nat × Ty) → List Val → List Bool
  | (_, t) :: fs, v :: vs => Spec.bits t v ++ Spec.bitsFields fs vs
  | _, _ => []
end

/-- number of bytes of a message of `n` bits -/
def nbytes (n : Nat) : Nat := (n + 7) / 8

def Spec.encode (t : Ty) (v : Val) : List Nat :=
  natToBytes (nbytes t.nbits) (bitsToNat (Spec.bits t v))

/-- unsigned value of wire bits `[i, i+n)` -/
def readNat (W i n : Nat) : Nat := (W >>> i) % 2^n

/-- checked read: bits `[i, i+n)` must lie inside the first `L` bits of the wire -/
def readB (W L i n : Nat) : Option Nat := if i + n ≤ L then some (readNat W i n) else none

/-- decode `k` elements with a given element decoder -/
def decArrWith (d : Nat → Option (Val × Nat)) : Nat → Nat → Option (List Val × Nat)
  | 0, i => some ([], i)
  | k+1, i =>
    match d i with
    | none => none
    | some (v, i1) =>
      match decArrWith d k i1 with
      | none => none
      | some (vs, i2) => some (v :: vs, i2)

mutual
/-- `Spec.dec t W L i`: decode type `t` from bit `i` of the wire `W` (Nat view) whose length is `L`
bits; `none` if a read would leave the wire.  Returns the value and the position of the next
sibling. -/
def Spec.dec : Ty → Nat → Nat → Nat → Option (Val × Nat)
  | .bool, W, L, i => (readB W L i 1).map fun (u : Nat) => (.int (u : Int), i + 1)
  | .byte, W, L, i => (readB W L i 8).map fun (u : Nat) => (.int (u : Int), i + 8)
  | .uint n, W, L, i => (readB W L i n).map fun (u : Nat) => (.int (u : Int), i + n)
  | .int n, W, L, i => (readB W L i n).map fun (u : Nat) => (.int (sgn u n), i + n)
  | .enum n _, W, L, i => (readB W L i n).map fun (u : Nat) => (.int (u : Int), i + n)
  | .alias t, W, L, i => Spec.dec t W L i
  | .array ext cap e, W, L, i =>
    if ext then
      match readB W L i 16 with
      | none => none
      | some ahead =>
        match decArrWith (Spec.dec e W L) cap (i + 16) with
        | none => none
        | some (vs, i2) =>
          some (.arr vs, if ahead > cap then i2 + (ahead - cap) * ((i2 - i - 16) / cap) else i2)
    else
      match decArrWith (Spec.dec e W L) cap i with
      | none => none
      | some (vs, i2) => some (.arr vs, i2)
  | .msg ext fs, W, L, i =>
    if ext then
      match readB W L i 16 with
      | none => none
      | some ahead =>
        match Spec.decFields fs W L (i + 16) with
        | none => none
        | some (vs, i2) => some (.msg vs, if i + ahead ≥ i2 then i + ahead else i2)
    else
      match Spec.decFields fs W L i with
      | none => none
      | some (vs, i2) => some (.msg vs, i2)
def Spec.decFields : List (Nat × Ty) → Nat → Nat → Nat → Option (List Val × Nat)
  | [], _, _, i => some ([], i)
  | (_, t) :: fs, W, L, i =>
    match Spec.dec t W L i with
    | none => none
    | some (v, i1) =>
      match Spec.decFields fs W L i1 with
      | none => none
      | some (vs, i2) => some (v :: vs, i2)
end

def Spec.decode (t : Ty) (bytes : List Nat) : Option Val :=
  (Spec.dec t (bytesToNat bytes) (8 * bytes.length) 0).map (·.1)

mutual
/-- restriction of a value of a newer schema to the older schema `t` -/
def Spec.proj : Ty → Val → Val
  | .alias t, v => Spec.proj t v
  | .array _ cap e, .arr vs => .arr ((vs.take cap).map (Spec.proj e))
  | .msg _ fs, .msg vs => .msg (Spec.projFields fs vs)
  | _, v => v
def Spec.projFields : List (Nat × Ty) → List Val → List Val
  | (_, t) :: fs, v :: vs => Spec.proj t v :: Spec.projFields fs vs
  | _, _ => []
end

end Bp
