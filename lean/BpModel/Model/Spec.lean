import BpModel.Model.Schema
/-!
# L2 Spec — the wire format, written to be read in a minute

* `Spec.bits t v` — the bit stream of value `v` of (normalised) type `t`, first bit first:
  a scalar contributes the `n` low bits of its two's complement, least significant first; an
  array its elements in order, preceded by its capacity as a 16-bit number when extensible; a
  message its fields in list order (ascending field number after normalisation), preceded by its
  own size in bits (prefix included) as a 16-bit number when extensible.
* `Spec.encode t v` — those bits packed into `⌈N/8⌉` bytes, stream bit `k` at byte `k / 8`,
  position `k % 8`, zero padded.
* `Spec.dec t W i` — prefix-honouring decoder of a wire `W` (Nat view) from bit `i`: returns the
  value and the position of the next sibling.  An extensible node's announced size / capacity
  decides where the next sibling starts (forward compatibility, C05).
* `Spec.proj t v` — restriction of a value of a newer schema to the older schema `t`.
-/

namespace Bp

/-- the `n` low bits of `u`, LSB first -/
def natBits (n u : Nat) : List Bool := (List.range n).map (fun k => u.testBit k)

/-- a scalar: the `n` low bits of the two's complement of `x` -/
def leafBits (n : Nat) (x : Int) : List Bool := natBits n (tc x n)

mutual
def Spec.bits : Ty → Val → List Bool
  | .bool, .int x => leafBits 1 x
  | .byte, .int x => leafBits 8 x
  | .uint n, .int x => leafBits n x
  | .int n, .int x => leafBits n x
  | .enum n _, .int x => leafBits n x
  | .alias t, v => Spec.bits t v
  | .array ext cap e, .arr vs => (if ext then natBits 16 cap else []) ++ vs.flatMap (Spec.bits e)
  | .msg ext fs, .msg vs =>
      (if ext then natBits 16 (extBits ext + fieldsBits fs) else []) ++ Spec.bitsFields fs vs
  | _, _ => []
def Spec.bitsFields : List (Nat × Ty) → List Val → List Bool
  | (_, t) :: fs, v :: vs => Spec.bits t v ++ Spec.bitsFields fs vs
  | _, _ => []
end

/-- number of bytes of a message of `n` bits -/
def nbytes (n : Nat) : Nat := (n + 7) / 8

def Spec.encode (t : Ty) (v : Val) : List Nat :=
  natToBytes (nbytes t.nbits) (bitsToNat (Spec.bits t v))

/-- unsigned value of wire bits `[i, i+n)` -/
def readNat (W i n : Nat) : Nat := (W >>> i) % 2^n

/-- decode `k` elements with a given element decoder -/
def decArrWith (d : Nat → Val × Nat) : Nat → Nat → List Val × Nat
  | 0, i => ([], i)
  | k+1, i =>
    let r := d i
    let rs := decArrWith d k r.2
    (r.1 :: rs.1, rs.2)

mutual
def Spec.dec : Ty → Nat → Nat → Val × Nat
  | .bool, W, i => (.int (readNat W i 1), i + 1)
  | .byte, W, i => (.int (readNat W i 8), i + 8)
  | .uint n, W, i => (.int (readNat W i n), i + n)
  | .int n, W, i => (.int (sgn (readNat W i n) n), i + n)
  | .enum n _, W, i => (.int (readNat W i n), i + n)
  | .alias t, W, i => Spec.dec t W i
  | .array ext cap e, W, i =>
    if ext then
      let ahead := readNat W i 16
      let r := decArrWith (Spec.dec e W) cap (i + 16)
      let per := (r.2 - (i + 16)) / cap
      (.arr r.1, if ahead > cap then r.2 + (ahead - cap) * per else r.2)
    else
      let r := decArrWith (Spec.dec e W) cap i
      (.arr r.1, r.2)
  | .msg ext fs, W, i =>
    if ext then
      let ahead := readNat W i 16
      let r := Spec.decFields fs W (i + 16)
      (.msg r.1, if i + ahead ≥ r.2 then i + ahead else r.2)
    else
      let r := Spec.decFields fs W i
      (.msg r.1, r.2)
def Spec.decFields : List (Nat × Ty) → Nat → Nat → List Val × Nat
  | [], _, i => ([], i)
  | (_, t) :: fs, W, i =>
    let r := Spec.dec t W i
    let rs := Spec.decFields fs W r.2
    (r.1 :: rs.1, rs.2)
end

def Spec.decode (t : Ty) (bytes : List Nat) : Val := (Spec.dec t (bytesToNat bytes) 0).1

mutual
/-- restriction of a value of a newer schema to the older schema `t` -/
def Spec.proj : Ty → Val → Val
  | .alias t, v => Spec.proj t v
  | .array _ cap e, .arr vs => .arr ((vs.take cap).map (Spec.proj e))
  | .msg _ fs, .msg vs => .msg (Spec.projFields fs vs)
  | _, v => v
def Spec.projFields : List (Nat × Ty) → List Val → List Val
  | (_, t) :: fs, v :: vs => Spec.proj t v :: Spec.projFields fs vs
  | _, _ => []
end

end Bp
