import BpModel.Model.Schema
/-!
# JSON value of a message (what `to_json` / `Json<Msg>` must denote)
Object entries are keyed by field (number standing for the schema's field name, one-to-one) in
list order — field-number order for a normalised type; integers as numbers with their sign,
booleans as true/false, arrays (byte arrays included) as lists, nested messages as objects, enum
values as their numbers.
-/
namespace Bp

inductive JVal where
  | num (x : Int) | bool (b : Bool) | arr (xs : List JVal) | obj (kvs : List (Nat × JVal))
  deriving Repr, Inhabited

mutual
def Spec.json : Ty → Val → JVal
  | .bool, .int x => .bool (x ≠ 0)
  | .byte, .int x | .uint _, .int x | .int _, .int x | .enum _ _, .int x => .num x
  | .alias t, v => Spec.json t v
  | .array _ _ e, .arr vs => .arr (vs.map (Spec.json e))
  | .msg _ fs, .msg vs => .obj (Spec.jsonFields fs vs)
  | _, _ => .arr []
def Spec.jsonFields : List (Nat × Ty) → List Val → List (Nat × JVal)
  | (k, t) :: fs, v :: vs => (k, Spec.json t v) :: Spec.jsonFields fs vs
  | _, _ => []
end

mutual
/-- reading the JSON value back, guided by the type -/
def Spec.ofJson : Ty → JVal → Option Val
  | .bool, .bool b => some (.int (if b then 1 else 0))
  | .byte, .num x | .uint _, .num x | .int _, .num x | .enum _ _, .num x => some (.int x)
  | .alias t, j => Spec.ofJson t j
  | .array _ _ e, .arr js => (js.mapM (Spec.ofJson e)).map .arr
  | .msg _ fs, .obj kvs => (Spec.ofJsonFields fs kvs).map .msg
  | _, _ => none
def Spec.ofJsonFields : List (Nat × Ty) → List (Nat × JVal) → Option (List Val)
  | [], [] => some []
  | (k, t) :: fs, (k', j) :: kvs =>
    if k = k' then
      match Spec.ofJson t j, Spec.ofJsonFields fs kvs with
      | some v, some vs => some (v :: vs)
      | _, _ => none
    else none
  | _, _ => none
end

end Bp
