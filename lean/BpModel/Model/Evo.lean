import BpModel.Model.Schema
/-!
# Permitted schema evolution (C05)

`Evo S1 S2`: `S2` is obtained from `S1` by appending fields (with larger numbers) to extensible
messages and/or increasing the capacity of extensible arrays, at any nesting depth.  Types are
normalised (fields ascending by number), so appended fields sit at the end of the list.
Chains of single steps compose into it (`Evo.trans`, `Proofs/SpecDec.lean`).
-/
namespace Bp

mutual
inductive Evo : Ty → Ty → Prop
  | bool : Evo .bool .bool
  | byte : Evo .byte .byte
  | uint {n} : Evo (.uint n) (.uint n)
  | int {n} : Evo (.int n) (.int n)
  | enum {n ms} : Evo (.enum n ms) (.enum n ms)
  | alias {t1 t2} : Evo t1 t2 → Evo (.alias t1) (.alias t2)
  | arr {ext c1 c2 e1 e2} : 1 ≤ c1 → c1 ≤ c2 → (ext = false → c1 = c2) → Evo e1 e2 →
      Evo (.array ext c1 e1) (.array ext c2 e2)
  | msg {ext fs1 fs2} : EvoFields ext fs1 fs2 → Evo (.msg ext fs1) (.msg ext fs2)
inductive EvoFields : Bool → List (Nat × Ty) → List (Nat × Ty) → Prop
  | nil {ext} : EvoFields ext [] []
  | extra {f fs} : EvoFields true [] (f :: fs)            -- appended fields: extensible only
  | cons {ext k t1 t2 fs1 fs2} : Evo t1 t2 → EvoFields ext fs1 fs2 →
      EvoFields ext ((k, t1) :: fs1) ((k, t2) :: fs2)
end

end Bp
