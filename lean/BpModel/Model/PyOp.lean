import BpModel.Model.PyInt
/-!
# Python operator semantics for translated definitions (`Gen/*.lean`)

Every operand is an unbounded `Int`.  Shift counts are `Int` too; CPython raises `ValueError`
for a negative count — here a negative count behaves as 0, and every bridge lemma is stated on a
domain where the count is non-negative.  `fdiv`/`mod` are floor division and its remainder.
`int(a / b)` (float division) is translated to `fdiv`, exact for `0 ≤ a < 2^53`, `b > 0`.
-/
namespace Bp.PyOp

def add (a b : Int) : Int := a + b
def sub (a b : Int) : Int := a - b
def mul (a b : Int) : Int := a * b
def fdiv (a b : Int) : Int := Int.fdiv a b
def mod (a b : Int) : Int := Int.fmod a b
def shl (a b : Int) : Int := PyInt.shl a b.toNat
def shr (a b : Int) : Int := PyInt.shr a b.toNat
def and (a b : Int) : Int := PyInt.and a b
def or (a b : Int) : Int := PyInt.or a b
/-- `~a` -/
def inv (a : Int) : Int := -a - 1

end Bp.PyOp
