/-!
# L7 (part) — literals: how constants are emitted into C, Go and Python, and what the emitted
text denotes in each language

mirrors: renderer/impls/{c,go,py}/formatter.py format_int_value / format_bool_value /
format_str_value, renderer/formatter.py escape_str_value; the `denote*` functions are small models
of the literal syntax of the three languages (decimal integer literals with optional `-`,
boolean keywords, double-quoted strings with the escapes `\\ \" \n \t \r`).
-/
namespace Bp.Lit

inductive Lang | c | go | py deriving DecidableEq, Repr

/-- decimal digits of a natural number, most significant first -/
def digits (n : Nat) : List Char :=
  if h : n < 10 then [Char.ofNat (48 + n)] else digits (n / 10) ++ [Char.ofNat (48 + n % 10)]
termination_by n
decreasing_by omega

/-- `format_int_value`: `"{0}".format(value)` in all three languages -/
def intLit (z : Int) : List Char :=
  match z with
  | .ofNat n => digits n
  | .negSucc n => '-' :: digits (n + 1)

def digitVal? (c : Char) : Option Nat := if '0' ≤ c ∧ c ≤ '9' then some (c.toNat - 48) else none

def readGo : Nat → List Char → Option Nat
  | a, [] => some a
  | a, c :: cs => match digitVal? c with
    | some d => readGo (10 * a + d) cs
    | none => none

def readNat? : List Char → Option Nat
  | [] => none
  | cs => readGo 0 cs

/-- what a decimal integer literal (optionally negated) denotes -/
def denoteInt (cs : List Char) : Option Int :=
  match cs with
  | '-' :: r => (readNat? r).map fun n => -(n : Int)
  | _ => (readNat? cs).map fun n => (n : Int)

/-- `format_bool_value` -/
def boolLit : Lang → Bool → String
  | .py, true => "True" | .py, false => "False"
  | _, true => "true" | _, false => "false"
def denoteBool : Lang → String → Option Bool
  | .py, "True" => some true | .py, "False" => some false
  | .c, "true" => some true | .c, "false" => some false
  | .go, "true" => some true | .go, "false" => some false
  | _, _ => none

/-- `escape_str_value`: the characters that cannot stand verbatim between double quotes -/
def escChar (c : Char) : List Char :=
  if c = '\\' then ['\\', '\\'] else if c = '"' then ['\\', '"'] else if c = '\n' then ['\\', 'n']
  else if c = '\t' then ['\\', 't'] else if c = '\r' then ['\\', 'r'] else [c]
def escape (s : List Char) : List Char := s.flatMap escChar
/-- `format_str_value` -/
def strLit (s : List Char) : List Char := '"' :: (escape s ++ ['"'])

/-- body of a double-quoted literal up to the closing quote (common subset of C, Go, Python) -/
def unescape : List Char → Option (List Char × List Char)
  | [] => none                                   -- unterminated
  | '"' :: rest => some ([], rest)
  | '\\' :: c :: rest =>
    let d := if c = 'n' then some '\n' else if c = 't' then some '\t' else if c = 'r' then some '\r'
      else if c = '\\' then some '\\' else if c = '"' then some '"' else none
    match d, unescape rest with
    | some ch, some (body, tl) => some (ch :: body, tl)
    | _, _ => none
  | '\\' :: [] => none
  | '\n' :: _ => none                            -- a raw newline ends no literal in any of the three
  | c :: rest =>
    match unescape rest with
    | some (body, tl) => some (c :: body, tl)
    | none => none

def denoteStr (cs : List Char) : Option (List Char) :=
  match cs with
  | '"' :: r => match unescape r with
    | some (body, []) => some body
    | _ => none
  | _ => none

end Bp.Lit
