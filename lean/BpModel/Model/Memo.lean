/-!
# L7 (part) — conditional memoisation
mirrors: compiler/bitproto/utils.py `cache_if_frozen` (results are stored only for frozen nodes)
-/
namespace Bp.C18

/-- a memo table in front of a function `f` of (node, time): nodes may change until frozen -/
structure Memo (K V : Type) where
  table : List (K × V) := []

def Memo.get {K V} [DecidableEq K] (m : Memo K V) (f : K → V) (frozen : K → Bool) (k : K) : V × Memo K V :=
  match m.table.find? (·.1 = k) with
  | some (_, v) => (v, m)
  | none => if frozen k then (f k, { table := (k, f k) :: m.table }) else (f k, m)

end Bp.C18
