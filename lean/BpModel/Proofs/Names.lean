import BpModel.Model.Names
namespace Bp.Names

theorem toNat_ofNat_small (n : Nat) (h : n < 55296) : (Char.ofNat n).toNat = n := by
  have hv : n.isValidChar := Or.inl h
  simp only [Char.ofNat, hv, dite_true]
  simp [Char.toNat, Char.ofNatAux, UInt32.toNat_ofNatLT]

theorem splitUs_ne_nil : ∀ (s : List Char), splitUs s ≠ []
  | [] => by simp [splitUs]
  | c :: cs => by
    have := splitUs_ne_nil cs
    simp only [splitUs]
    cases h : splitUs cs with
    | nil => exact absurd h this
    | cons p ps => by_cases hc : c = '_' <;> simp [hc]

theorem splitUs_noUs : ∀ (s : List Char), '_' ∉ s → splitUs s = [s]
  | [], _ => rfl
  | c :: cs, h => by
    have hc : c ≠ '_' := by intro e; exact h (by simp [e])
    have ih := splitUs_noUs cs (by intro e; exact h (by simp [e]))
    simp [splitUs, ih, hc]

/-- `split` distributes over an underscore -/
theorem splitUs_append_us : ∀ (a b : List Char), '_' ∉ a → splitUs (a ++ '_' :: b) = a :: splitUs b
  | [], b, _ => by
    have := splitUs_ne_nil b
    cases h : splitUs b with
    | nil => exact absurd h this
    | cons p ps => simp [splitUs, h]
  | c :: a, b, h => by
    have hc : c ≠ '_' := by intro e; exact h (by simp [e])
    have ih := splitUs_append_us a b (by intro e; exact h (by simp [e]))
    simp [splitUs, ih, hc]

/-- style-conforming PascalCase: an uppercase letter first, no underscore, not an all-caps tail -/
def IsPascal (s : List Char) : Prop :=
  ∃ c rest, s = c :: rest ∧ isUpperC c = true ∧ '_' ∉ s ∧ ¬ (rest ≠ [] ∧ pyIsUpper rest = true)

theorem toUpperC_of_upper {c : Char} (h : isUpperC c = true) : toUpperC c = c := by
  have : isLowerC c = false := by
    simp only [isUpperC, isLowerC, Bool.and_eq_true, decide_eq_true_eq, Bool.and_eq_false_iff, decide_eq_false_iff_not] at *
    left; intro h'
    have h1 : c.toNat ≤ 90 := by have := h.2; exact this
    have h2 : 97 ≤ c.toNat := by exact h'
    omega
  simp [toUpperC, this]

theorem pascalCase_fixed {s : List Char} (h : IsPascal s) : pascalCase s = s := by
  obtain ⟨c, rest, rfl, hup, hnu, hnot⟩ := h
  simp only [pascalCase, splitUs_noUs _ hnu, List.map_cons, List.map_nil, List.flatten_cons,
    List.flatten_nil, List.append_nil, pascalPart, toUpperC_of_upper hup]
  simp [hnot]

/-- a prefix ending in `_` contributes its own pascal form, the Pascal name stays as it is -/
theorem pascalCase_prefix (p n : List Char) (hp : '_' ∉ p) (hn : IsPascal n) :
    pascalCase (p ++ '_' :: n) = pascalPart p ++ n := by
  have hn' := pascalCase_fixed hn
  unfold pascalCase at hn' ⊢
  rw [splitUs_append_us p n hp]
  simp [hn']

/-- a name whose first letter is lowercase is changed by `pascal_case` (so it is reported) -/
theorem pascalCase_ne_of_lower (c : Char) (rest : List Char) (hc : isLowerC c = true) (hnu : '_' ∉ (c :: rest)) :
    pascalCase (c :: rest) ≠ c :: rest := by
  simp only [pascalCase, splitUs_noUs _ hnu, List.map_cons, List.map_nil, List.flatten_cons, List.flatten_nil,
    List.append_nil, pascalPart]
  intro h
  injection h with h1 _
  simp only [toUpperC, hc, if_true] at h1
  have h97 : 97 ≤ c.toNat := by
    simp only [isLowerC, Bool.and_eq_true, decide_eq_true_eq] at hc; exact hc.1
  have h122 : c.toNat ≤ 122 := by
    simp only [isLowerC, Bool.and_eq_true, decide_eq_true_eq] at hc; exact hc.2
  have := congrArg Char.toNat h1
  rw [toNat_ofNat_small (c.toNat - 32) (by omega)] at this
  omega

theorem pascalPart_noUs (p : List Char) (h : '_' ∉ p) : '_' ∉ pascalPart p := by
  cases p with
  | nil => simp [pascalPart]
  | cons c rest =>
    have hc : c ≠ '_' := by intro e; exact h (by simp [e])
    have hr : '_' ∉ rest := by intro e; exact h (by simp [e])
    simp only [pascalPart, List.mem_cons, not_or]
    refine ⟨?_, ?_⟩
    · simp only [toUpperC]
      split
      · rename_i hl
        intro e
        have h97 : 97 ≤ c.toNat := by
          simp only [isLowerC, Bool.and_eq_true, decide_eq_true_eq] at hl; exact hl.1
        have h122 : c.toNat ≤ 122 := by
          simp only [isLowerC, Bool.and_eq_true, decide_eq_true_eq] at hl; exact hl.2
        have := congrArg Char.toNat e
        rw [toNat_ofNat_small (c.toNat - 32) (by omega)] at this
        have h95 : ('_' : Char).toNat = 95 := by decide
        simp only [h95] at this
        omega
      · exact fun e => hc e.symm
    · split
      · intro hm
        obtain ⟨x, hx, hxe⟩ := List.mem_map.mp hm
        simp only [toLowerC] at hxe
        split at hxe
        · rename_i hu
          have h65 : 65 ≤ x.toNat := by
            simp only [isUpperC, Bool.and_eq_true, decide_eq_true_eq] at hu; exact hu.1
          have h90 : x.toNat ≤ 90 := by
            simp only [isUpperC, Bool.and_eq_true, decide_eq_true_eq] at hu; exact hu.2
          have := congrArg Char.toNat hxe
          rw [toNat_ofNat_small (x.toNat + 32) (by omega)] at this
          have h95 : ('_' : Char).toNat = 95 := by decide
          simp only [h95] at this
          omega
        · subst hxe; exact hr hx
      · exact hr

theorem flatten_pascal_noUs : ∀ (ps : List (List Char)), (∀ p ∈ ps, '_' ∉ p) → '_' ∉ (ps.map pascalPart).flatten
  | [], _ => by simp
  | p :: ps, h => by
    simp only [List.map_cons, List.flatten_cons, List.mem_append, not_or]
    exact ⟨pascalPart_noUs p (h p (by simp)), flatten_pascal_noUs ps (fun q hq => h q (by simp [hq]))⟩

theorem splitUs_parts_noUs : ∀ (s : List Char), ∀ p ∈ splitUs s, '_' ∉ p
  | [] => by simp [splitUs]
  | c :: cs => by
    have ih := splitUs_parts_noUs cs
    have hne := splitUs_ne_nil cs
    cases h : splitUs cs with
    | nil => exact absurd h hne
    | cons q qs =>
      rw [h] at ih
      simp only [splitUs, h]
      by_cases hc : c = '_'
      · simp only [hc, if_true]
        intro p hp
        rcases List.mem_cons.mp hp with rfl | hp
        · simp
        · exact ih p hp
      · simp only [hc, if_false]
        intro p hp
        rcases List.mem_cons.mp hp with rfl | hp
        · intro hm
          rcases List.mem_cons.mp hm with e | e
          · exact hc e.symm
          · exact ih q (by simp) e
        · exact ih p (by simp [hp])

/-- `pascal_case` never leaves an underscore: a name with an inner underscore is changed (reported) -/
theorem pascalCase_noUs (s : List Char) : '_' ∉ pascalCase s :=
  flatten_pascal_noUs _ (splitUs_parts_noUs s)

theorem pascalCase_ne_of_us (s : List Char) (h : '_' ∈ s) : pascalCase s ≠ s := by
  intro e
  exact pascalCase_noUs s (by rw [e]; exact h)

end Bp.Names

namespace Bp.Names

theorem pascalPart_fixed {s : List Char} (h : IsPascal s) : pascalPart s = s := by
  obtain ⟨c, rest, rfl, hup, _, hnot⟩ := h
  simp only [pascalPart, toUpperC_of_upper hup]
  simp [hnot]

theorem IsPascal.noUs {s : List Char} (h : IsPascal s) : '_' ∉ s := by
  obtain ⟨c, rest, rfl, _, hnu, _⟩ := h; exact hnu

/-- `pascal_case` of Pascal names joined by `_` is their concatenation -/
theorem pascalCase_join : ∀ (scopes : List (List Char)) (n : List Char), (∀ s ∈ scopes, IsPascal s) → IsPascal n →
    pascalCase (joinWith ['_'] (scopes ++ [n])) = scopes.flatten ++ n
  | [], n, _, hn => by simpa [joinWith] using pascalCase_fixed hn
  | s :: rest, n, hs, hn => by
    have ih := pascalCase_join rest n (fun x hx => hs x (by simp [hx])) hn
    have hsP := hs s (by simp)
    have hne : rest ++ [n] ≠ [] := by simp
    have hj : joinWith ['_'] (s :: (rest ++ [n])) = s ++ '_' :: joinWith ['_'] (rest ++ [n]) := by
      cases h : rest ++ [n] with
      | nil => exact absurd h hne
      | cons y ys => simp [joinWith]
    rw [List.cons_append, hj]
    unfold pascalCase at ih ⊢
    rw [splitUs_append_us s _ hsP.noUs]
    simp [ih, pascalPart_fixed hsP]

end Bp.Names
