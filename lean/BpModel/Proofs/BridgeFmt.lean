import BpModel.Gen.FmtHelpers
import BpModel.Model.Helpers
import BpModel.Model.Spec
import BpModel.Model.CRt
/-!
# Bridge (T): compiler helpers as the source reads now = the clean definitions
`Type.nbytes`, `Formatter.get_nbits_of_integer`, `Formatter.op_mode_get_mask`.
-/
namespace Bp.Bridge
open Bp Bp.Gen.FmtHelpers

/-- `Type.nbytes()` is `⌈nbits/8⌉` (for every message size the compiler admits, and beyond) -/
theorem type_nbytes_eq (n : Nat) : type_nbytes n = (nbytes n : Nat) := by
  simp only [type_nbytes, nbytes, PyOp.mod, PyOp.fdiv, PyOp.add,
    Int.fmod_eq_emod_of_nonneg _ (by decide : (0:Int) ≤ 8), Int.fdiv_eq_ediv_of_nonneg _ (by decide : (0:Int) ≤ 8)]
  split <;> omega

/-- storage width chosen by the compiler = smallest of 8/16/32/64 covering the width, and it is
the width the C runtime assumes on a big-endian host (`BpBaseTypeStorageSize`) -/
theorem get_nbits_of_integer_eq : ∀ n : Fin 65, 1 ≤ n.val →
    get_nbits_of_integer (type_nbytes n.val) = (storageBits n.val : Nat) ∧
    storageBits n.val = 8 * CRt.storageSize n.val := by
  decide +kernel

/-- the compile-time mask of optimization mode is the runtime's mask -/
theorem op_mode_get_mask_eq : ∀ k : Fin 8, ∀ c : Fin 9, op_mode_get_mask k.val c.val = (getMask k.val c.val : Nat) := by
  decide +kernel

end Bp.Bridge
